#!/bin/bash
# usage: seed_round_tests.sh <round> <sub...>   — baseline tests on every patched worktree of a round (parallel over worktrees)
rnd=$1; shift
subs="$@"
for i in ${ONLY:-01 02 03 04 05 06 07 08 09 10 11 12 13 14 15 16 17 18 19 20}; do
  (
    wt=/tmp/w${rnd}_C$i
    for sub in $subs; do
      d=$wt/_seed/$sub
      [ -f $d/patch.diff ] || continue
      git -C $wt checkout -q -- partitura
      git -C $wt apply $d/patch.diff || { echo "C$i/$sub: patch does not apply"; continue; }
      PYTHONPATH=$wt /venv/bin/python /verif/tools/baseline.py $wt > $d/baseline_patched.txt 2>&1
      git -C $wt checkout -q -- partitura
      echo "C$i/$sub $(head -1 $d/baseline_patched.txt)"
    done
  ) &
done
wait
