#!/bin/bash
# Re-render MANIFEST.json, run every claimed quick check against /repo, validate manifest + evidence.
cd /verif
/venv/bin/python tools/manifest.py || exit 1
rc=0
for id in $(/venv/bin/python -c "import json;print(' '.join(c['property_id'] for c in json.load(open('MANIFEST.json'))['checks']))"); do
  /venv/bin/python sa/check.py $id --tier ${1:-quick} 2>&1 | grep -v -i "warn\|pkg_resources" | tail -${2:-1}
  s=${PIPESTATUS[0]}; [ $s -ne 0 ] && { echo "  !! $id exit $s"; rc=1; }
done
python3-vt - <<'PY'
import json,jsonschema,glob
jsonschema.validate(json.load(open('/verif/MANIFEST.json')), json.load(open('/root/.vp/MANIFEST.schema.json')))
es=json.load(open('/root/.vp/EVIDENCE.schema.json'))
m=json.load(open('/verif/MANIFEST.json'))
for c in m['checks']:
    jsonschema.validate(json.load(open(c['evidence_file'])), es)
print("manifest + %d evidence files valid" % len(m['checks']))
PY
exit $rc
