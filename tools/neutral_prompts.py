#!/venv/bin/python
"""Worktrees and prompts for a round of *behaviour-preserving* refactorings made by sub-agents (false-alarm measurement).
usage: neutral_prompts.py <round>     (worktrees /tmp/n<round>_Cnn, prompts /tmp/seedprompts/Cnn_n<round>.txt)"""
import json, os, subprocess, sys
rnd = sys.argv[1]
VERIF = os.path.dirname(os.path.dirname(os.path.abspath(__file__)))
T = '''You are working in a private git worktree of the Python library CPJKU/partitura (symbolic music processing) at {wt}.
Rules of engagement:
- Work ONLY inside {wt}. Never modify /repo. Never read or write anything under /verif (it is off limits). Put scratch files only inside {wt}.
- NEVER use `git stash` (the stash is shared between worktrees and other people work in sibling worktrees right now). To flip a change use
  `git -C {wt} diff -- partitura > <file>`, `git -C {wt} apply -R <file>`, `git -C {wt} apply <file>`.
- Python interpreter: /venv/bin/python. The package is installed in editable mode pointing elsewhere, so ALWAYS run code as
  `cd {wt} && PYTHONPATH={wt} /venv/bin/python ...` and check once that `partitura.__file__` starts with {wt}.
- Tests: `cd {wt} && PYTHONPATH={wt} /venv/bin/python -m pytest -q -p no:cacheprovider --timeout=900 --continue-on-collection-errors` (about a minute);
  a few tests fail on the untouched tree for unrelated reasons (network access, MuseScore) — the set of failing tests must be the same before and after.

Context — the library is supposed to satisfy this property ({pid}: {title}):
  STATEMENT: {statement}

Your task: play the maintainer who CLEANS UP the code that implements this property WITHOUT changing its behaviour. Produce TWO INDEPENDENT
behaviour-preserving refactorings (A and B), each applied to the clean tree on its own, each in a DIFFERENT function among those that implement the
property (read the source first and pick functions that really matter for it), each changing roughly 8-40 lines.
{avoid} Make them the kind of change a
reviewer would merge: extract a helper function or inline one, restructure nested if/else into early returns or a dispatch table, turn a loop into a
comprehension or the other way round, use enumerate/zip, hoist or rename local variables, reorder independent statements, merge duplicated branches,
split a long expression into named steps, replace a flag variable by control flow, simplify boolean conditions (De Morgan, comparison direction), ...
The two refactorings should be of different kinds. They must preserve behaviour for EVERY input: watch evaluation order, aliasing and in-place
updates, integer vs float arithmetic, dict/set ordering, exceptions raised, and default arguments. Do not fix bugs, do not change public names or signatures.

Deliverables: for refactoring A everything inside {wt}/_seed/a/ and for B inside {wt}/_seed/b/, each directory with:
  1. patch.diff  — `git -C {wt} diff -- partitura > {wt}/_seed/<a|b>/patch.diff` (library source only).
  2. demo.py     — a differential check, run as `cd {wt} && PYTHONPATH={wt} /venv/bin/python _seed/<a|b>/demo.py`: it exercises the refactored function(s) on a
                   good number of varied inputs (including edge cases relevant to the property) and compares the results with `expected.json` in the same
                   directory; run with `--record` it (re)writes expected.json. Record on the CLEAN tree, then the plain run must print OK and exit 0 on BOTH
                   the clean and the refactored tree. Keep expected.json.
  3. notes.md    — which function you refactored, what kind of refactoring it is, and why behaviour is preserved (the non-obvious points).
When you finish leave the worktree CLEAN (`git -C {wt} checkout -- partitura`); both patch.diff files must apply to the clean tree independently.
In your final message give a four-line summary (per refactoring: file/function, kind of change).'''
props = [json.loads(l) for l in open(os.path.join(VERIF, "properties.jsonl"))]
os.makedirs("/tmp/seedprompts", exist_ok=True)
for p in props:
    pid = p["id"]
    wt = f"/tmp/n{rnd}_{pid}"
    if not os.path.isdir(wt):
        subprocess.run(["git", "-C", "/repo", "worktree", "add", "-q", "--detach", wt, "HEAD"], check=True)
    for sub in ("a", "b"):
        os.makedirs(os.path.join(wt, "_seed", sub), exist_ok=True)
    earlier = []
    ndir = os.path.join(VERIF, "neutral")
    for d in sorted(os.listdir(ndir)) if os.path.isdir(ndir) else []:
        if d.startswith(pid):
            diff = open(os.path.join(ndir, d, "patch.diff")).read()
            funcs = sorted({l.split("@@")[-1].strip() for l in diff.splitlines() if l.startswith("@@") and l.split("@@")[-1].strip()})
            earlier.extend(f[:60] for f in funcs)
    avoid = ("An earlier clean-up round already touched: " + "; ".join(sorted(set(earlier))) + ". Pick OTHER functions (the property depends on several mechanisms) and, if possible, other kinds of refactoring.") if earlier else ""
    open(f"/tmp/seedprompts/{pid}_n{rnd}.txt", "w").write(T.format(wt=wt, pid=pid, title=p["title"], statement=p["statement"], avoid=avoid))
print("prompts in /tmp/seedprompts, worktrees /tmp/n%s_C*" % rnd)
