#!/venv/bin/python
"""Create the scratch worktrees and the prompts for one round of seeded changes.

usage: seed_prompts.py <round>      (worktrees /tmp/w<round>_Cnn, prompts /tmp/seedprompts/Cnn_r<round>.txt)
Each sub-agent gets only its prompt (property text + worktree path): nothing from /verif.
"""
import json, os, subprocess, sys
rnd = sys.argv[1]
TWO = "--two" in sys.argv  # two independent changes per sub-agent, in _seed/a and _seed/b
VERIF = os.path.dirname(os.path.dirname(os.path.abspath(__file__)))
T = '''You are working in a private git worktree of the Python library CPJKU/partitura (symbolic music processing) at {wt}.
Rules of engagement:
- Work ONLY inside {wt}. Never modify /repo. Never read or write anything under /verif (it is off limits). Put scratch files only inside {wt}.
- NEVER use `git stash` (the stash is shared between worktrees and other people work in sibling worktrees right now). To flip your change use
  `git -C {wt} diff -- partitura > {wt}/_seed/patch.diff`, `git -C {wt} apply -R {wt}/_seed/patch.diff`, `git -C {wt} apply {wt}/_seed/patch.diff`.
- Python interpreter: /venv/bin/python. The package is installed in editable mode pointing elsewhere, so ALWAYS run code as
  `cd {wt} && PYTHONPATH={wt} /venv/bin/python ...` and check once that `partitura.__file__` starts with {wt}.
- Tests: `cd {wt} && PYTHONPATH={wt} /venv/bin/python -m pytest -q -p no:cacheprovider --timeout=900 tests/<file>.py`. The full suite takes about a minute
  (`... -m pytest -q -p no:cacheprovider --timeout=900 --continue-on-collection-errors`); a few tests fail on the untouched tree for unrelated reasons (network access, MuseScore) — record the set of
  failing tests BEFORE your change and make sure it is the same AFTER it.

The property under study ({pid}: {title}):
  STATEMENT: {statement}
  QUANTIFIED OVER: {quant}

Your task: craft ONE realistic code change to the library sources under {wt}/partitura that BREAKS this property while the code still imports and the
existing test suite still passes exactly as before. Think of a regression a developer could plausibly introduce: a refactoring slip, a wrong variable,
an off-by-one, a dropped guard, an update forgotten at one of two cooperating sites, a changed default, a subtly wrong table entry, a sort that is no longer stable, ...
The change must need something SPECIFIC to manifest — an unusual input, a particular option combination, a multi-step sequence of operations, or two
sites that each look fine alone — not something that ordinary use or the existing tests expose at once. Keep the diff small (typically 1-15 lines).
Read the relevant source first so that the change is genuinely about this property.
{avoid}
Deliverables, all inside {wt}/_seed/ :
  1. patch.diff  — `git -C {wt} diff -- partitura > {wt}/_seed/patch.diff` (library source only).
  2. demo.py     — a small self-contained program (run as `cd {wt} && PYTHONPATH={wt} /venv/bin/python _seed/demo.py`) that exits 0 and prints OK on the
                   UNPATCHED tree and exits non-zero on the patched tree, printing what differs. It must demonstrate a violation of the property as stated.
  3. notes.md    — what you changed and where, why it breaks the property, exactly what is needed for it to manifest (a section titled
                   "What is needed for it to manifest"), and the commands you ran with their outcome.
Verify all of it yourself: demo passes without the patch (`git apply -R`), fails with it; the set of passing tests is unchanged.
Leave the patch APPLIED in the worktree when you finish. In your final message give a five-line summary (file/function changed, what it breaks, what triggers it).'''
props = [json.loads(l) for l in open(os.path.join(VERIF, "properties.jsonl"))]
os.makedirs("/tmp/seedprompts", exist_ok=True)
for p in props:
    pid = p["id"]
    if os.environ.get("ONLY") and pid[1:] not in os.environ["ONLY"].split():
        continue
    wt = f"/tmp/w{rnd}_{pid}"
    if not os.path.isdir(wt):
        subprocess.run(["git", "-C", "/repo", "worktree", "add", "-q", "--detach", wt, "HEAD"], check=True)
    os.makedirs(os.path.join(wt, "_seed"), exist_ok=True)
    # what earlier rounds changed (function names only, from the committed seeds)
    earlier = []
    for d in sorted(os.listdir(os.path.join(VERIF, "seeded"))):
        mp = os.path.join(VERIF, "seeded", d, "meta.json")
        if d.startswith(pid) and os.path.exists(mp):
            diff = open(os.path.join(VERIF, "seeded", d, "patch.diff")).read()
            funcs = sorted({l.split("@@")[-1].strip() for l in diff.splitlines() if l.startswith("@@") and l.split("@@")[-1].strip()})
            files = sorted({l[6:] for l in diff.splitlines() if l.startswith("+++ b/")})
            earlier.append(f"{', '.join(files)} ({'; '.join(f[:70] for f in funcs)})")
    avoid = ""
    if earlier:
        avoid = ("Earlier studies already covered changes at these places: " + " | ".join(earlier) +
                 ".\nPick a DIFFERENT function and a different kind of mistake (ideally in another of the mechanisms the property depends on, possibly in another file).\n")
    if TWO:
        for sub in ("a", "b"):
            os.makedirs(os.path.join(wt, "_seed", sub), exist_ok=True)
    text = T.format(wt=wt, pid=pid, title=p["title"], statement=p["statement"], quant=p["quantifier"]["text"], avoid=avoid)
    if TWO:
        text = text.replace("Your task: craft ONE realistic code change", "Your task: craft TWO INDEPENDENT realistic code changes (A and B, in two DIFFERENT functions, each of a different kind of mistake; each is applied to the clean tree on its own) — each a realistic code change")
        text = text.replace("Deliverables, all inside " + wt + "/_seed/ :", "Deliverables: for change A everything inside " + wt + "/_seed/a/ and for change B inside " + wt + "/_seed/b/ (use these paths instead of _seed/ below; the demo of A is run as `_seed/a/demo.py`), each directory with:")
        text = text.replace("Leave the patch APPLIED in the worktree when you finish.", "When you finish leave the worktree CLEAN (no patch applied: `git -C " + wt + " checkout -- partitura`); both patch.diff files must apply to the clean tree independently.")
    open(f"/tmp/seedprompts/{pid}_r{rnd}.txt", "w").write(text)
    continue
    open(f"/tmp/seedprompts/{pid}_r{rnd}.txt", "w").write(T.format(wt=wt, pid=pid, title=p["title"], statement=p["statement"], quant=p["quantifier"]["text"], avoid=avoid))
print("prompts in /tmp/seedprompts, worktrees /tmp/w%s_C*" % rnd)
