#!/venv/bin/python
"""Run the repository's pinned test suite and compare with /root/.vp/BASELINE.json (stable_pass)."""
import json, subprocess, sys, tempfile, os, xml.etree.ElementTree as ET
repo = sys.argv[1] if len(sys.argv) > 1 else "/repo"
base = json.load(open("/root/.vp/BASELINE.json"))
fd, path = tempfile.mkstemp(suffix=".xml"); os.close(fd)
subprocess.run(["/venv/bin/python", "-m", "pytest", "-q", "-p", "no:cacheprovider", "--timeout=900",
                "--continue-on-collection-errors", f"--junitxml={path}"],
               cwd=repo, stdout=subprocess.DEVNULL, stderr=subprocess.DEVNULL)
passed = set()
for tc in ET.parse(path).getroot().iter("testcase"):
    if not any(c.tag in ("failure", "error", "skipped") for c in tc):
        passed.add(f"{tc.get('classname')}::{tc.get('name')}")
os.unlink(path)
missing = [t for t in base["stable_pass"] if t not in passed]
print(f"passed={len(passed)} baseline={len(base['stable_pass'])} missing={len(missing)}")
for t in missing:
    print("  MISSING", t)
sys.exit(1 if missing else 0)
