#!/venv/bin/python
"""Confirm a behaviour-preserving refactoring made by a sub-agent and run every check against it (false-alarm measurement).

usage: neutral_eval.py <neutral-id> <worktree> <property-id> --dir _seed/a [--skip-tests]
  1. the patch applies to the clean worktree; demo.py (differential check against expected.json recorded on the clean tree)
     exits 0 on the clean AND on the refactored tree
  2. the baseline tests still pass on the refactored worktree
  3. every registered quick check is run against the refactored source (in memory): none may report a new finding or an analysis error
  4. /verif/neutral/<id>/{patch.diff,demo.py,expected.json,notes.md,meta.json} are written
"""
import json, os, shutil, subprocess, sys
VERIF = os.path.dirname(os.path.dirname(os.path.abspath(__file__)))
sys.path.insert(0, VERIF)
nid, wt, prop = sys.argv[1], sys.argv[2], sys.argv[3]
sub = sys.argv[sys.argv.index("--dir") + 1]
skip_tests = "--skip-tests" in sys.argv
env = dict(os.environ, PYTHONPATH=wt)
seed = os.path.join(wt, sub)
out = os.path.join(VERIF, "neutral", nid)
os.makedirs(out, exist_ok=True)


def run(cmd, **kw):
    return subprocess.run(cmd, capture_output=True, text=True, **kw)


run(["git", "-C", wt, "checkout", "--", "partitura"])
r_clean = run(["/venv/bin/python", f"{sub}/demo.py"], cwd=wt, env=env)
a0 = run(["git", "-C", wt, "apply", os.path.join(seed, "patch.diff")])
assert a0.returncode == 0, a0.stderr
diff = run(["git", "-C", wt, "diff", "--", "partitura"]).stdout
r_ref = run(["/venv/bin/python", f"{sub}/demo.py"], cwd=wt, env=env)
tests = None
if not skip_tests:
    t = run(["/venv/bin/python", os.path.join(VERIF, "tools", "baseline.py"), wt], env=env)
    tests = t.stdout.strip().splitlines()[0] if t.stdout.strip() else t.stderr[-200:]
elif os.path.exists(os.path.join(seed, "baseline_patched.txt")):
    tests = open(os.path.join(seed, "baseline_patched.txt")).read().strip().splitlines()[0]
run(["git", "-C", wt, "checkout", "--", "partitura"])
for fn in ("demo.py", "expected.json", "notes.md"):
    if os.path.exists(os.path.join(seed, fn)):
        shutil.copy(os.path.join(seed, fn), os.path.join(out, fn))
open(os.path.join(out, "patch.diff"), "w").write(diff)
meta = {"neutral": nid, "property": prop, "demo_exit_clean": r_clean.returncode, "demo_exit_refactored": r_ref.returncode,
        "equivalence_confirmed": r_clean.returncode == 0 and r_ref.returncode == 0,
        "baseline_tests_on_refactored_tree": tests,
        "ran": ["demo.py (differential check against expected.json) on the clean and on the refactored worktree",
                "tools/baseline.py on the refactored worktree", "tools/neutral_matrix.py: every quick check against the refactored source"]}
json.dump(meta, open(os.path.join(out, "meta.json"), "w"), indent=1)
print(json.dumps({k: meta[k] for k in ("neutral", "equivalence_confirmed", "baseline_tests_on_refactored_tree")}))
