#!/venv/bin/python
"""Run every registered check (in memory) against every confirmed behaviour-preserving refactoring under /verif/neutral:
any new finding or analysis error is a false alarm. Updates each meta.json; prints the alarms."""
import json, multiprocessing as mp, os, sys
VERIF = os.path.dirname(os.path.dirname(os.path.abspath(__file__)))
sys.path.insert(0, VERIF)
from sa.selftest.runner import _apply_patch_file, _analyse  # noqa: E402
from sa.core.program import REPO  # noqa: E402
PROPS = [f"C{i:02d}" for i in range(1, 21)]


def job(args):
    nid, prop = args
    ov = _apply_patch_file(os.path.join(VERIF, "neutral", nid, "patch.diff"), REPO) if nid else {}
    if ov is None:
        return nid, prop, "inapplicable"
    return nid, prop, _analyse(prop, ov)


if __name__ == "__main__":
    ids = sorted(d for d in os.listdir(os.path.join(VERIF, "neutral")) if os.path.isdir(os.path.join(VERIF, "neutral", d)))
    subset = [a for a in sys.argv[1:]]
    if subset:
        ids = [i for i in ids if i in subset]
    jobs = [(None, p) for p in PROPS] + [(i, p) for i in ids for p in PROPS]
    with mp.Pool(16) as pool:
        res = pool.map(job, jobs, chunksize=1)
    base = {p: set(r["keys"]) for s, p, r in res if s is None}
    alarms = {}
    inapp = set()
    for s, p, r in res:
        if s is None:
            continue
        if r == "inapplicable":
            inapp.add(s)
            continue
        new = [k for k in r["keys"] if k not in base[p]]
        if r["error"]:
            alarms.setdefault(s, {})[p] = {"analysis_error": r["error"][:300]}
        elif new:
            alarms.setdefault(s, {})[p] = {"false_violation": new[:5]}
    for i in ids:
        mp_ = os.path.join(VERIF, "neutral", i, "meta.json")
        m = json.load(open(mp_))
        m["checks_alarmed"] = alarms.get(i, {})
        m["patch_applies_to_current_tree"] = i not in inapp
        json.dump(m, open(mp_, "w"), indent=1)
        print(f"{i:10s} {'INAPPLICABLE' if i in inapp else ('silent' if i not in alarms else 'ALARM ' + json.dumps(alarms[i])[:400])}")
