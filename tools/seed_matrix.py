#!/venv/bin/python
"""Run every registered check (in memory, source overrides) against every seeded change: which checks report which change.
Writes /verif/seeded/matrix.json; prints the own-check result per seed and every report by *another* property's check."""
import json, multiprocessing as mp, os, sys
VERIF = os.path.dirname(os.path.dirname(os.path.abspath(__file__)))
sys.path.insert(0, VERIF)
from sa.selftest.runner import _apply, _analyse  # noqa: E402
from sa.core.program import REPO  # noqa: E402

PROPS = [f"C{i:02d}" for i in range(1, 21)]


def job(args):
    sid, prop = args
    ov = _apply({"seed": sid}, REPO) if sid else {}
    if ov is None:
        return sid, prop, "inapplicable"
    return sid, prop, _analyse(prop, ov)


if __name__ == "__main__":
    seeds = sorted(d for d in os.listdir(os.path.join(VERIF, "seeded")) if os.path.isdir(os.path.join(VERIF, "seeded", d)))
    subset = [a for a in sys.argv[1:] if not a.startswith("-")]
    if subset:
        seeds = [s for s in seeds if s in subset]
    jobs = [(None, p) for p in PROPS] + [(s, p) for s in seeds for p in PROPS]
    with mp.Pool(16) as pool:
        res = pool.map(job, jobs, chunksize=1)
    base = {p: set(r["keys"]) for s, p, r in res if s is None}
    matrix = {}
    for s, p, r in res:
        if s is None:
            continue
        if r == "inapplicable":
            matrix.setdefault(s, {})[p] = "inapplicable"
            continue
        new = [k for k in r["keys"] if k not in base[p]]
        if r["error"]:
            matrix.setdefault(s, {})[p] = {"analysis_error": r["error"][:200]}
        elif new:
            matrix.setdefault(s, {})[p] = {"reports": new[:5]}
    mpath = os.path.join(VERIF, "seeded", "matrix.json")
    if subset and os.path.exists(mpath):
        old = json.load(open(mpath))
        old.update(matrix)
        for s in seeds:
            old[s] = matrix.get(s, {})
        json.dump(old, open(mpath, "w"), indent=1, sort_keys=True)
    else:
        json.dump(matrix, open(mpath, "w"), indent=1, sort_keys=True)
    for s in seeds:
        own = json.load(open(os.path.join(VERIF, "seeded", s, "meta.json")))["property"]
        row = matrix.get(s, {})
        o = row.get(own)
        state = "MISSED" if o is None else ("inapplicable" if o == "inapplicable" else ("ANALYSIS-ERROR" if "analysis_error" in o else "reported"))
        others = {p: v for p, v in row.items() if p != own and v != "inapplicable"}
        print(f"{s:8s} own={own} {state:14s} others={ {p: (v.get('reports') or [v.get('analysis_error')])[0].split('|')[1] if isinstance(v, dict) and v.get('reports') else 'ERR' for p, v in others.items()} }")
