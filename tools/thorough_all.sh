#!/bin/bash
# run every thorough check (self-validation batteries + automatic neutral rewrites); prints one line per property
cd /verif
for id in $(/venv/bin/python -c "import json;print(' '.join(c['property_id'] for c in json.load(open('MANIFEST.json'))['checks']))"); do
  out=$(/venv/bin/python sa/check.py $id --tier thorough 2>&1 | grep -v -i "warn\|KNOWN-FINDING" | tail -2)
  echo "$out" | cut -c1-260
done
