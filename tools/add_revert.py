#!/venv/bin/python
"""Append the reverse patch of one `fix:` commit of /repo to sa/selftest/reverts.json (mutant: the fix reverted).
usage: add_revert.py <sha>"""
import json, os, subprocess, sys
VERIF = os.path.dirname(os.path.dirname(os.path.abspath(__file__)))
sha = sys.argv[1]
subject = subprocess.run(["git", "-C", "/repo", "log", "-1", "--format=%s", sha], capture_output=True, text=True).stdout.strip()
diff = subprocess.run(["git", "-C", "/repo", "show", "--format=", "-U3", sha], capture_output=True, text=True).stdout
edits, file, old, new = [], None, None, None
def flush():
    if file and old is not None and (old or new):
        edits.append([file, "".join(new), "".join(old)])   # reversed: fixed text -> text before the fix
for line in diff.splitlines(keepends=True):
    if line.startswith("+++ "):
        flush(); old = new = None
        file = line[4:].strip(); file = file[2:] if file.startswith("b/") else file
    elif line.startswith("@@"):
        flush(); old, new = [], []
    elif line.startswith(("diff ", "index ", "--- ")):
        continue
    elif old is not None:
        if line.startswith(" "): old.append(line[1:]); new.append(line[1:])
        elif line.startswith("-"): old.append(line[1:])
        elif line.startswith("+"): new.append(line[1:])
flush()
p = os.path.join(VERIF, "sa", "selftest", "reverts.json")
data = json.load(open(p))
data = [d for d in data if d["sha"] != sha[:7]]
data.append({"sha": sha[:7], "subject": subject, "edits": edits})
json.dump(data, open(p, "w"), indent=1)
print(subject, len(edits), "hunk(s)")
