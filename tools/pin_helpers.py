#!/venv/bin/python
"""Record the private functions of the pinned tree that are called exactly once (sa/core/pinned_helpers.json).
The loader reads a *new* single-use private helper in place (virtual inlining, core/program.py) so that an "extract helper"
refactoring does not hide a mechanism from the rules; helpers the pinned tree already has are established functions that rules
(and the property anchors) address by name and are left alone."""
import ast, json, os, sys
VERIF = os.path.dirname(os.path.dirname(os.path.abspath(__file__)))
sys.path.insert(0, VERIF)
import sa.core.program as P  # noqa: E402
repo = os.environ.get("PARTITURA_REPO", "/repo")
out = {}
P.PINNED_HELPERS = {}
for dp, dn, fn in os.walk(os.path.join(repo, "partitura")):
    for f in sorted(fn):
        if f.endswith(".py"):
            path = os.path.join(dp, f)
            rel = os.path.relpath(path, repo)
            t = ast.parse(open(path).read())
            t = P._Canon().visit(t)
            ast.fix_missing_locations(t)
            # every function the pinned tree has is an established function: private ones at module / class level and
            # functions defined inside functions (only *new* helpers are read in place)
            names = set()
            for n in ast.walk(t):
                if isinstance(n, (ast.FunctionDef, ast.AsyncFunctionDef)):
                    names.add(n.name)
            if names:
                out[rel] = sorted(names)
json.dump(out, open(os.path.join(VERIF, "sa", "core", "pinned_helpers.json"), "w"), indent=1, sort_keys=True)
print(sum(len(v) for v in out.values()), "function names pinned in", len(out), "files")
