#!/venv/bin/python
"""Render /verif/MANIFEST.json from sa/registry.py (+ validate)."""
import json, os, sys
VERIF = os.path.dirname(os.path.dirname(os.path.abspath(__file__)))
sys.path.insert(0, VERIF)
from sa.registry import CLAIMS, NOT_APPLICABLE
props = [json.loads(l) for l in open(os.path.join(VERIF, "properties.jsonl"))]
checks, na = [], []
for p in props:
    pid = p["id"]
    c = CLAIMS.get(pid)
    if c and os.path.exists(os.path.join(VERIF, "sa", "props", f"{pid}.py")):
        checks.append({
            "property_id": pid,
            "quick_cmd": f"/venv/bin/python sa/check.py {pid} --tier quick",
            "thorough_cmd": f"/venv/bin/python sa/check.py {pid} --tier thorough",
            "evidence_file": f"/verif/evidence/{pid}.json",
            "replay_cmd_template": "/venv/bin/python sa/check.py --explain {path}",
            "engine": "sa",
            "level_claimed": {"category": "other", "text": c["text"], "design_ref": c["design_ref"]},
            "level_note": c["note"],
            "technique": c["technique"],
        })
    else:
        na.append({"property_id": pid, "reason": NOT_APPLICABLE.get(
            pid, "check not yet built in this session (fail-closed: not claimed until its rules run on the pinned tree)")})
m = {
    "version": 1,
    "setup_cmd": "/venv/bin/python sa/setup.py",
    "hooks": {"guard": "PARTITURA_VERIF",
              "enable": "none needed: the analyser reads /repo's source; no instrumentation exists in /repo",
              "baseline_off_cmd": "cd /repo && /venv/bin/python -m pytest -ra -q -p no:cacheprovider --timeout=900 --continue-on-collection-errors",
              "source_commits": [], "add_only": True},
    "engines": [{"name": "sa", "path": "sa/", "serves_properties": [c["property_id"] for c in checks],
                 "kind_free_text": "purpose-built static analyser over Python ast (stdlib only): loader/resolver with C3 MRO, "
                                   "constant folder, statement CFG with dominators and must-pass-through, flow-sensitive "
                                   "type/callee inference, resolved call graph, ownership/effect analysis, order-type index "
                                   "domain, per-property rule sets; thorough tier adds a both-ways self-validation battery "
                                   "(source mutants that must be reported, neutral rewrites that must stay silent)"}],
    "checks": checks,
    "notes": "Static analysis only (DESIGN.md). exit 0 holds / 1 VIOLATION / 2 ANALYSIS-ERROR (analyser broken, fail-closed). "
             "Genuine defects found on the pinned tree were repaired by fix: commits in /repo or are listed in known_findings.json.",
    "not_applicable": na,
}
json.dump(m, open(os.path.join(VERIF, "MANIFEST.json"), "w"), indent=1)
print(f"MANIFEST: {len(checks)} checks, {len(na)} not_applicable")
