#!/bin/bash
# usage: neutral_round.sh <round> [ids...]  — confirm every refactoring of a round (tests in parallel, then evaluation), then run the matrix
rnd=$1; shift
ids=${@:-01 02 03 04 05 06 07 08 09 10 11 12 13 14 15 16 17 18 19 20}
one() {
  i=$1; rnd=$2
  wt=/tmp/n${rnd}_C$i
  for sub in a b; do
    d=$wt/_seed/$sub
    [ -f $d/patch.diff ] || continue
    git -C $wt checkout -q -- partitura
    git -C $wt apply $d/patch.diff 2>/dev/null || { echo "C$i/$sub: patch does not apply"; continue; }
    PYTHONPATH=$wt /venv/bin/python /verif/tools/baseline.py $wt > $d/baseline_patched.txt 2>&1
    git -C $wt checkout -q -- partitura
  done
}
export -f one
printf '%s\n' $ids | xargs -P 10 -I{} bash -c "one {} $rnd"
for i in $ids; do
  for sub in a b; do
    [ -f /tmp/n${rnd}_C$i/_seed/$sub/patch.diff ] || continue
    /venv/bin/python /verif/tools/neutral_eval.py C$i-n${rnd}$sub /tmp/n${rnd}_C$i C$i --dir _seed/$sub --skip-tests 2>&1 | tail -1 | cut -c1-220
  done
done
