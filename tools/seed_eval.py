#!/venv/bin/python
"""Confirm a seeded change produced by a sub-agent and run the checks against it.

usage: seed_eval.py <seed-id> <worktree> <property-id> [--skip-tests]
  1. demo.py must exit != 0 with the patch applied in the worktree and 0 without it
  2. the repository's baseline tests must still pass in the patched worktree
  3. the patch is applied to /repo, every registered quick check is run, /repo is restored
  4. /verif/seeded/<seed-id>/{patch.diff,demo.py,notes.md,meta.json} are written
"""
import json, os, shutil, subprocess, sys
VERIF = os.path.dirname(os.path.dirname(os.path.abspath(__file__)))
sid, wt, prop = sys.argv[1], sys.argv[2], sys.argv[3]
skip_tests = "--skip-tests" in sys.argv
env = dict(os.environ, PYTHONPATH=wt)
sub = sys.argv[sys.argv.index("--dir") + 1] if "--dir" in sys.argv else "_seed"
seed = os.path.join(wt, sub)
out = os.path.join(VERIF, "seeded", sid)
os.makedirs(out, exist_ok=True)

def run(cmd, **kw):
    return subprocess.run(cmd, capture_output=True, text=True, **kw)

if "--dir" in sys.argv:
    # several independent changes per worktree: start from the clean tree and apply this one
    run(["git", "-C", wt, "checkout", "--", "partitura"])
    a0 = run(["git", "-C", wt, "apply", os.path.join(seed, "patch.diff")])
    assert a0.returncode == 0, a0.stderr
diff = run(["git", "-C", wt, "diff", "--", "partitura"]).stdout
assert diff.strip(), "no change in worktree"
open(os.path.join(seed, "patch.diff"), "w").write(diff)
r_patched = run(["/venv/bin/python", f"{sub}/demo.py"], cwd=wt, env=env)
# NOTE: never `git stash` here — the stash is shared by all worktrees of a repository
assert run(["git", "-C", wt, "apply", "-R", os.path.join(seed, "patch.diff")]).returncode == 0, "cannot reverse the patch"
r_clean = run(["/venv/bin/python", f"{sub}/demo.py"], cwd=wt, env=env)
assert run(["git", "-C", wt, "apply", os.path.join(seed, "patch.diff")]).returncode == 0, "cannot re-apply the patch"
assert run(["git", "-C", wt, "diff", "--", "partitura"]).stdout == diff, "re-applying did not restore the patch"
demo_ok = r_patched.returncode != 0 and r_clean.returncode == 0
tests = None
if skip_tests and os.path.exists(os.path.join(out, "meta.json")):
    tests = json.load(open(os.path.join(out, "meta.json"))).get("baseline_tests_on_patched_tree")
if skip_tests and tests is None and os.path.exists(os.path.join(seed, "baseline_patched.txt")):
    # produced beforehand by `tools/baseline.py <worktree> > <worktree>/_seed/baseline_patched.txt` on the patched worktree
    tests = open(os.path.join(seed, "baseline_patched.txt")).read().strip().splitlines()[0]
if not skip_tests:
    t = run(["/venv/bin/python", os.path.join(VERIF, "tools", "baseline.py"), wt], env=env)
    tests = t.stdout.strip().splitlines()[0] if t.stdout.strip() else t.stderr[-200:]
# checks against /repo
assert run(["git", "-C", "/repo", "status", "--porcelain"]).stdout.strip() == "", "/repo not clean"
a = run(["git", "-C", "/repo", "apply", os.path.join(seed, "patch.diff")])
assert a.returncode == 0, a.stderr
detected = {}
try:
    m = json.load(open(os.path.join(VERIF, "MANIFEST.json")))
    procs = {c["property_id"]: subprocess.Popen(c["quick_cmd"].split() + ["--no-evidence"], cwd=VERIF, stdout=subprocess.PIPE, stderr=subprocess.STDOUT, text=True)
             for c in m["checks"]}
    for pid, p in procs.items():
        o, _ = p.communicate()
        if p.returncode != 0:
            lines = [l.strip() for l in o.splitlines() if l.strip().startswith("violation:") or l.startswith("ANALYSIS-ERROR")]
            detected[pid] = {"exit": p.returncode, "reports": lines[:4]}
finally:
    run(["git", "-C", "/repo", "checkout", "--", "."])
for fn in ("patch.diff", "demo.py", "notes.md"):
    if os.path.exists(os.path.join(seed, fn)):
        shutil.copy(os.path.join(seed, fn), os.path.join(out, fn))
prev = {}
if os.path.exists(os.path.join(out, "meta.json")):
    prev = json.load(open(os.path.join(out, "meta.json")))
notes = open(os.path.join(seed, "notes.md")).read() if os.path.exists(os.path.join(seed, "notes.md")) else ""
meta = {"seed": sid, "property": prop, "demo_confirmed": demo_ok,
        "needs_to_manifest": prev.get("needs_to_manifest", ""),
        "detected_when_first_run": prev.get("detected_when_first_run", prev.get("detected")),
        "demo_exit_patched": r_patched.returncode, "demo_exit_unpatched": r_clean.returncode,
        "demo_output_patched": (r_patched.stdout + r_patched.stderr)[-600:],
        "baseline_tests_on_patched_tree": tests,
        "ran": ["demo.py on patched and unpatched worktree", "tools/baseline.py on the patched worktree",
                "git -C /repo apply patch.diff; every MANIFEST quick check; git -C /repo checkout -- ."],
        "detected_by": detected, "detected": prop in detected and detected[prop]["exit"] == 1}
json.dump(meta, open(os.path.join(out, "meta.json"), "w"), indent=1)
print(json.dumps({k: meta[k] for k in ("seed", "property", "demo_confirmed", "baseline_tests_on_patched_tree", "detected")}, indent=None))
for pid, d in detected.items():
    print("  ", pid, d["exit"], d["reports"][:2])
