"""Restricted constant folder for module-level table definitions (F3).

Constant propagation over initialisers: literals, arithmetic, displays,
comprehensions over folded values, a handful of pure builtins, np.array(<list>)
(-> tuple), re.compile(<str>) (-> NPattern), namedtuple constructors,
references to other folded constants (across modules).  Nothing from the
repository is imported or called.
"""
from __future__ import annotations

import ast
import operator
from fractions import Fraction

from .program import AnalysisError, Program, Module


class Unfoldable(Exception):
    pass


class NPattern:
    """A compiled regular expression, by its pattern text and flags."""

    def __init__(self, pattern, flags=0):
        self.pattern = pattern
        self.flags = flags

    def __repr__(self):
        return f"NPattern({self.pattern!r})"


class NTuple(tuple):
    """namedtuple instance (fields kept)."""
    _fields = ()
    _tname = ""


class LambdaRef:
    """A lambda expression stored in a table (kept as syntax)."""

    def __init__(self, node, mod):
        self.node = node
        self.mod = mod

    def __repr__(self):
        return f"LambdaRef({ast.unparse(self.node)[:40]})"


class SymRef:
    """Reference to a repo function/class by qname (values of tables)."""

    def __init__(self, kind, qname):
        self.kind = kind
        self.qname = qname

    def __eq__(self, o):
        return isinstance(o, SymRef) and (self.kind, self.qname) == (o.kind, o.qname)

    def __hash__(self):
        return hash((self.kind, self.qname))

    def __repr__(self):
        return f"SymRef({self.kind}:{self.qname})"


_BIN = {
    ast.Add: operator.add, ast.Sub: operator.sub, ast.Mult: operator.mul,
    ast.Div: operator.truediv, ast.FloorDiv: operator.floordiv, ast.Mod: operator.mod,
    ast.Pow: operator.pow, ast.BitOr: operator.or_, ast.BitAnd: operator.and_,
    ast.LShift: operator.lshift, ast.RShift: operator.rshift, ast.BitXor: operator.xor,
}
_CMP = {
    ast.Eq: operator.eq, ast.NotEq: operator.ne, ast.Lt: operator.lt, ast.LtE: operator.le,
    ast.Gt: operator.gt, ast.GtE: operator.ge,
    ast.In: lambda a, b: a in b, ast.NotIn: lambda a, b: a not in b,
    ast.Is: operator.is_, ast.IsNot: operator.is_not,
}
_PURE = {
    "len": len, "dict": dict, "list": list, "tuple": tuple, "set": set, "frozenset": frozenset,
    "zip": zip, "range": range, "sorted": sorted, "sum": sum, "min": min, "max": max,
    "abs": abs, "int": int, "float": float, "str": str, "enumerate": enumerate,
    "reversed": reversed, "round": round, "bool": bool, "map": None, "type": None, "object": None,
}
_STR_METHODS = {"format", "join", "lower", "upper", "split", "strip", "replace", "capitalize", "title"}
_DICT_METHODS = {"items", "keys", "values", "get", "copy"}


class Folder:
    def __init__(self, prog: Program, exact: bool = False):
        self.prog = prog
        self.exact = exact  # fold numbers as Fractions
        self.memo = {}
        self.stack = set()

    # public ---------------------------------------------------------------
    def const(self, modname: str, name: str, rule="F3"):
        try:
            return self._const(modname, name)
        except Unfoldable as e:
            raise AnalysisError(rule, f"{modname}:{name}", f"unfoldable table: {e}")

    def try_const(self, modname, name, default=None):
        try:
            return self._const(modname, name)
        except Unfoldable:
            return default

    def class_attr(self, ci, name, rule="F3"):
        r = ci.lookup_class_attr(name)
        if r is None:
            raise AnalysisError(rule, f"{ci.qname}.{name}", "class attribute not found")
        owner, node = r
        try:
            return self.eval(node, owner.module, {}, cls=owner)
        except Unfoldable as e:
            raise AnalysisError(rule, f"{ci.qname}.{name}", f"unfoldable: {e}")

    def try_class_attr(self, ci, name, default=None):
        r = ci.lookup_class_attr(name)
        if r is None:
            return default
        owner, node = r
        try:
            return self.eval(node, owner.module, {}, cls=owner)
        except Unfoldable:
            return default

    def expr(self, node, mod: Module, env=None):
        return self.eval(node, mod, env or {})

    # internals ------------------------------------------------------------
    def _const(self, modname, name):
        key = (modname, name)
        if key in self.memo:
            return self.memo[key]
        if key in self.stack:
            raise Unfoldable(f"cycle at {modname}:{name}")
        r = self.prog.resolve_symbol(modname, name)
        if r is None:
            raise Unfoldable(f"unknown name {modname}:{name}")
        if r[0] == "const":
            _, mod, sym, node = r
            key2 = (mod.name, sym)
            if key2 in self.memo:
                return self.memo[key2]
            self.stack.add(key)
            try:
                if isinstance(node, ast.Assign):
                    if len(node.targets) == 1 and isinstance(node.targets[0], ast.Name):
                        v = self.eval(node.value, mod, {})
                    else:
                        # tuple target
                        v = self._unpack_assign(node, sym, mod)
                elif isinstance(node, ast.AnnAssign) and node.value is not None:
                    v = self.eval(node.value, mod, {})
                else:
                    raise Unfoldable(f"not an assignment: {sym}")
            finally:
                self.stack.discard(key)
            self.memo[key] = v
            self.memo[key2] = v
            return v
        if r[0] in ("func", "class"):
            return SymRef(r[0], r[1].qname)
        if r[0] == "ext":
            return SymRef("ext", r[1])
        raise Unfoldable(f"{modname}:{name} is a {r[0]}")

    def _unpack_assign(self, node, sym, mod):
        v = self.eval(node.value, mod, {})
        t = node.targets[0]
        if isinstance(t, (ast.Tuple, ast.List)):
            for i, e in enumerate(t.elts):
                if isinstance(e, ast.Name) and e.id == sym:
                    return list(v)[i]
        raise Unfoldable("complex target")

    def _num(self, v):
        if self.exact and isinstance(v, float):
            return Fraction(v).limit_denominator(10 ** 9)
        return v

    def eval(self, node, mod, env, cls=None):
        ev = lambda n: self.eval(n, mod, env, cls)
        if isinstance(node, ast.Constant):
            return self._num(node.value)
        if isinstance(node, ast.Name):
            if node.id in env:
                return env[node.id]
            if node.id in ("True", "False", "None"):
                return {"True": True, "False": False, "None": None}[node.id]
            if cls is not None:
                r = cls.class_attrs.get(node.id)
                if r is not None:
                    return self.eval(r, mod, env, cls)
            if node.id in _PURE and self.prog.resolve_name(mod, node.id) is None:
                return SymRef("builtin", node.id)
            return self._const(mod.name, node.id)
        if isinstance(node, ast.Attribute):
            # module.CONST, Class.attr, np.pi
            r = self.prog.resolve_expr(mod, node)
            if r is not None:
                if r[0] == "const":
                    return self._const(r[1].name, r[2])
                if r[0] in ("func", "class"):
                    return SymRef(r[0], r[1].qname)
                if r[0] == "classattr":
                    return self.eval(r[3], r[1].module, {}, cls=r[1])
                if r[0] == "ext":
                    if r[1] in ("numpy.pi", "math.pi"):
                        import math
                        return math.pi
                    if r[1] in ("re.IGNORECASE", "re.I"):
                        return 2
                    if r[1] in ("numpy.inf", "math.inf"):
                        return float("inf")
                    return SymRef("ext", r[1])
            base = ev(node.value)
            if isinstance(base, NTuple) and node.attr in base._fields:
                return base[base._fields.index(node.attr)]
            if isinstance(base, NPattern) and node.attr == "pattern":
                return base.pattern
            raise Unfoldable(f"attribute {ast.unparse(node)}")
        if isinstance(node, ast.Tuple):
            return tuple(self._elts(node.elts, ev))
        if isinstance(node, ast.List):
            return list(self._elts(node.elts, ev))
        if isinstance(node, ast.Set):
            return set(self._elts(node.elts, ev))
        if isinstance(node, ast.Dict):
            d = {}
            for k, v in zip(node.keys, node.values):
                if k is None:
                    d.update(ev(v))
                else:
                    d[ev(k)] = ev(v)
            return d
        if isinstance(node, ast.BinOp):
            op = _BIN.get(type(node.op))
            if op is None:
                raise Unfoldable("binop")
            l, r = ev(node.left), ev(node.right)
            if isinstance(l, SymRef) or isinstance(r, SymRef):
                raise Unfoldable("binop on symbol")
            if isinstance(node.op, ast.Mod) and isinstance(l, str):
                return l % r
            if self.exact and isinstance(node.op, ast.Div) and isinstance(l, (int, Fraction)) and isinstance(r, (int, Fraction)) \
                    and not isinstance(l, bool) and r != 0:
                return Fraction(l) / Fraction(r)
            try:
                return op(l, r)
            except Exception as e:
                raise Unfoldable(f"binop failed: {e}")
        if isinstance(node, ast.UnaryOp):
            v = ev(node.operand)
            if isinstance(node.op, ast.USub):
                return -v
            if isinstance(node.op, ast.UAdd):
                return +v
            if isinstance(node.op, ast.Not):
                return not v
            if isinstance(node.op, ast.Invert):
                return ~v
        if isinstance(node, ast.BoolOp):
            vals = [ev(v) for v in node.values]
            if isinstance(node.op, ast.And):
                r = True
                for v in vals:
                    r = v
                    if not v:
                        break
                return r
            r = False
            for v in vals:
                r = v
                if v:
                    break
            return r
        if isinstance(node, ast.Compare):
            l = ev(node.left)
            for op, c in zip(node.ops, node.comparators):
                r = ev(c)
                f = _CMP.get(type(op))
                if f is None or not f(l, r):
                    return False
                l = r
            return True
        if isinstance(node, ast.IfExp):
            return ev(node.body) if ev(node.test) else ev(node.orelse)
        if isinstance(node, ast.Subscript):
            base = ev(node.value)
            if isinstance(node.slice, ast.Slice):
                lo = ev(node.slice.lower) if node.slice.lower else None
                hi = ev(node.slice.upper) if node.slice.upper else None
                st = ev(node.slice.step) if node.slice.step else None
                return base[lo:hi:st]
            idx = ev(node.slice)
            try:
                return base[idx]
            except Exception as e:
                raise Unfoldable(f"subscript failed: {e}")
        if isinstance(node, ast.JoinedStr):
            out = []
            for v in node.values:
                if isinstance(v, ast.Constant):
                    out.append(str(v.value))
                elif isinstance(v, ast.FormattedValue):
                    val = ev(v.value)
                    if isinstance(val, SymRef):
                        raise Unfoldable("fstring of symbol")
                    spec = ev(v.format_spec) if v.format_spec else ""
                    if v.conversion == ord("r"):
                        val = repr(val)
                    elif v.conversion == ord("s"):
                        val = str(val)
                    out.append(format(val, spec))
            return "".join(out)
        if isinstance(node, (ast.ListComp, ast.SetComp, ast.GeneratorExp, ast.DictComp)):
            return self._comp(node, mod, env, cls)
        if isinstance(node, ast.Starred):
            raise Unfoldable("starred")
        if isinstance(node, ast.Call):
            return self._call(node, mod, env, cls)
        if isinstance(node, ast.Lambda):
            return LambdaRef(node, mod)
        raise Unfoldable(type(node).__name__)

    def _elts(self, elts, ev):
        for e in elts:
            if isinstance(e, ast.Starred):
                yield from ev(e.value)
            else:
                yield ev(e)

    def _comp(self, node, mod, env, cls):
        results = []

        def rec(gi, env):
            if gi == len(node.generators):
                if isinstance(node, ast.DictComp):
                    results.append((self.eval(node.key, mod, env, cls), self.eval(node.value, mod, env, cls)))
                else:
                    results.append(self.eval(node.elt, mod, env, cls))
                return
            g = node.generators[gi]
            it = self.eval(g.iter, mod, env, cls)
            if isinstance(it, (SymRef, NPattern)) or isinstance(it, (int, float)):
                raise Unfoldable("comprehension over non-iterable")
            for v in it:
                e2 = dict(env)
                self._bind(g.target, v, e2)
                if all(self.eval(c, mod, e2, cls) for c in g.ifs):
                    rec(gi + 1, e2)

        rec(0, env)
        if isinstance(node, ast.ListComp):
            return results
        if isinstance(node, ast.SetComp):
            return set(results)
        if isinstance(node, ast.DictComp):
            return dict(results)
        return results  # generator -> list

    def _bind(self, target, value, env):
        if isinstance(target, ast.Name):
            env[target.id] = value
        elif isinstance(target, (ast.Tuple, ast.List)):
            vals = list(value)
            if len(vals) != len(target.elts):
                raise Unfoldable("unpack mismatch")
            for t, v in zip(target.elts, vals):
                self._bind(t, v, env)
        else:
            raise Unfoldable("bind target")

    def _call(self, node, mod, env, cls):
        ev = lambda n: self.eval(n, mod, env, cls)
        f = node.func
        # method calls on folded values
        if isinstance(f, ast.Attribute):
            r = self.prog.resolve_expr(mod, f)
            if r is not None and r[0] == "ext":
                return self._ext_call(r[1], node, ev)
            if r is None or r[0] not in ("func", "class"):
                base = ev(f.value)
                args = [ev(a) for a in node.args]
                kwargs = {k.arg: ev(k.value) for k in node.keywords if k.arg}
                if isinstance(base, str) and f.attr in _STR_METHODS:
                    return getattr(base, f.attr)(*args, **kwargs)
                if isinstance(base, dict) and f.attr in _DICT_METHODS:
                    res = getattr(base, f.attr)(*args, **kwargs)
                    return list(res) if f.attr in ("items", "keys", "values") else res
                if isinstance(base, (list, tuple)) and f.attr in ("index", "count"):
                    return getattr(base, f.attr)(*args)
                raise Unfoldable(f"method {f.attr}")
        if isinstance(f, ast.Name):
            r = self.prog.resolve_name(mod, f.id) if f.id not in env else None
            if r is None and f.id in _PURE and f.id not in env:
                fn = _PURE[f.id]
                if f.id == "type" and len(node.args) == 1:
                    return SymRef("builtin", type(ev(node.args[0])).__name__)
                if fn is None:
                    raise Unfoldable(f.id)
                args = list(self._elts(node.args, ev))
                kwargs = {k.arg: ev(k.value) for k in node.keywords if k.arg}
                for k in node.keywords:
                    if k.arg is None:
                        kwargs.update(ev(k.value))
                if any(isinstance(a, SymRef) for a in args):
                    raise Unfoldable("builtin on symbol")
                try:
                    res = fn(*args, **kwargs)
                except Exception as e:
                    raise Unfoldable(f"builtin {f.id} failed: {e}")
                if isinstance(res, (zip, range, enumerate, reversed, map)):
                    res = list(res)
                return res
            if r is not None and r[0] == "ext":
                return self._ext_call(r[1], node, ev)
            if r is not None and r[0] == "const":
                # namedtuple type?
                v = self._const(r[1].name, r[2])
                if isinstance(v, tuple) and len(v) == 2 and v[0] == "__namedtuple__":
                    vals = [ev(a) for a in node.args]
                    fields = v[1][1]
                    for k in node.keywords:
                        pass
                    nt = NTuple(vals)
                    nt._fields = tuple(fields)
                    nt._tname = v[1][0]
                    return nt
        raise Unfoldable(f"call {ast.unparse(node.func)}")

    def _ext_call(self, dotted, node, ev):
        if dotted in ("numpy.array", "numpy.asarray"):
            v = ev(node.args[0])
            return tuple(v) if isinstance(v, (list, tuple)) else v
        if dotted == "re.compile":
            pat = ev(node.args[0])
            flags = ev(node.args[1]) if len(node.args) > 1 else 0
            for k in node.keywords:
                if k.arg == "flags":
                    flags = ev(k.value)
            if not isinstance(pat, str):
                raise Unfoldable("re.compile of non-string")
            return NPattern(pat, flags)
        if dotted == "collections.namedtuple":
            name = ev(node.args[0])
            fields = ev(node.args[1])
            if isinstance(fields, str):
                fields = fields.replace(",", " ").split()
            return ("__namedtuple__", (name, list(fields)))
        if dotted in ("fractions.Fraction",):
            args = [ev(a) for a in node.args]
            return Fraction(*args)
        if dotted in ("numpy.log2", "math.log2"):
            import math
            return math.log2(ev(node.args[0]))
        raise Unfoldable(f"external call {dotted}")
