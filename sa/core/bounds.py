"""Order-type domain for array indices (F2c / F2d).

The functions that maintain the timeline touch indices only through
comparisons with 0 and len(array) (+/- small constants).  The abstract state
is therefore the *order type* of (i, len): a finite partition.  We enumerate
one representative per cell (len in 0..LMAX, every i that searchsorted can
return) and interpret the function's AST over that representative:
index arithmetic is evaluated on the representative, every other value is
opaque, every test that involves an opaque value forks both ways.  For each
explored path we record

  * every computed subscript of a tracked array with the array's current
    length (np.insert / list.insert: len+1, np.delete: len-1),
  * every store  A[e1].attr = A[e2] | None   (the link operations).

No code of the repository is executed: this is an interpreter over the syntax
tree with an abstract store {index var -> representative int, array -> len}.
"""
from __future__ import annotations

import ast
from typing import Dict, List, Optional, Tuple

LMAX = 5


class Opaque:
    def __repr__(self):
        return "⊤"


OPQ = Opaque()


class Elem:
    def __init__(self, arr, idx):
        self.arr, self.idx = arr, idx

    def __repr__(self):
        return f"{self.arr}[{self.idx}]"


class Arr:
    def __init__(self, name):
        self.name = name


class Inf:
    pass


class _Return(Exception):
    pass


class _Raise(Exception):
    pass


class _OutOfRange(Exception):
    def __init__(self, ev):
        self.ev = ev


class _Unmodelled(Exception):
    pass


class PathResult:
    def __init__(self):
        self.subscripts: List[dict] = []  # {arr, idx, len, ok, node}
        self.links: List[tuple] = []  # (arr, target_idx, attr, value_idx|None|'⊤', node)
        self.lens: Dict[str, int] = {}
        self.env: Dict[str, object] = {}
        self.mutated: Dict[str, str] = {}  # arr -> 'insert'|'delete'
        self.outcome = "fallthrough"
        self.search: Dict[str, Tuple[str, int, int]] = {}  # var -> (arr, i, len at search)
        self.oob: Optional[dict] = None
        self.choices: List[int] = []


class IndexInterp:
    """Interpret `fnode` over representatives.

    arrays: {expr_text: group}   e.g. {'self._points': 'P'}; arrays sharing a
            group are parallel arrays that must keep equal length.
    member_probe: set of array names whose searchsorted probe is known to be a
            member (precondition of the deleter): i in 0..len-1, len>=1, and the
            equality test of the found element with the probe is true.
    min_len: {group: minimal initial length} (class invariant, e.g. quarter tables >= 1)
    """

    def __init__(self, fnode, arrays: Dict[str, str], member_probe=(), min_len=None, selfname="self"):
        self.fnode = fnode
        self.arrays = dict(arrays)
        self.member_probe = set(member_probe)
        self.min_len = min_len or {}
        self.unmodelled: List[str] = []

    # ------------------------------------------------------------ enumeration
    def run_all(self) -> List[PathResult]:
        results = []
        groups = sorted(set(self.arrays.values()))
        # one shared representative length per group
        def rec_len(gi, lens):
            if gi == len(groups):
                self._explore(dict(lens), results)
                return
            g = groups[gi]
            for L in range(self.min_len.get(g, 0), LMAX + 1):
                lens[g] = L
                rec_len(gi + 1, lens)

        rec_len(0, {})
        return results

    def _explore(self, lens, results):
        # DFS over nondeterministic choices
        stack = [[]]
        guard = 0
        while stack:
            guard += 1
            if guard > 20000:
                raise _Unmodelled("path explosion")
            prefix = stack.pop()
            st = _State(self, {a: lens[g] for a, g in self.arrays.items()}, prefix)
            res = st.run()
            results.append(res)
            # schedule siblings of choices made beyond the prefix
            for k in range(len(prefix), len(st.trace)):
                chosen, n = st.trace[k]
                for alt in range(chosen + 1, n):
                    stack.append([c for c, _ in st.trace[:k]] + [alt])


class _State:
    def __init__(self, interp: IndexInterp, lens, prefix):
        self.I = interp
        self.lens = lens  # array expr text -> current len
        self.prefix = prefix
        self.trace: List[Tuple[int, int]] = []
        self.env: Dict[str, object] = {}
        self.alias: Dict[str, str] = {}  # local name -> array expr text
        self.res = PathResult()

    # choice oracle
    def choose(self, n: int) -> int:
        k = len(self.trace)
        c = self.prefix[k] if k < len(self.prefix) else 0
        self.trace.append((c, n))
        return c

    def run(self) -> PathResult:
        try:
            self.block(self.I.fnode.body)
        except _Return:
            self.res.outcome = "return"
        except _Raise:
            self.res.outcome = "raise"
        except _OutOfRange as e:
            self.res.outcome = "index-error"
            self.res.oob = e.ev
        self.res.lens = dict(self.lens)
        meta = {k: v for k, v in self.res.env.items() if k.startswith('__')}
        self.res.env = dict(self.env)
        self.res.env.update(meta)
        self.res.choices = [c for c, _ in self.trace]
        return self.res

    # ------------------------------------------------------------- statements
    def block(self, stmts):
        for s in stmts:
            self.stmt(s)

    def arr_of(self, e) -> Optional[str]:
        """Tracked array (by its canonical expr text) denoted by expression e."""
        if isinstance(e, ast.Name) and e.id in self.alias:
            return self.alias[e.id]
        try:
            txt = ast.unparse(e)
        except Exception:
            return None
        return txt if txt in self.I.arrays else None

    def stmt(self, s):
        if isinstance(s, ast.Expr):
            if isinstance(s.value, ast.Constant):
                return
            self.eval(s.value)
            return
        if isinstance(s, ast.Assign):
            if len(s.targets) == 1:
                t = s.targets[0]
                # rebinding of a tracked array from np.insert / np.delete
                ta = self.arr_of(t) if not isinstance(t, ast.Name) else (self.alias.get(t.id))
                if isinstance(t, ast.Attribute) and ast.unparse(t) in self.I.arrays:
                    ta = ast.unparse(t)
                if ta is not None and isinstance(s.value, ast.Call):
                    fn = ast.unparse(s.value.func)
                    if fn in ("np.insert", "numpy.insert", "np.delete", "numpy.delete") and s.value.args \
                            and self.arr_of(s.value.args[0]) == ta:
                        idx = self.eval(s.value.args[1])
                        g = ta
                        if fn.endswith("insert"):
                            self.lens[g] += 1
                            self.res.mutated[ta] = "insert"
                            self.res.env["__ins_idx__"] = idx
                            # the inserted object is now the element at that index: a name bound to it denotes that element
                            if len(s.value.args) >= 3 and isinstance(s.value.args[2], ast.Name) and isinstance(idx, int):
                                self.env[s.value.args[2].id] = Elem(ta, idx)
                        else:
                            if isinstance(idx, int) and not (0 <= idx < self.lens[g]):
                                raise _OutOfRange({"arr": ta, "idx": idx, "len": self.lens[g], "node": s,
                                                   "what": "np.delete index"})
                            self.lens[g] -= 1
                            self.res.mutated[ta] = "delete"
                            self.res.env["__del_idx__"] = idx
                        return
                if isinstance(t, ast.Name):
                    a = self.arr_of(s.value)
                    if a is not None:
                        self.alias[t.id] = a
                        self.env.pop(t.id, None)
                        return
                    v = self.eval(s.value)
                    self.alias.pop(t.id, None)
                    self.env[t.id] = v
                    return
                if isinstance(t, ast.Attribute):
                    # link store  A[e].attr = value
                    tv = self.eval(t.value)
                    v = self.eval(s.value)
                    if isinstance(tv, Elem):
                        if isinstance(v, Elem):
                            self.res.links.append((tv.arr, tv.idx, t.attr, v.idx, s))
                        elif v is None:
                            self.res.links.append((tv.arr, tv.idx, t.attr, None, s))
                        else:
                            self.res.links.append((tv.arr, tv.idx, t.attr, "⊤", s))
                    return
                if isinstance(t, ast.Subscript):
                    self.eval(t.value)
                    a = self.arr_of(t.value)
                    idx = self.eval(t.slice) if not isinstance(t.slice, ast.Slice) else OPQ
                    if a is not None:
                        self.check_sub(a, idx, t)
                    self.eval(s.value)
                    return
            self.eval(s.value)
            for t in s.targets:
                for n in ast.walk(t):
                    if isinstance(n, ast.Name):
                        self.env[n.id] = OPQ
                        self.alias.pop(n.id, None)
            return
        if isinstance(s, ast.AugAssign):
            self.eval(s.value)
            if isinstance(s.target, ast.Name):
                cur = self.env.get(s.target.id, OPQ)
                v = self.eval(s.value)
                if isinstance(cur, int) and isinstance(v, int) and isinstance(s.op, (ast.Add, ast.Sub)):
                    self.env[s.target.id] = cur + v if isinstance(s.op, ast.Add) else cur - v
                else:
                    self.env[s.target.id] = OPQ
            return
        if isinstance(s, ast.If):
            if self.truth(s.test):
                self.block(s.body)
            else:
                self.block(s.orelse)
            return
        if isinstance(s, ast.Return):
            if s.value is not None:
                self.eval(s.value)
            raise _Return()
        if isinstance(s, ast.Raise):
            raise _Raise()
        if isinstance(s, (ast.For, ast.AsyncFor)):
            self.eval(s.iter)
            # loop body: executed zero times or once with opaque target (index
            # variables assigned inside become opaque afterwards)
            if self.choose(2) == 1:
                for n in ast.walk(s.target):
                    if isinstance(n, ast.Name):
                        self.env[n.id] = OPQ
                try:
                    self.block(s.body)
                except _Break:
                    pass
                except _Continue:
                    pass
                self._havoc_assigned(s.body)
            return
        if isinstance(s, ast.While):
            self.truth(s.test)
            if self.choose(2) == 1:
                try:
                    self.block(s.body)
                except (_Break, _Continue):
                    pass
                self._havoc_assigned(s.body)
            return
        if isinstance(s, ast.Try):
            try:
                self.block(s.body)
            except _OutOfRange as e:
                for h in s.handlers:
                    names = [] if h.type is None else [ast.unparse(x) for x in
                                                       (h.type.elts if isinstance(h.type, ast.Tuple) else [h.type])]
                    if h.type is None or set(names) & {"IndexError", "Exception", "LookupError", "BaseException"}:
                        self.block(h.body)
                        break
                else:
                    raise
            else:
                self.block(s.orelse)
            self.block(s.finalbody)
            return
        if isinstance(s, (ast.With, ast.AsyncWith)):
            self.block(s.body)
            return
        if isinstance(s, ast.Pass):
            return
        if isinstance(s, ast.Break):
            raise _Break()
        if isinstance(s, ast.Continue):
            raise _Continue()
        if isinstance(s, ast.Assert):
            if not self.truth(s.test):
                raise _Raise()
            return
        if isinstance(s, (ast.FunctionDef, ast.AsyncFunctionDef, ast.ClassDef, ast.Import, ast.ImportFrom,
                          ast.Global, ast.Nonlocal, ast.Delete)):
            if isinstance(s, ast.Delete):
                for t in s.targets:
                    if isinstance(t, ast.Subscript) and self.arr_of(t.value) is not None:
                        raise _Unmodelled("del on tracked array")
            return
        if isinstance(s, ast.AnnAssign):
            if s.value is not None and isinstance(s.target, ast.Name):
                self.env[s.target.id] = self.eval(s.value)
            return
        raise _Unmodelled(type(s).__name__)

    def _havoc_assigned(self, body):
        for st in body:
            for n in ast.walk(st):
                if isinstance(n, ast.Name) and isinstance(n.ctx, ast.Store):
                    self.env[n.id] = OPQ

    # ------------------------------------------------------------ expressions
    def check_sub(self, arr, idx, node):
        L = self.lens[arr]
        if isinstance(idx, int):
            literal_ok = False
            sl = node.slice
            if isinstance(sl, ast.Constant) or (isinstance(sl, ast.UnaryOp) and isinstance(sl.operand, ast.Constant)):
                # literal [0] / [-1]: python semantics, needs len >= 1
                literal_ok = -L <= idx < L
                ok = literal_ok
            else:
                ok = 0 <= idx < L  # computed index: negative wrap-around is not accepted
            ev = {"arr": arr, "idx": idx, "len": L, "ok": ok, "node": node,
                  "expr": ast.unparse(node), "line": getattr(node, "lineno", 0)}
            self.res.subscripts.append(ev)
            if not ok:
                raise _OutOfRange(ev)

    def eval(self, e):
        if isinstance(e, ast.Constant):
            if isinstance(e.value, bool):
                return e.value
            if isinstance(e.value, int):
                return e.value
            if e.value is None:
                return None
            return OPQ
        if isinstance(e, ast.Name):
            if e.id in self.alias:
                return Arr(self.alias[e.id])
            return self.env.get(e.id, OPQ)
        if isinstance(e, ast.Attribute):
            txt = ast.unparse(e)
            if txt in self.I.arrays:
                return Arr(txt)
            if txt in ("np.inf", "numpy.inf", "math.inf"):
                return OPQ
            self.eval(e.value)
            return OPQ
        if isinstance(e, ast.UnaryOp):
            v = self.eval(e.operand)
            if isinstance(e.op, ast.USub) and isinstance(v, int) and not isinstance(v, bool):
                return -v
            if isinstance(e.op, ast.Not):
                return not self._as_bool(v)
            return OPQ
        if isinstance(e, ast.BinOp):
            l, r = self.eval(e.left), self.eval(e.right)
            if isinstance(l, int) and isinstance(r, int) and not isinstance(l, bool) and not isinstance(r, bool):
                if isinstance(e.op, ast.Add):
                    return l + r
                if isinstance(e.op, ast.Sub):
                    return l - r
            return OPQ
        if isinstance(e, ast.Subscript):
            a = self.arr_of(e.value)
            if a is None:
                self.eval(e.value)
                if not isinstance(e.slice, ast.Slice):
                    self.eval(e.slice)
                return OPQ
            if isinstance(e.slice, ast.Slice):
                for part in (e.slice.lower, e.slice.upper, e.slice.step):
                    if part is not None:
                        self.eval(part)
                return OPQ
            idx = self.eval(e.slice)
            self.check_sub(a, idx, e)
            if isinstance(idx, int):
                L = self.lens[a]
                return Elem(a, idx if idx >= 0 else L + idx)
            return OPQ
        if isinstance(e, ast.Call):
            fn = ast.unparse(e.func)
            if fn == "len" and len(e.args) == 1:
                a = self.arr_of(e.args[0])
                if a is not None:
                    return self.lens[a]
                self.eval(e.args[0])
                return OPQ
            if fn in ("np.searchsorted", "numpy.searchsorted") and e.args:
                a = self.arr_of(e.args[0])
                for x in e.args[1:]:
                    self.eval(x)
                if a is not None:
                    L = self.lens[a]
                    if a in self.I.member_probe:
                        if L == 0:
                            raise _Return()  # precondition excludes the empty array
                        i = self.choose(L)
                    else:
                        i = self.choose(L + 1)
                    self.res.search[f"#{len(self.res.search)}"] = (a, i, L)
                    self._last_search = (a, i, L)
                    return i
                return OPQ
            if isinstance(e.func, ast.Attribute):
                a = self.arr_of(e.func.value)
                if a is not None:
                    m = e.func.attr
                    args = [self.eval(x) for x in e.args]
                    if m in ("insert", "append"):
                        self.res.mutated.setdefault(a, "insert")
                        self.lens[a] += 1
                        return None
                    if m in ("pop", "remove", "clear", "sort", "reverse", "extend"):
                        raise _Unmodelled(f"{m} on tracked array")
                    return OPQ
            for x in e.args:
                if not isinstance(x, ast.Starred):
                    self.eval(x)
            for k in e.keywords:
                self.eval(k.value)
            if isinstance(e.func, ast.Attribute):
                self.eval(e.func.value)
            return OPQ
        if isinstance(e, ast.Compare):
            return self._compare(e)
        if isinstance(e, ast.BoolOp):
            return self.truth(e)
        if isinstance(e, ast.IfExp):
            if self.truth(e.test):
                return self.eval(e.body)
            return self.eval(e.orelse)
        if isinstance(e, (ast.Tuple, ast.List, ast.Set)):
            for x in e.elts:
                self.eval(x)
            return OPQ
        if isinstance(e, ast.Dict):
            for x in list(e.keys) + list(e.values):
                if x is not None:
                    self.eval(x)
            return OPQ
        if isinstance(e, (ast.ListComp, ast.SetComp, ast.GeneratorExp, ast.DictComp, ast.Lambda, ast.JoinedStr,
                          ast.Yield, ast.YieldFrom, ast.Await, ast.Starred, ast.FormattedValue)):
            return OPQ
        return OPQ

    def _as_bool(self, v):
        if isinstance(v, bool):
            return v
        if isinstance(v, int):
            return v != 0
        if v is None:
            return False
        return self.choose(2) == 1

    def truth(self, e) -> bool:
        if isinstance(e, ast.BoolOp):
            if isinstance(e.op, ast.And):
                for v in e.values:
                    if not self.truth(v):
                        return False
                return True
            for v in e.values:
                if self.truth(v):
                    return True
            return False
        if isinstance(e, ast.UnaryOp) and isinstance(e.op, ast.Not):
            return not self.truth(e.operand)
        v = self.eval(e)
        return self._as_bool(v)

    def _compare(self, e: ast.Compare):
        vals = [self.eval(e.left)] + [self.eval(c) for c in e.comparators]
        result = True
        for op, l, r in zip(e.ops, vals, vals[1:]):
            li = isinstance(l, int) and not isinstance(l, bool)
            ri = isinstance(r, int) and not isinstance(r, bool)
            if li and ri:
                ok = {ast.Eq: l == r, ast.NotEq: l != r, ast.Lt: l < r, ast.LtE: l <= r,
                      ast.Gt: l > r, ast.GtE: l >= r}.get(type(op))
                if ok is None:
                    return OPQ
                if not ok:
                    return False
                continue
            if isinstance(op, (ast.Is, ast.IsNot)) and (l is None or r is None):
                other = r if l is None else l
                if other is None:
                    ok = isinstance(op, ast.Is)
                elif isinstance(other, (Elem, int, Arr)):
                    ok = isinstance(op, ast.IsNot)
                else:
                    return OPQ
                if not ok:
                    return False
                continue
            # element == probe under the membership precondition
            if isinstance(op, (ast.Eq, ast.NotEq)):
                el = l if isinstance(l, Elem) else (r if isinstance(r, Elem) else None)
                if el is not None and el.arr in self.I.member_probe and \
                        getattr(self, "_last_search", (None, None, None))[0] == el.arr and \
                        self._last_search[1] == el.idx:
                    ok = isinstance(op, ast.Eq)
                    if not ok:
                        return False
                    continue
            return OPQ
        return result


class _Break(Exception):
    pass


class _Continue(Exception):
    pass
