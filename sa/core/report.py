"""Findings, obligations and evidence plumbing shared by all property checks."""
from __future__ import annotations

import json
import os
import time
from typing import Dict, List, Optional

from .program import AnalysisError, Program

VERIF = os.path.dirname(os.path.dirname(os.path.dirname(os.path.abspath(__file__))))


class Finding:
    def __init__(self, prop, rule, where, construct, file, line, msg, path=None):
        self.prop = prop
        self.rule = rule
        self.where = where  # module:qualified_function (or module:TABLE)
        self.construct = construct  # stable tag chosen by the rule
        self.file = file
        self.line = line
        self.msg = msg
        self.path = path or []

    @property
    def key(self):
        return f"{self.prop}|{self.rule}|{self.where}|{self.construct}"

    def as_dict(self):
        return {"property": self.prop, "rule": self.rule, "where": self.where,
                "construct": self.construct, "file": self.file, "line": self.line,
                "message": self.msg, "call_path": self.path, "key": self.key}

    def text(self):
        p = f" via {' -> '.join(self.path)}" if self.path else ""
        return f"{self.file}:{self.line} {self.where} [{self.rule}] {self.construct} — {self.msg}{p}"


class Ctx:
    """Collects what one property check analysed and found."""

    def __init__(self, prop: str, prog: Program, tier: str):
        self.prop = prop
        self.prog = prog
        self.tier = tier
        self.findings: List[Finding] = []
        self.obligations: List[dict] = []  # every rule instance checked
        self.notes: List[dict] = []  # evidence-tier observations (never alarm)
        self.unresolved: List[str] = []
        self.rules: Dict[str, str] = {}  # rule id -> one-line statement
        self.modules_consulted: set = set()
        self.functions_analysed: set = set()
        self.not_decided: List[str] = []
        self.extra: Dict[str, object] = {}

    # ----------------------------------------------------------------- rules
    def rule(self, rid: str, text: str):
        self.rules[rid] = text

    def touch(self, *funcs):
        for f in funcs:
            if f is None:
                continue
            self.functions_analysed.add(f.qname)
            self.modules_consulted.add(f.module.name)

    def ok(self, rule: str, instance: str, detail: str = ""):
        self.obligations.append({"rule": rule, "instance": instance, "ok": True, "detail": detail})

    def fail(self, rule: str, instance: str, where: str, construct: str, file: str, line: int,
             msg: str, path=None):
        self.obligations.append({"rule": rule, "instance": instance, "ok": False, "detail": msg})
        f = Finding(self.prop, rule, where, construct, file, line, msg, path)
        # de-duplicate by key
        if all(g.key != f.key for g in self.findings):
            self.findings.append(f)
        return f

    def check(self, cond: bool, rule: str, instance: str, func=None, node=None, construct: str = None,
              msg: str = "", detail: str = "", path=None, where: str = None, file: str = None):
        """Record one obligation; a false condition becomes a finding."""
        if cond:
            self.ok(rule, instance, detail)
            return True
        if func is not None:
            where = where or func.qname
            file = file or func.module.relpath
            line = getattr(node, "lineno", None) or getattr(func.node, "lineno", 0)
        else:
            line = getattr(node, "lineno", 0) if node is not None else 0
        self.fail(rule, instance, where or "?", construct or instance, file or "?", line, msg, path)
        return False

    def note(self, rule: str, what: str, func=None, node=None):
        d = {"rule": rule, "note": what}
        if func is not None:
            d["where"] = func.qname
            d["file"] = func.module.relpath
            d["line"] = getattr(node, "lineno", None) or getattr(func.node, "lineno", 0)
        self.notes.append(d)

    def require(self, cond, rule: str, anchor: str, msg: str = ""):
        if not cond:
            raise AnalysisError(rule, anchor, msg)

    def floor(self, rule: str, what: str, count: int, minimum: int):
        """Anti-vacuity: the rule must have matched at least `minimum` sites."""
        if count < minimum:
            raise AnalysisError(rule, what, f"instance floor missed: found {count}, confirmed by hand {minimum}")
        self.extra.setdefault("instance_floors", {})[f"{rule}:{what}"] = {"found": count, "floor": minimum}


def load_known(path=None):
    path = path or os.path.join(VERIF, "known_findings.json")
    if not os.path.exists(path):
        return {"known": [], "fixed": []}
    with open(path) as fh:
        return json.load(fh)


def write_evidence(ctx: Ctx, tier: str, seed: int, wall: float, violations: int, known_hit: List[str],
                   explanation: str, selftest: Optional[dict] = None, error: str = None):
    obligations = len(ctx.obligations)
    discharged = sum(1 for o in ctx.obligations if o["ok"])
    distinct = len({(o["rule"], o["instance"]) for o in ctx.obligations})
    samples = []
    seen_rules = {}
    for o in ctx.obligations:
        k = seen_rules.get(o["rule"], 0)
        if k < 4 or not o["ok"]:
            samples.append(o)
            seen_rules[o["rule"]] = k + 1
    cov = {
        "explanation": explanation,
        "rules": ctx.rules,
        "obligations": obligations,
        "discharged": discharged,
        "evaluations": max(obligations, 1),
        "distinct_nontrivial": distinct,
        "rule": "one obligation per rule instance (a concrete construct of /repo's current source: "
                "call site, table row, store, branch, CFG path query); distinct = distinct (rule, instance) pairs; "
                "all are non-trivial: each instance was matched in the parsed source, none is synthesised",
        "samples": samples[:60],
        "exhaustive": True,
        "checker_cmd": f"/venv/bin/python sa/check.py {ctx.prop} --tier {tier}",
        "trusted_base": ["CPython ast/symtable parser", "sa/core (resolver, CFG, constant folder)",
                         "rule tables in sa/props/%s.py" % ctx.prop],
        "modules": sorted(ctx.modules_consulted),
        "functions_analysed": len(ctx.functions_analysed),
        "functions_sample": sorted(ctx.functions_analysed)[:40],
        "findings": [f.as_dict() for f in ctx.findings],
        "known_findings_reported": known_hit,
        "evidence_tier_notes": ctx.notes[:80],
        "unresolved_sites": ctx.unresolved[:40],
        "unresolved_count": len(ctx.unresolved),
        "not_decided": ctx.not_decided,
        "digests": ctx.prog.digests(ctx.modules_consulted) if ctx.prog else {},
    }
    cov.update(ctx.extra)
    if selftest is not None:
        cov["selftest"] = selftest
    if error:
        cov["analysis_error"] = error
    ev = {
        "property_id": ctx.prop,
        "tier": tier,
        "seed": seed,
        "level": "other",
        "coverage": cov,
        "assumptions": [
            "static analysis of necessary structural conditions only; the behavioural remainder listed under not_decided is not decided",
            "only must-facts alarm; unresolved receivers / dynamic dispatch are counted in unresolved_sites and stay silent",
            "no module of partitura is imported or executed by this check",
        ],
        "wall_s": round(wall, 3),
        "violations": violations,
    }
    os.makedirs(os.path.join(VERIF, "evidence"), exist_ok=True)
    path = os.path.join(VERIF, "evidence", f"{ctx.prop}.json")
    with open(path, "w") as fh:
        json.dump(ev, fh, indent=1, default=str)
    return path
