"""Resolved call graph over the package.

Edges: direct calls, module-attribute calls, methods on typed receivers,
constructors (-> __init__), property reads on typed receivers, the iteration
protocol of repo classes (`for x in obj` -> __iter__/__next__), nested function
definitions that are called or passed as values, and *weak* edges (method name
resolved by name-uniqueness when the receiver type is unknown).
"""
from __future__ import annotations

import ast
from typing import Dict, Iterable, List, Optional, Set, Tuple

from .program import FuncInfo, Program, own_nodes
from .types import Infer, definite


class Edge:
    __slots__ = ("caller", "callee", "node", "kind", "weak", "recv")

    def __init__(self, caller, callee, node, kind, weak=False, recv=None):
        self.caller = caller
        self.callee = callee
        self.node = node
        self.kind = kind  # call | ctor | prop | iter | ref
        self.weak = weak
        self.recv = recv


class CallGraph:
    def __init__(self, prog: Program, inf: Infer):
        self.prog = prog
        self.inf = inf
        self.out: Dict[str, List[Edge]] = {}
        self.unresolved: Dict[str, List[ast.Call]] = {}
        self.n_calls = 0
        self.n_resolved = 0
        for f in list(prog.functions.values()):
            self._scan(f)

    def _add(self, f, g, node, kind, weak=False, recv=None):
        self.out.setdefault(f.qname, []).append(Edge(f, g, node, kind, weak, recv))

    def _scan(self, f: FuncInfo):
        inf = self.inf
        self.out.setdefault(f.qname, [])
        for n in own_nodes(f.node):
            if isinstance(n, ast.Call):
                self.n_calls += 1
                tg = inf.callee(f, n)
                if tg:
                    self.n_resolved += 1
                else:
                    self.unresolved.setdefault(f.qname, []).append(n)
                for kind, g, recv in tg:
                    if kind == "func":
                        self._add(f, g, n, "call", recv=recv)
                    elif kind == "weakfunc":
                        self._add(f, g, n, "call", weak=True)
                    elif kind == "ctor":
                        init = g.lookup("__init__")
                        if init is not None:
                            self._add(f, init, n, "ctor")
                # function-valued arguments (callbacks: key=..., map(f, ..), partial)
                for a in list(n.args) + [k.value for k in n.keywords]:
                    if isinstance(a, (ast.Name, ast.Attribute)):
                        t = inf.type_at(f, a)
                        if definite(t):
                            for atom in t:
                                if atom[0] in ("func", "bound"):
                                    self._add(f, self.prog.functions[atom[1]], n, "ref")
            elif isinstance(n, ast.Attribute) and isinstance(n.ctx, ast.Load):
                # property read
                par = getattr(n, "_parent", None)
                bt = inf.type_at(f, n.value)
                if definite(bt):
                    for atom in bt:
                        if atom[0] == "inst":
                            m = self.prog.classes[atom[1]].lookup(n.attr)
                            if m is not None and m.is_property:
                                self._add(f, m, n, "prop", recv=frozenset({atom}))
            elif isinstance(n, (ast.For, ast.comprehension)):
                it = n.iter
                t = inf.type_at(f, it)
                if definite(t):
                    for atom in t:
                        if atom[0] == "inst":
                            ci = self.prog.classes[atom[1]]
                            for mn in ("__iter__", "__next__"):
                                m = ci.lookup(mn)
                                if m is not None:
                                    self._add(f, m, it, "iter", recv=frozenset({atom}))
            elif isinstance(n, ast.Attribute) and isinstance(n.ctx, ast.Store):
                bt = inf.type_at(f, n.value)
                if definite(bt):
                    for atom in bt:
                        if atom[0] == "inst":
                            m = self.prog.classes[atom[1]].lookup_setter(n.attr)
                            if m is not None:
                                self._add(f, m, n, "prop", recv=frozenset({atom}))

    # ------------------------------------------------------------------ queries
    def callees(self, q: str, weak=True) -> List[Edge]:
        return [e for e in self.out.get(q, []) if weak or not e.weak]

    def reachable(self, roots: Iterable[str], weak=True, max_depth: Optional[int] = None) -> Dict[str, Tuple[str, ...]]:
        """qname -> shortest call path (tuple of qnames from a root)."""
        paths: Dict[str, Tuple[str, ...]] = {}
        frontier = []
        for r in roots:
            if r in self.out or r in self.prog.functions:
                paths[r] = (r,)
                frontier.append(r)
        depth = 0
        while frontier and (max_depth is None or depth < max_depth):
            nxt = []
            for q in frontier:
                for e in self.out.get(q, []):
                    if e.weak and not weak:
                        continue
                    cq = e.callee.qname
                    if cq not in paths:
                        paths[cq] = paths[q] + (cq,)
                        nxt.append(cq)
                # nested functions defined inside q are reachable when referenced; be generous
                fi = self.prog.functions.get(q)
            frontier = nxt
            depth += 1
        return paths

    def callers(self, q: str) -> List[Edge]:
        out = []
        for es in self.out.values():
            for e in es:
                if e.callee.qname == q:
                    out.append(e)
        return out
