"""F1 — ownership / effect analysis: which parameters does a function mutate?

Abstract values (per local name, flow-sensitive over the CFG):

  ('own', p)        the object is parameter p or part of p's object graph
  ('fresh', k, p)   k >= 1 layers of containers created in this activation around
                    elements owned by p  (p None: nothing owned inside: wholly fresh)
  ('tuple', [v..])  a tuple display, kept per position for unpacking
  TOP               unknown — never alarms

A *mutation event* of parameter p is a store / delete / in-place update whose target
object is ('own', p), a call of a built-in mutator method on such an object, a call
passing such an object to a callee parameter whose summary says "mutated", or a
property read / iteration whose getter / __iter__ mutates its receiver.  Summaries
(mutates: set of parameter indices, returns: ownership of the result in terms of the
callee's parameters) are computed to a fixpoint over the whole package.
"""
from __future__ import annotations

import ast
from typing import Dict, List, Optional, Set, Tuple

from .cfg import CFG, N
from .program import FuncInfo, Program, own_nodes, norm
from .types import Infer, definite

TOP = ("top",)
FRESH = ("fresh", 1, None)
MUTATORS = {"append", "extend", "insert", "remove", "pop", "sort", "reverse", "clear", "update", "setdefault", "add",
            "discard", "fill", "popitem", "appendleft", "popleft", "resize", "put", "itemset"}
CONTAINER_BUILDERS = {"list", "sorted", "set", "tuple", "frozenset", "reversed", "iter"}
ALIASING_NP = {"numpy.asarray", "numpy.asanyarray", "numpy.ravel", "numpy.reshape", "numpy.squeeze", "numpy.atleast_1d",
               "numpy.atleast_2d", "numpy.transpose", "numpy.ascontiguousarray", "numpy.expand_dims", "numpy.swapaxes",
               "numpy.broadcast_to", "numpy.lib.recfunctions.structured_to_unstructured"}
# numpy-style methods that return views of the receiver
VIEW_METHODS = {"view", "reshape", "ravel", "squeeze", "transpose", "swapaxes", "T"}


def own(p):
    return ("own", p)


def fresh(k, p, obj=False):
    """obj: some fresh layer is an instance object (a shallow copy, a constructor result), not a built-in container; without
    the flag every fresh layer is a list / dict / set / tuple / generator, which cannot take an attribute store"""
    if p is None:
        return FRESH
    return ("fresh", min(k, 4), p, "obj") if obj else ("fresh", min(k, 4), p)


def is_obj(v):
    return len(v) > 3


def mix(p):
    """either the parameter itself or a fresh container of its objects: the *elements* are owned either way"""
    return ("mix", p)


def elem(v):
    if v[0] == "own":
        return v
    if v[0] == "mix":
        return own(v[1])
    if v[0] == "fresh":
        if v[2] is None:
            return FRESH
        return own(v[2]) if v[1] <= 1 else fresh(v[1] - 1, v[2], is_obj(v))
    if v[0] == "tuple":
        return join_all(v[1])
    return TOP


def wrap(v):
    if v[0] == "own":
        return fresh(1, v[1])
    if v[0] == "fresh":
        return FRESH if v[2] is None else fresh(v[1] + 1, v[2], is_obj(v))
    if v[0] == "tuple":
        return wrap(join_all(v[1]))
    return TOP


def join(a, b):
    if a == b:
        return a
    if a is None:
        return b
    if b is None:
        return a
    if a[0] == "tuple" and b[0] == "tuple" and len(a[1]) == len(b[1]):
        return ("tuple", [join(x, y) for x, y in zip(a[1], b[1])])
    # p itself on one path, a fresh wrapper around p's objects on the other (`if not isinstance(x, Score): x = Score(x)`)
    for u, v in ((a, b), (b, a)):
        if u[0] in ("own", "mix") and ((v[0] == "fresh" and v[1] == 1 and v[2] == u[1]) or (v[0] in ("own", "mix") and v[1] == u[1])):
            return mix(u[1])
    # p's object on one path, something wholly fresh on the other (`x = p.items if p.items is not None else []`)
    for u, v in ((a, b), (b, a)):
        if u[0] in ("own", "mix") and v[0] == "fresh" and v[2] is None:
            return mix(u[1])
    # wholly fresh joined with fresh-around-owned stays "fresh container, maybe owned inside"
    if a[0] == "fresh" and b[0] == "fresh":
        if a[2] is None:
            return b
        if b[2] is None:
            return a
        if a[2] == b[2]:
            return fresh(min(a[1], b[1]), a[2], is_obj(a) or is_obj(b)) if a[1] == b[1] else TOP
    return TOP


def join_all(vs):
    out = None
    for v in vs:
        if v == FRESH:
            continue  # fresh scalars / constants do not blur ownership of the rest
        out = v if out is None else join(out, v)
    return out if out is not None else FRESH


def _self_field_slice(prog, g: FuncInfo, expr, depth=0):
    """(field, steps): `expr` (inside method g) denotes an object reached from `self.<field>` by `steps` dereferences
    (attribute, subscript, iteration); None if not derivable syntactically. Iterating `self` follows __iter__ when it is
    `return iter(self.<field>)`."""
    if depth > 8 or not g.params:
        return None
    selfname = g.params[0]
    if isinstance(expr, ast.Attribute):
        if isinstance(expr.value, ast.Name) and expr.value.id == selfname:
            return expr.attr, 0
        r = _self_field_slice(prog, g, expr.value, depth + 1)
        return (r[0], r[1] + 1) if r else None
    if isinstance(expr, ast.Subscript):
        r = _self_field_slice(prog, g, expr.value, depth + 1)
        return (r[0], r[1] + 1) if r else None
    if isinstance(expr, ast.Call) and isinstance(expr.func, ast.Attribute) and expr.func.attr in ("get", "values", "items", "pop", "setdefault"):
        r = _self_field_slice(prog, g, expr.func.value, depth + 1)
        return (r[0], r[1] + 1) if r else None
    if isinstance(expr, ast.Name):
        if expr.id == selfname:
            return None
        found = []
        for n in ast.walk(g.node):
            it = tgt = None
            if isinstance(n, (ast.For, ast.comprehension)):
                it, tgt = n.iter, n.target
            elif isinstance(n, ast.Assign) and len(n.targets) == 1:
                if isinstance(n.targets[0], ast.Name) and n.targets[0].id == expr.id:
                    found.append(_self_field_slice(prog, g, n.value, depth + 1))
                continue
            else:
                continue
            names = [tgt] if isinstance(tgt, ast.Name) else (list(tgt.elts) if isinstance(tgt, (ast.Tuple, ast.List)) else [])
            pos = next((i for i, x in enumerate(names) if isinstance(x, ast.Name) and x.id == expr.id), None)
            if pos is None:
                continue
            src = it
            if isinstance(src, ast.Call) and isinstance(src.func, ast.Name) and src.func.id == "enumerate" and src.args:
                if pos != 1:
                    found.append(None)
                    continue
                src = src.args[0]
            elif isinstance(src, ast.Call) and isinstance(src.func, ast.Name) and src.func.id == "zip" and len(src.args) == len(names):
                src = src.args[pos]
            elif len(names) > 1:
                found.append(None)
                continue
            if isinstance(src, ast.Name) and src.id == selfname and g.cls is not None:
                it_m = g.cls.lookup("__iter__")
                r = None
                if it_m is not None:
                    rets = [x for x in ast.walk(it_m.node) if isinstance(x, ast.Return) and x.value is not None]
                    if len(rets) == 1:
                        v = rets[0].value
                        if isinstance(v, ast.Call) and isinstance(v.func, ast.Name) and v.func.id == "iter" and v.args:
                            v = v.args[0]
                        r0 = _self_field_slice(prog, it_m, v, depth + 1)
                        r = (r0[0], r0[1] + 1) if r0 else None
                found.append(r)
            else:
                r = _self_field_slice(prog, g, src, depth + 1)
                found.append((r[0], r[1] + 1) if r else None)
        if found and all(x is not None for x in found) and len({x[0] for x in found}) == 1:
            return found[0][0], min(x[1] for x in found)
        return None
    return None


class Summary:
    def __init__(self):
        self.mutates: Dict[int, dict] = {}  # param index -> first mutation event (node, func, desc, call path)
        self.all_mutations: Dict[int, List[dict]] = {}  # param index -> events with distinct root causes (capped)
        self.returns = TOP  # ('fresh'|'own', idx) form using ('own', idx) / ('fresh', k, idx) / FRESH / TOP

    def sig(self):
        return (tuple(sorted((i, tuple(sorted((e["root"], tuple(e["path"][1:2])) for e in evs))) for i, evs in self.all_mutations.items())), self.returns)


class Ownership:
    def __init__(self, prog: Program, inf: Infer, watch=None):
        self.prog = prog
        self.inf = inf
        self.summaries: Dict[str, Summary] = {q: Summary() for q in prog.functions}
        self.events: Dict[str, List[dict]] = {}
        self._prop_index: Dict[str, List[FuncInfo]] = {}
        for ci in prog.classes.values():
            for name, m in ci.methods.items():
                if m.is_property:
                    self._prop_index.setdefault(name, []).append(m)
        self.rounds = 0
        self.watch: Set[str] = set(watch or ())
        self.watched: List[dict] = []
        self.solve()
        if self.watch:
            self.watched = []
            for f in prog.functions.values():
                self.analyse(f)

    # ---------------------------------------------------------------- fixpoint
    def solve(self, max_rounds=8):
        funcs = [f for f in self.prog.functions.values()]
        for r in range(max_rounds):
            self.rounds = r + 1
            changed = False
            for f in funcs:
                old = self.summaries[f.qname].sig()
                self.analyse(f)
                if self.summaries[f.qname].sig() != old:
                    changed = True
            if not changed:
                break

    # ------------------------------------------------------------- per function
    def analyse(self, f: FuncInfo):
        A = _Analysis(self, f)
        A.run()
        s = self.summaries[f.qname]
        for ev in A.events:
            idx = ev["param_index"]
            if idx not in s.mutates:
                s.mutates[idx] = ev
            lst = s.all_mutations.setdefault(idx, [])
            hop = lambda e: (e["root"], tuple(e["path"][1:2]))  # same root cause reached through another first callee: another event
            if all(hop(e) != hop(ev) for e in lst) and len(lst) < 12:
                lst.append(ev)
        if A.returns is not None:
            s.returns = A.returns
        self.events[f.qname] = A.events

    def prop_getters(self, attr) -> List[FuncInfo]:
        return self._prop_index.get(attr, [])


class _Analysis:
    def __init__(self, O: Ownership, f: FuncInfo):
        self.O = O
        self.f = f
        self.inf = O.inf
        self.prog = O.prog
        self.events: List[dict] = []
        self.returns = None
        self.params = f.all_params
        self.captures: Dict[tuple, tuple] = {}  # (param q, field) -> (param p, copy depth k): `q.field = <objects of p>`
        a = f.node.args
        self.kwarg = a.kwarg.arg if a.kwarg else None
        self.vararg = a.vararg.arg if a.vararg else None

    # ------------------------------------------------------------------ driver
    def run(self):
        f = self.f
        cfg = self.inf.cfg(f)
        env0 = {}
        for p in self.params:
            if p == self.kwarg or p == self.vararg:
                env0[p] = FRESH  # built per call
            else:
                env0[p] = own(p)
        IN = {n.id: None for n in cfg.nodes}
        IN[cfg.entry.id] = env0
        work = [cfg.entry]
        steps = 0
        self._record = False
        while work and steps < 3000:
            steps += 1
            n = work.pop()
            env = IN[n.id]
            if env is None:
                continue
            out = self.transfer(n, env)
            for m, label in n.succ:
                old = IN[m.id]
                if old is None:
                    IN[m.id] = out
                    work.append(m)
                else:
                    merged = self._merge(old, out)
                    if merged != old:
                        IN[m.id] = merged
                        work.append(m)
        # final pass: record events with the stable environments
        self._record = True
        rets = []
        for n in cfg.nodes:
            env = IN[n.id]
            if env is None:
                continue
            self.transfer(n, env)
            if n.kind == "stmt" and isinstance(n.ast, ast.Return) and n.ast.value is not None:
                rets.append(self.ev(n.ast.value, env))
            if n.kind == "stmt":
                for y in ast.walk(n.ast):
                    if isinstance(y, ast.Yield) and y.value is not None:
                        rets.append(wrap(self.ev(y.value, env)))
                    elif isinstance(y, ast.YieldFrom):
                        rets.append(self.ev(y.value, env))
        if rets:
            r = None
            for v in rets:
                r = v if r is None else join(r, v)
            self.returns = self._to_summary_value(r)
        else:
            self.returns = FRESH  # returns None

    def _to_summary_value(self, v):
        if v[0] == "own":
            return ("own", self.params.index(v[1])) if v[1] in self.params else TOP
        if v[0] == "fresh":
            if v[2] is None:
                return FRESH
            if v[2] not in self.params:
                return TOP
            return ("fresh", v[1], self.params.index(v[2]), "obj") if is_obj(v) else ("fresh", v[1], self.params.index(v[2]))
        if v[0] == "tuple":
            return self._to_summary_value(wrap(join_all(v[1])))
        return TOP

    def _merge(self, a, b):
        if a is b:
            return a
        out = dict(a)
        ch = False
        for k, v in b.items():
            if k in out:
                j = join(out[k], v)
                if j != out[k]:
                    out[k] = j
                    ch = True
            else:
                out[k] = v
                ch = True
        return out if ch else a

    # --------------------------------------------------------------- transfer
    def transfer(self, n: N, env):
        a = n.ast
        if n.kind == "stmt":
            if isinstance(a, ast.Assign):
                v = self.ev(a.value, env)
                env2 = dict(env)
                for t in a.targets:
                    self.assign(t, v, env2, a.value)
                    if isinstance(t, ast.Subscript):
                        root, depth = self._root_depth(t)
                        cur = env2.get(root) if root else None
                        owner = v[1] if v[0] == "own" else (v[2] if v[0] == "fresh" else None)
                        if cur is not None and cur[0] == "fresh" and owner is not None and (cur[2] is None or cur[2] == owner):
                            env2[root] = fresh(max(depth + (v[1] if v[0] == "fresh" else 0), cur[1] if cur[2] is not None else 0), owner)
                        elif cur is not None and cur[0] == "fresh" and v == TOP:
                            env2[root] = TOP
                return env2
            if isinstance(a, ast.AnnAssign):
                env2 = dict(env)
                if a.value is not None:
                    self.assign(a.target, self.ev(a.value, env), env2, a.value)
                return env2
            if isinstance(a, ast.AugAssign):
                self.ev(a.value, env)
                t = a.target
                if isinstance(t, (ast.Attribute, ast.Subscript)):
                    self.store_effect(t, env, "augmented assignment")
                    return env
                if isinstance(t, ast.Name):
                    env2 = dict(env)
                    cur = env.get(t.id, TOP)
                    # x += [..] on an owned list mutates it; on numbers rebinds: unknown type -> keep value, no event
                    if cur[0] in ("own", "mix"):
                        tt = self.inf.type_at(self.f, t)
                        tt = frozenset(x for x in tt if x != ("b", "none")) if tt else tt  # `None += ..` raises: not a value here
                        if tt and definite(tt) and all(x[0] in ("list", "set", "dict") or x == ("b", "ndarray") for x in tt):
                            self.event(cur[1], a, f"in-place `{norm(a)[:60]}` on an object owned by `{cur[1]}`" + (" on some path" if cur[0] == "mix" else ""))
                    return env2
                return env
            if isinstance(a, ast.Delete):
                for t in a.targets:
                    if isinstance(t, (ast.Attribute, ast.Subscript)):
                        self.store_effect(t, env, "del")
                return env
            if isinstance(a, ast.Expr):
                self.ev(a.value, env)
                return self._absorb(a.value, env)
            if isinstance(a, (ast.Return, ast.Raise, ast.Assert)):
                for c in ast.iter_child_nodes(a):
                    if isinstance(c, ast.expr):
                        self.ev(c, env)
                return env
            return env
        if n.kind == "test":
            self.ev(a, env)
            return env
        if n.kind == "for":
            it = self.ev(a.iter, env)
            self.iter_effect(a.iter, it, env)
            env2 = dict(env)
            self.bind_iter(a.target, a.iter, it, env2, env)
            return env2
        if n.kind == "with":
            env2 = dict(env)
            for item in a.items:
                self.ev(item.context_expr, env)
                if item.optional_vars is not None:
                    self.assign(item.optional_vars, TOP, env2, None)
            return env2
        if n.kind == "except":
            if a.name:
                env2 = dict(env)
                env2[a.name] = TOP
                return env2
            return env
        if n.kind == "def":
            env2 = dict(env)
            env2[a.name] = TOP
            return env2
        return env

    def _root_depth(self, expr):
        """(root local name, number of subscript levels) of a container expression like d[k] / d[k][j] / d."""
        depth = 0
        while isinstance(expr, ast.Subscript):
            expr = expr.value
            depth += 1
        if isinstance(expr, ast.Name):
            return expr.id, depth
        return None, 0

    def _absorb(self, call, env):
        """x.append(v) / x.add(v) / x.extend(vs) / x[k].append(v) ... on a *fresh local* container: the container now holds
        (layers around) objects of v's owner."""
        if not (isinstance(call, ast.Call) and isinstance(call.func, ast.Attribute) and call.args):
            return env
        m = call.func.attr
        if m not in ("append", "add", "extend", "insert", "update", "setdefault", "appendleft"):
            return env
        root, depth = self._root_depth(call.func.value)
        if root is None or root not in env:
            return env
        cur = env[root]
        if cur[0] != "fresh":
            return env
        v = self.ev(call.args[-1], env)
        if m in ("extend", "update"):
            v = elem(v)
        owner = v[1] if v[0] == "own" else (v[2] if v[0] == "fresh" else None)
        if owner is None:
            if v == TOP:
                env2 = dict(env)
                env2[root] = TOP  # unknown content: no longer provably fresh-only
                return env2
            return env
        if cur[2] is not None and cur[2] != owner:
            env2 = dict(env)
            env2[root] = TOP
            return env2
        layers = depth + 1 + (v[1] if v[0] == "fresh" else 0)
        env2 = dict(env)
        env2[root] = fresh(max(layers, cur[1] if cur[2] is not None else 0), owner, is_obj(cur) or (v[0] == "fresh" and is_obj(v)))
        return env2

    def bind_iter(self, target, iter_expr, itval, env2, env):
        # enumerate / zip keep positions
        if isinstance(iter_expr, ast.Call) and isinstance(iter_expr.func, ast.Name) and isinstance(target, (ast.Tuple, ast.List)):
            fn = iter_expr.func.id
            if fn == "enumerate" and len(target.elts) == 2 and iter_expr.args:
                self.assign(target.elts[0], FRESH, env2, None)
                self.assign(target.elts[1], elem(self.ev(iter_expr.args[0], env)), env2, None)
                return
            if fn == "zip" and len(target.elts) == len(iter_expr.args):
                for t, a in zip(target.elts, iter_expr.args):
                    self.assign(t, elem(self.ev(a, env)), env2, None)
                return
        self.assign(target, elem(itval), env2, None)

    def assign(self, t, v, env, value_expr):
        if isinstance(t, ast.Name):
            env[t.id] = v
        elif isinstance(t, (ast.Tuple, ast.List)):
            if v[0] == "tuple" and len(v[1]) == len(t.elts):
                for e, x in zip(t.elts, v[1]):
                    self.assign(e, x, env, None)
            else:
                for e in t.elts:
                    if isinstance(e, ast.Starred):
                        self.assign(e.value, wrap(elem(v)), env, None)
                    else:
                        self.assign(e, elem(v), env, None)
        elif isinstance(t, (ast.Attribute, ast.Subscript)):
            self.store_effect(t, env, "store")
            if isinstance(t, ast.Attribute) and v is not None:
                base = self.ev(t.value, env)
                owner, k = (v[1], 0) if v[0] in ("own", "mix") else ((v[2], v[1]) if v[0] == "fresh" and v[2] is not None else (None, 0))
                if base[0] == "own" and owner is not None and owner != base[1]:
                    old = self.captures.get((base[1], t.attr))
                    if old is None or old[1] > k:
                        self.captures[(base[1], t.attr)] = (owner, k)
        elif isinstance(t, ast.Starred):
            self.assign(t.value, v, env, None)

    # ---------------------------------------------------------------- effects
    def event(self, p, node, desc, path=None, root=None, kind="other"):
        if not self._record:
            return
        if p not in self.params:
            return
        path = path or [self.f.qname]
        if root is None:
            tag = norm(node.func) if isinstance(node, ast.Call) else norm(node)
            root = f"{path[-1]}|{tag[:40]}"
        self.events.append({"param": p, "param_index": self.params.index(p), "node": node, "func": self.f.qname,
                            "file": self.f.module.relpath, "line": getattr(node, "lineno", 0), "desc": desc,
                            "path": path, "root": root, "guards": self._param_guards(node), "kind": kind})

    def _attr_store_reaches(self, e: ast.Attribute) -> bool:
        """some statement storing `<same name>.<same attr>` can execute before this read (CFG reachability)"""
        stores = [t for t in ast.walk(self.f.node) if isinstance(t, ast.Attribute) and t.attr == e.attr and isinstance(t.ctx, ast.Store)
                  and isinstance(t.value, ast.Name) and t.value.id == e.value.id]
        if not stores:
            return False
        cfg = self.inf.cfg(self.f)

        def stmt_node(x):
            while x is not None and cfg.node_of(x) is None:
                x = getattr(x, "_parent", None)
            return cfg.node_of(x) if x is not None else None
        rn = stmt_node(e)
        if rn is None:
            return True
        for t in stores:
            sn = stmt_node(t)
            if sn is None or sn is rn or cfg.reaches(sn, rn):
                return True
        return False

    def _shallow_copy_names(self):
        """locals bound (only) from copy(<x>) / copy.copy(<x>): objects whose attributes alias those of x"""
        if not hasattr(self, "_shallow"):
            names, other = set(), set()
            for n in ast.walk(self.f.node):
                if isinstance(n, ast.Assign) and len(n.targets) == 1 and isinstance(n.targets[0], ast.Name):
                    v = n.value
                    if isinstance(v, ast.Call) and norm(v.func) in ("copy", "copy.copy") and len(v.args) == 1:
                        names.add(n.targets[0].id)
                    else:
                        other.add(n.targets[0].id)
            self._shallow = names - other
        return self._shallow

    def _param_guards(self, node):
        """[(parameter name, required truth value)] from enclosing `if <param>:` / `if not <param>:` tests"""
        out = []
        child, p = node, getattr(node, "_parent", None)
        while p is not None and p is not self.f.node:
            if isinstance(p, ast.If):
                t, pol = p.test, True
                while isinstance(t, ast.UnaryOp) and isinstance(t.op, ast.Not):
                    t, pol = t.operand, not pol
                if isinstance(t, ast.Name) and t.id in self.params:
                    inbody = any(child is x for x in p.body)
                    inelse = any(child is x for x in p.orelse)
                    if inbody or inelse:
                        out.append((t.id, pol if inbody else not pol))
            child, p = p, getattr(p, "_parent", None)
        return out

    def store_effect(self, t, env, kind):
        base = self.ev(t.value, env)
        if isinstance(t, ast.Subscript) and not isinstance(t.slice, ast.Slice):
            self.ev(t.slice, env)
        if base[0] in ("own", "mix"):
            what = f".{t.attr}" if isinstance(t, ast.Attribute) else "[...]"
            self.event(base[1], t, f"{kind} to `{norm(t)[:60]}` — `{norm(t.value)[:40]}` belongs to `{base[1]}`",
                       kind="attr" if isinstance(t, ast.Attribute) else "other")
        elif isinstance(t, ast.Attribute) and base != TOP:
            # property setters on fresh objects: no effect on params
            pass

    def iter_effect(self, expr, v, env):
        if v[0] != "own":
            return
        tt = self.inf.type_at(self.f, expr)
        if not definite(tt):
            return
        evs = []
        for a in tt:
            if a[0] != "inst":
                return
            ci = self.prog.classes[a[1]]
            hit = None
            for mn in ("__iter__", "__next__"):
                m = ci.lookup(mn)
                if m is not None and 0 in self.O.summaries[m.qname].mutates:
                    hit = (m, self.O.summaries[m.qname].mutates[0])
            if hit is None:
                return
            evs.append(hit)
        if evs:
            m, inner = evs[0]
            self.event(v[1], expr, f"iterating `{norm(expr)[:40]}` calls {m.qname.split(':')[1]}, which stores on its receiver",
                       path=[self.f.qname] + inner["path"], root=inner["root"])

    # ------------------------------------------------------------- expressions
    def ev(self, e, env):
        if e is None:
            return TOP
        if isinstance(e, ast.Name):
            return env.get(e.id, TOP)
        if isinstance(e, ast.Constant) or isinstance(e, ast.JoinedStr):
            return FRESH
        if isinstance(e, ast.Attribute):
            base = self.ev(e.value, env)
            if base[0] == "own":
                getters = self._getters(e)
                if getters:
                    # property read: effects + result from the getter's summary
                    muts = [self.O.summaries[g.qname].mutates.get(0) for g in getters]
                    if all(m is not None for m in muts) and isinstance(e.ctx, ast.Load):
                        for inner in self.O.summaries[getters[0].qname].all_mutations.get(0, [muts[0]]):
                            self.event(base[1], e, f"reading property `{norm(e)[:50]}` runs {getters[0].qname.split(':')[1]}, which writes to its receiver "
                                                   f"({inner['desc'][:80]})",
                                       path=[self.f.qname] + inner["path"], root=inner["root"])
                    rs = {self.O.summaries[g.qname].returns for g in getters}
                    if len(rs) == 1:
                        return self._subst(rs.pop(), [base])
                    return TOP
                if e.attr in VIEW_METHODS:
                    return base
                return base
            if base[0] == "fresh":
                if base[2] is None:
                    return base
                # a shallow copy (`copy(p)`, one fresh layer) shares its attribute values with p — unless this function
                # rebinds that attribute on the copy somewhere (then what is read may be the new value: unknown)
                if base[1] == 1 and isinstance(e.value, ast.Name) and isinstance(e.ctx, ast.Load):
                    rebinding = self._attr_store_reaches(e)
                    shallow = self._shallow_copy_names()
                    if not rebinding and e.value.id in shallow:
                        return own(base[2])
                return TOP
            if base[0] == "mix":
                return base
            return TOP
        if isinstance(e, ast.Subscript):
            base = self.ev(e.value, env)
            if not isinstance(e.slice, ast.Slice):
                self.ev(e.slice, env)
            if base[0] == "tuple" and isinstance(e.slice, ast.Constant) and isinstance(e.slice.value, int) \
                    and -len(base[1]) <= e.slice.value < len(base[1]):
                return base[1][e.slice.value]
            if isinstance(e.slice, ast.Slice):
                # slices of lists are copies (one fresh layer), slices of arrays are views: unknown type -> keep ownership
                tt = self.inf.type_at(self.f, e.value)
                if definite(tt) and all(x[0] == "list" for x in tt):
                    return wrap(elem(base)) if base != TOP else TOP
                return base
            # numpy advanced indexing (an integer / boolean array or a list as index) returns a copy, not a view
            if base[0] in ("own", "mix") and not isinstance(e.slice, (ast.Constant, ast.Tuple)):
                it = self.inf.type_at(self.f, e.slice)
                if definite(it) and all(x == ("b", "ndarray") or x[0] == "list" for x in it):
                    bt = self.inf.type_at(self.f, e.value)
                    if not (definite(bt) and all(x[0] in ("list", "dict") for x in bt)):
                        return FRESH
            return elem(base)
        if isinstance(e, ast.Call):
            return self.call(e, env)
        if isinstance(e, (ast.List, ast.Set)):
            return wrap(join_all([self.ev(x, env) for x in e.elts]))
        if isinstance(e, ast.Tuple):
            return ("tuple", [self.ev(x, env) for x in e.elts])
        if isinstance(e, ast.Dict):
            vals = [self.ev(x, env) for x in e.values]
            for k in e.keys:
                if k is not None:
                    self.ev(k, env)
            return wrap(join_all(vals))
        if isinstance(e, (ast.ListComp, ast.SetComp, ast.GeneratorExp, ast.DictComp)):
            env2 = dict(env)
            for g in e.generators:
                it = self.ev(g.iter, env2)
                self.iter_effect(g.iter, it, env2)
                self.bind_iter(g.target, g.iter, it, env2, env2)
                for c in g.ifs:
                    self.ev(c, env2)
            if isinstance(e, ast.DictComp):
                self.ev(e.key, env2)
                return wrap(self.ev(e.value, env2))
            return wrap(self.ev(e.elt, env2))
        if isinstance(e, ast.IfExp):
            self.ev(e.test, env)
            return join(self.ev(e.body, env), self.ev(e.orelse, env))
        if isinstance(e, ast.BoolOp):
            vs = [self.ev(v, env) for v in e.values]
            r = vs[0]
            for v in vs[1:]:
                r = join(r, v)
            return r
        if isinstance(e, (ast.BinOp,)):
            self.ev(e.left, env)
            self.ev(e.right, env)
            return FRESH
        if isinstance(e, ast.UnaryOp):
            self.ev(e.operand, env)
            return FRESH
        if isinstance(e, ast.Compare):
            self.ev(e.left, env)
            for c in e.comparators:
                self.ev(c, env)
            return FRESH
        if isinstance(e, ast.Starred):
            return self.ev(e.value, env)
        if isinstance(e, ast.NamedExpr):
            v = self.ev(e.value, env)
            return v
        if isinstance(e, ast.Lambda):
            return TOP
        if isinstance(e, (ast.Yield, ast.YieldFrom, ast.Await)):
            if getattr(e, "value", None) is not None:
                self.ev(e.value, env)
            return TOP
        return TOP

    def _getters(self, e: ast.Attribute) -> List[FuncInfo]:
        tt = self.inf.type_at(self.f, e.value)
        if definite(tt):
            out = []
            for a in tt:
                if a[0] == "inst":
                    m = self.prog.classes[a[1]].lookup(e.attr)
                    if m is not None and m.is_property:
                        out.append(m)
                    elif m is None or not m.is_property:
                        # some alternative has a plain attribute: not a (definite) property read
                        if self.inf._has_attr(self.prog.classes[a[1]], e.attr):
                            return []
                elif a == ("b", "none"):
                    continue
                else:
                    return []
            return out
        # unknown receiver: a property name that is unique among repo classes and not a plain attribute elsewhere
        cands = self.O.prop_getters(e.attr)
        if len(cands) >= 1 and e.attr not in ("start", "end", "id", "name", "number", "value", "parts"):
            # all candidates must agree (callers compare their summaries)
            return cands
        return []

    def _subst(self, rv, argvals):
        if rv == TOP or rv == FRESH:
            return rv
        if rv[0] == "own":
            return argvals[rv[1]] if rv[1] < len(argvals) else TOP
        if rv[0] == "fresh":
            if rv[2] is None:
                return FRESH
            if rv[2] >= len(argvals):
                return TOP
            v = argvals[rv[2]]
            for _ in range(rv[1]):
                v = wrap(v)
            if is_obj(rv) and v[0] == "fresh" and v[2] is not None:
                v = fresh(v[1], v[2], True)
            return v
        return TOP

    # -------------------------------------------------------------------- calls
    def call(self, e: ast.Call, env):
        argv = [self.ev(a.value if isinstance(a, ast.Starred) else a, env) for a in e.args]
        kwv = {k.arg: self.ev(k.value, env) for k in e.keywords}
        fn = e.func
        recv = None
        if isinstance(fn, ast.Attribute):
            recv = self.ev(fn.value, env)
        targets = self.inf.callee(self.f, e)
        # ---- built-in / library functions
        if isinstance(fn, ast.Name) and not any(t[0] in ("func", "ctor", "weakfunc") for t in targets):
            name = fn.id
            if name in CONTAINER_BUILDERS:
                return wrap(elem(argv[0])) if argv else FRESH
            if name == "filter" and len(argv) == 2:
                return wrap(elem(argv[1]))
            if name in ("map", "zip", "enumerate"):
                return TOP
            if name == "dict":
                if len(argv) == 1 and not kwv and argv[0][0] == "fresh":
                    return argv[0]  # copy of a fresh mapping: same nesting, new outer layer
                if len(argv) == 1 and not kwv and argv[0][0] == "own":
                    return fresh(1, argv[0][1])
                return wrap(join_all(list(kwv.values()) + [elem(elem(a)) for a in argv])) if (argv or kwv) else FRESH
            if name in ("next",):
                return elem(argv[0]) if argv else TOP
            if name in ("min", "max"):
                return elem(argv[0]) if len(argv) == 1 else join_all(argv)
            if name in ("len", "int", "float", "str", "bool", "abs", "round", "sum", "isinstance", "hasattr", "type", "repr",
                        "range", "any", "all", "print", "id", "hash", "ord", "chr", "format", "callable", "issubclass"):
                return FRESH
            if name == "getattr" and argv:
                return argv[0] if argv[0][0] == "own" else TOP
            if name == "setattr" and argv and argv[0][0] == "own":
                self.event(argv[0][1], e, f"setattr on `{norm(e.args[0])[:40]}`, which belongs to `{argv[0][1]}`", kind="attr")
                return FRESH
            if name == "copy" and argv:
                return fresh(1, argv[0][1], True) if argv[0][0] == "own" else argv[0]
            if name == "deepcopy":
                return FRESH
        for kind, tgt, _ in targets:
            if kind == "ext":
                if tgt in ("copy.deepcopy",):
                    return FRESH
                if tgt == "copy.copy" and argv:
                    return fresh(1, argv[0][1], True) if argv[0][0] == "own" else argv[0]
                if tgt in ALIASING_NP and argv:
                    return argv[0]
                if tgt.startswith("numpy.") or tgt.startswith("scipy."):
                    return FRESH
                if tgt in ("collections.defaultdict", "collections.OrderedDict", "collections.deque", "collections.Counter"):
                    return FRESH
                return TOP
        # ---- built-in mutator methods on an owned receiver
        if recv is not None and isinstance(fn, ast.Attribute):
            m = fn.attr
            repo_targets = [t for t in targets if t[0] in ("func", "weakfunc", "ctor")]
            if m in MUTATORS and recv[0] in ("own", "mix") and not repo_targets:
                rt = self.inf.type_at(self.f, fn.value)
                # a definitely immutable / non-container receiver cannot be mutated this way
                if not (definite(rt) and all(x[0] == "b" and x[1] in ("str", "int", "float", "bool", "none") for x in rt)):
                    self.event(recv[1], e, f"`{norm(e)[:60]}` mutates `{norm(fn.value)[:40]}`, which belongs to `{recv[1]}`")
            if not repo_targets:
                if m in ("copy",):
                    return wrap(elem(recv)) if recv[0] in ("own", "fresh") else TOP
                if m in ("values", "keys"):
                    return wrap(elem(recv)) if recv != TOP else TOP
                if m == "items":
                    return wrap(wrap(elem(recv))) if recv != TOP else TOP
                if m in ("get", "pop", "setdefault") and recv[0] in ("own", "fresh"):
                    return elem(recv)
                if m in ("astype", "tolist", "flatten", "nonzero", "argsort", "sum", "mean", "max", "min", "item", "lower",
                         "upper", "strip", "split", "format", "join", "index", "count", "startswith", "endswith", "toarray"):
                    return FRESH
                if m in VIEW_METHODS:
                    return recv
                return TOP
        # ---- repo callees
        repo = [t for t in targets if t[0] in ("func", "weakfunc", "ctor")]
        if not repo:
            return TOP
        results = []
        mut_sets = []
        for kind, tgt, rtype in repo:
            if kind == "ctor":
                init = tgt.lookup("__init__")
                vals = [FRESH] + argv
                names = init.params if init is not None else []
                if init is not None:
                    self._arg_effects(e, init, vals, kwv, mut_sets, bound=True)
                owned = [v for v in argv + list(kwv.values()) if v[0] in ("own",) or (v[0] == "fresh" and v[2] is not None)]
                ps = {v[1] if v[0] == "own" else v[2] for v in owned}
                results.append(fresh(1, ps.pop(), True) if len(ps) == 1 else (FRESH if not ps else TOP))
                continue
            g = tgt
            bound = isinstance(fn, ast.Attribute) and g.cls is not None and not g.is_static and \
                not (self._is_class_expr(fn.value))
            if g.is_classmethod:
                vals = [FRESH] + argv
            elif bound:
                vals = [recv] + argv
            else:
                vals = argv
            self._arg_effects(e, g, vals, kwv, mut_sets, bound)
            if bound and recv is not None and recv[0] == "own" and self.captures:
                self._captured_effects(e, g, recv[1])
            if self._record and g.name in self.O.watch:
                self.O.watched.append({"caller": self.f, "callee": g, "node": e, "args": list(vals), "kwargs": dict(kwv)})
            summ = self.O.summaries[g.qname]
            full = list(vals)
            params = g.params
            for k, v in kwv.items():
                if k in params:
                    i = params.index(k)
                    while len(full) <= i:
                        full.append(TOP)
                    full[i] = v
            results.append(self._subst(summ.returns, full))
        # a mutation is definite only if every candidate callee mutates that argument
        if mut_sets:
            common = set(mut_sets[0])
            for ms in mut_sets[1:]:
                common &= set(ms)
            for key in common:
                info = mut_sets[0][key]
                self.event(key[0], e, info["desc"], path=info["path"], root=info["root"], kind=info.get("kind", "other"))
        r = results[0]
        for x in results[1:]:
            r = join(r, x)
        return r

    def _captured_effects(self, call, g: FuncInfo, q):
        """`q.m()` where m mutates objects it reaches through `self.F` and this function stored objects of another
        parameter p into `q.F` (a constructor keeping its argument): m mutates p's objects."""
        for ev in self.O.events.get(g.qname, []):
            if ev["param_index"] != 0 or ev["func"] != g.qname:
                continue
            node = ev["node"]
            obj = node.func.value if isinstance(node, ast.Call) and isinstance(node.func, ast.Attribute) else getattr(node, "value", None)
            if obj is None:
                continue
            sl = _self_field_slice(self.prog, g, obj)
            if sl is None:
                continue
            field, steps = sl
            cap = self.captures.get((q, field))
            if cap is None:
                continue
            p, k = cap
            if steps < k:
                continue  # only the fresh copy layer is touched
            self.event(p, call, f"`{norm(call)[:50]}` runs {g.qname.split(':')[1]}, which mutates objects reached through `self.{field}` "
                                f"({ev['desc'][:90]}); `{q}.{field}` holds the objects of `{p}`",
                       path=[self.f.qname, g.qname], root=f"{g.qname}|captured:{field}")

    def _guard_excluded(self, call, g: FuncInfo, guards, bound) -> bool:
        """the callee's mutation sits under `if <param>` and this call passes (or leaves the default at) a constant of the
        opposite truth value"""
        if not guards:
            return False
        params = g.params
        a = g.node.args
        pos = list(a.posonlyargs) + list(a.args)
        defaults = {}
        for arg, d in zip(pos[len(pos) - len(a.defaults):], a.defaults):
            defaults[arg.arg] = d
        for arg, d in zip(a.kwonlyargs, a.kw_defaults):
            if d is not None:
                defaults[arg.arg] = d
        off = 1 if (bound or (g.name == "__init__")) and params and params[0] in ("self", "cls") else 0
        for pname, pol in guards:
            val = None
            for k in call.keywords:
                if k.arg == pname:
                    val = k.value
            if val is None and pname in params:
                i = params.index(pname) - off
                if 0 <= i < len(call.args) and not any(isinstance(x, ast.Starred) for x in call.args[:i + 1]):
                    val = call.args[i]
            if val is None and not any(k.arg is None for k in call.keywords):
                val = defaults.get(pname)
            if isinstance(val, ast.Constant) and bool(val.value) != pol:
                return True
        return False

    def _is_class_expr(self, expr) -> bool:
        t = self.inf.type_at(self.f, expr)
        return definite(t) and all(a[0] == "cls" for a in t)

    def _arg_effects(self, call, g: FuncInfo, vals, kwv, mut_sets, bound):
        summ = self.O.summaries[g.qname]
        params = g.params
        found = {}
        for idx, inners in summ.all_mutations.items():
          for inner in inners:
            v = None
            if idx < len(vals):
                v = vals[idx]
            if idx < len(params) and params[idx] in kwv:
                v = kwv[params[idx]]
            if v is None:
                continue
            owner = None
            if v[0] in ("own", "mix"):
                owner = v[1]
            elif v[0] == "fresh" and v[2] is not None and not is_obj(v) and inner.get("kind") == "attr":
                # every fresh layer of the argument is a built-in container; the callee stores an *attribute*, which containers do
                # not take: the object it writes is one of the owner's objects inside those containers
                owner = v[2]
            if owner is None:
                continue
            if self._guard_excluded(call, g, inner.get("guards") or (), bound):
                continue
            pname = params[idx] if idx < len(params) else f"#{idx}"
            found[(owner, inner["root"])] = {"desc": f"`{norm(call)[:60]}` passes an object of `{owner}` as `{pname}` to {g.qname.split(':')[1]}, which mutates it "
                                                     f"({inner['desc'][:120]})",
                                             "path": [self.f.qname] + inner["path"], "root": inner["root"], "kind": inner.get("kind", "other")}
        mut_sets.append(found)
