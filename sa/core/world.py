"""Lazily built shared analysis state for one run."""
from __future__ import annotations

from .program import Program
from .constfold import Folder
from .types import Infer
from .callgraph import CallGraph


class World:
    def __init__(self, prog: Program):
        self.prog = prog
        self._inf = None
        self._cg = None
        self._folder = None
        self._xfolder = None

    @property
    def inf(self) -> Infer:
        if self._inf is None:
            self._inf = Infer(self.prog)
            self._inf.build_callsite_types(2)
        return self._inf

    @property
    def cg(self) -> CallGraph:
        if self._cg is None:
            self._cg = CallGraph(self.prog, self.inf)
        return self._cg

    @property
    def folder(self) -> Folder:
        if self._folder is None:
            self._folder = Folder(self.prog)
        return self._folder

    @property
    def xfolder(self) -> Folder:
        if self._xfolder is None:
            self._xfolder = Folder(self.prog, exact=True)
        return self._xfolder


def world(ctx) -> World:
    w = getattr(ctx, "_world", None)
    if w is None:
        w = ctx._world = World(ctx.prog)
    return w


def ownership(ctx, watch=()):
    from .own import Ownership
    w = world(ctx)
    key = tuple(sorted(watch))
    cache = w.__dict__.setdefault("_own", {})
    if key not in cache:
        cache[key] = Ownership(w.prog, w.inf, watch=watch)
    return cache[key]
