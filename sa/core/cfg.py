"""Statement-level control-flow graph for one function, with dominators,
definite-assignment and must-pass-through queries.

Nodes are small objects; `node.ast` is the statement (for simple statements),
the test expression (kind 'test'), the For statement (kind 'for': evaluates the
iterator and binds the target on the T edge), the With statement (kind 'with'),
or the ExceptHandler (kind 'except').
"""
from __future__ import annotations

import ast
from typing import Dict, Iterable, List, Optional, Set, Tuple


class N:
    __slots__ = ("id", "kind", "ast", "succ", "pred", "label")

    def __init__(self, id, kind, node=None):
        self.id = id
        self.kind = kind
        self.ast = node
        self.succ: List[Tuple["N", str]] = []  # (node, label) label in '', 'T', 'F', 'exc'
        self.pred: List[Tuple["N", str]] = []

    @property
    def lineno(self):
        return getattr(self.ast, "lineno", 0)

    def __repr__(self):
        t = ""
        if self.ast is not None:
            try:
                t = ast.unparse(self.ast).split("\n")[0][:50]
            except Exception:
                t = ""
        return f"<{self.id}:{self.kind} {t}>"


class CFG:
    def __init__(self, fnode):
        self.fnode = fnode
        self.nodes: List[N] = []
        self.entry = self._new("entry")
        self.exit = self._new("exit")  # normal returns + fall off end
        self.raise_exit = self._new("raise")  # uncaught raise statements
        self.of_stmt: Dict[int, N] = {}  # id(ast stmt/test) -> node
        self._loops: List[Tuple[N, N]] = []  # (continue target, break target)
        self._handlers: List[List[N]] = []  # stack of handler-entry lists
        self._finally: List[Optional[List[ast.stmt]]] = []
        body = fnode.body if not isinstance(fnode, ast.Lambda) else [ast.Return(value=fnode.body)]
        ends = self._seq(body, [(self.entry, "")])
        for n, l in ends:
            self._edge(n, self.exit, l)

    # construction ---------------------------------------------------------
    def _new(self, kind, node=None):
        n = N(len(self.nodes), kind, node)
        self.nodes.append(n)
        if node is not None:
            self.of_stmt.setdefault(id(node), n)
        return n

    def _edge(self, a, b, label=""):
        if (b, label) not in a.succ:
            a.succ.append((b, label))
            b.pred.append((a, label))

    def _link(self, preds, n):
        for p, l in preds:
            self._edge(p, n, l)

    def _exc_edges(self, n):
        # a statement inside a try body may raise into any handler
        if self._handlers:
            for h in self._handlers[-1]:
                self._edge(n, h, "exc")

    def _seq(self, stmts, preds):
        for s in stmts:
            preds = self._stmt(s, preds)
        return preds

    def _stmt(self, s, preds):
        if isinstance(s, ast.If):
            t = self._new("test", s.test)
            self.of_stmt[id(s)] = t
            self._link(preds, t)
            self._exc_edges(t)
            a = self._seq(s.body, [(t, "T")])
            b = self._seq(s.orelse, [(t, "F")]) if s.orelse else [(t, "F")]
            return a + b
        if isinstance(s, (ast.For, ast.AsyncFor)):
            h = self._new("for", s)
            self._link(preds, h)
            self._exc_edges(h)
            after: List[Tuple[N, str]] = []
            brk = self._new("join")
            self._loops.append((h, brk))
            body_end = self._seq(s.body, [(h, "T")])
            self._loops.pop()
            for n, l in body_end:
                self._edge(n, h, l)
            els = self._seq(s.orelse, [(h, "F")]) if s.orelse else [(h, "F")]
            out = els
            if brk.pred:
                out = out + [(brk, "")]
            return out
        if isinstance(s, ast.While):
            t = self._new("test", s.test)
            self.of_stmt[id(s)] = t
            self._link(preds, t)
            self._exc_edges(t)
            brk = self._new("join")
            self._loops.append((t, brk))
            body_end = self._seq(s.body, [(t, "T")])
            self._loops.pop()
            for n, l in body_end:
                self._edge(n, t, l)
            const_true = isinstance(s.test, ast.Constant) and bool(s.test.value)
            els = []
            if not const_true:
                els = self._seq(s.orelse, [(t, "F")]) if s.orelse else [(t, "F")]
            out = els
            if brk.pred:
                out = out + [(brk, "")]
            return out
        if isinstance(s, (ast.With, ast.AsyncWith)):
            w = self._new("with", s)
            self._link(preds, w)
            self._exc_edges(w)
            return self._seq(s.body, [(w, "")])
        if isinstance(s, ast.Try) or (hasattr(ast, "TryStar") and isinstance(s, getattr(ast, "TryStar"))):
            hnodes = [self._new("except", h) for h in s.handlers]
            self._handlers.append(hnodes + (self._handlers[-1] if self._handlers and not _catches_all(s) else []))
            # the try body may raise before executing anything
            tstart = self._new("join")
            self._link(preds, tstart)
            for h in hnodes:
                self._edge(tstart, h, "exc")
            body_end = self._seq(s.body, [(tstart, "")])
            self._handlers.pop()
            else_end = self._seq(s.orelse, body_end) if s.orelse else body_end
            ends = list(else_end)
            for h, hn in zip(s.handlers, hnodes):
                ends += self._seq(h.body, [(hn, "")])
            if s.finalbody:
                ends = self._seq(s.finalbody, ends)
            return ends
        if isinstance(s, ast.Match):
            t = self._new("test", s.subject)
            self.of_stmt[id(s)] = t
            self._link(preds, t)
            ends = []
            for c in s.cases:
                ends += self._seq(c.body, [(t, "T")])
            ends.append((t, "F"))
            return ends
        if isinstance(s, (ast.FunctionDef, ast.AsyncFunctionDef, ast.ClassDef)):
            n = self._new("def", s)
            self._link(preds, n)
            return [(n, "")]
        # simple statements
        n = self._new("stmt", s)
        self._link(preds, n)
        self._exc_edges(n)
        if isinstance(s, ast.Return):
            self._edge(n, self.exit, "")
            return []
        if isinstance(s, ast.Raise):
            if self._handlers and self._handlers[-1]:
                pass  # edges to handlers already added
            else:
                self._edge(n, self.raise_exit, "")
            if self._handlers and self._handlers[-1]:
                # may also propagate if no handler matches
                self._edge(n, self.raise_exit, "exc")
            return []
        if isinstance(s, ast.Break):
            if self._loops:
                self._edge(n, self._loops[-1][1], "")
            return []
        if isinstance(s, ast.Continue):
            if self._loops:
                self._edge(n, self._loops[-1][0], "")
            return []
        return [(n, "")]

    # queries --------------------------------------------------------------
    def reachable(self, include_exc=True) -> Set[N]:
        seen = {self.entry}
        todo = [self.entry]
        while todo:
            n = todo.pop()
            for m, l in n.succ:
                if l == "exc" and not include_exc:
                    continue
                if m not in seen:
                    seen.add(m)
                    todo.append(m)
        return seen

    def dominators(self, include_exc=True) -> Dict[N, Set[N]]:
        reach = self.reachable(include_exc)
        nodes = [n for n in self.nodes if n in reach]
        dom = {n: set(nodes) for n in nodes}
        dom[self.entry] = {self.entry}
        changed = True
        while changed:
            changed = False
            for n in nodes:
                if n is self.entry:
                    continue
                ps = [p for p, l in n.pred if p in reach and (include_exc or l != "exc")]
                if not ps:
                    continue
                new = set.intersection(*(dom[p] for p in ps)) | {n}
                if new != dom[n]:
                    dom[n] = new
                    changed = True
        return dom

    def node_of(self, stmt) -> Optional[N]:
        return self.of_stmt.get(id(stmt))

    def paths_avoiding(self, start: N, avoid: Set[N], targets: Set[N], include_exc=False) -> bool:
        """Is some target reachable from start (exclusive) without passing a node in `avoid`?"""
        seen = set()
        todo = [m for m, l in start.succ if include_exc or l != "exc"]
        while todo:
            n = todo.pop()
            if n in seen or n in avoid:
                continue
            seen.add(n)
            if n in targets:
                return True
            for m, l in n.succ:
                if l == "exc" and not include_exc:
                    continue
                todo.append(m)
        return False

    def paths_avoiding_flags(self, start: N, avoid: Set[N], targets: Set[N]) -> bool:
        """Like paths_avoiding (normal edges only) but prunes branches that contradict
        boolean flags assigned constants along the path (`changed = True ... if not changed: return`)."""
        def upd(n, flags):
            if n.kind in ("stmt", "for", "with", "except", "def"):
                st = stores_of(n)
                if st:
                    flags = dict(flags)
                    for name in st:
                        flags.pop(name, None)
                    a = n.ast
                    if n.kind == "stmt" and isinstance(a, ast.Assign) and len(a.targets) == 1 \
                            and isinstance(a.targets[0], ast.Name) and isinstance(a.value, ast.Constant) \
                            and isinstance(a.value.value, bool):
                        flags[a.targets[0].id] = a.value.value
            return flags

        def feasible(n, label, flags):
            if n.kind != "test" or label not in ("T", "F"):
                return True
            t = n.ast
            neg = False
            while isinstance(t, ast.UnaryOp) and isinstance(t.op, ast.Not):
                neg = not neg
                t = t.operand
            if isinstance(t, ast.Name) and t.id in flags:
                val = flags[t.id] != neg
                return val == (label == "T")
            return True

        seen = set()
        f0 = upd(start, {})
        todo = [(m, f0) for m, l in start.succ if l != "exc" and feasible(start, l, f0)]
        while todo:
            n, flags = todo.pop()
            key = (n.id, tuple(sorted(flags.items())))
            if key in seen or n in avoid:
                continue
            seen.add(key)
            if n in targets:
                return True
            flags2 = upd(n, flags)
            for m, l in n.succ:
                if l == "exc" or not feasible(n, l, flags2):
                    continue
                todo.append((m, flags2))
        return False

    def reaches(self, start: N, target: N, include_exc=False, avoid: Set[N] = frozenset()) -> bool:
        return self.paths_avoiding(start, set(avoid), {target}, include_exc)


def _catches_all(trystmt) -> bool:
    for h in trystmt.handlers:
        if h.type is None:
            return True
        if isinstance(h.type, ast.Name) and h.type.id in ("Exception", "BaseException"):
            return True
    return False


# ---------------------------------------------------------------------------
# definitions and uses of local names per CFG node


def stores_of(n: N) -> Set[str]:
    """Names (re)bound by executing node n."""
    a = n.ast
    out: Set[str] = set()
    if n.kind == "stmt":
        if isinstance(a, ast.Assign):
            for t in a.targets:
                out |= _names_stored(t)
        elif isinstance(a, (ast.AugAssign, ast.AnnAssign)):
            if isinstance(a, ast.AnnAssign) and a.value is None:
                return out
            out |= _names_stored(a.target)
        elif isinstance(a, (ast.Import, ast.ImportFrom)):
            for al in a.names:
                out.add((al.asname or al.name).split(".")[0])
        elif isinstance(a, ast.Delete):
            pass
        for w in ast.walk(a):
            if isinstance(w, ast.NamedExpr) and isinstance(w.target, ast.Name):
                out.add(w.target.id)
    elif n.kind == "for":
        out |= _names_stored(a.target)
    elif n.kind == "with":
        for it in a.items:
            if it.optional_vars is not None:
                out |= _names_stored(it.optional_vars)
    elif n.kind == "except":
        if a.name:
            out.add(a.name)
    elif n.kind == "def":
        out.add(a.name)
    elif n.kind == "test":
        for w in ast.walk(a):
            if isinstance(w, ast.NamedExpr) and isinstance(w.target, ast.Name):
                out.add(w.target.id)
    return out


def _names_stored(t) -> Set[str]:
    out = set()
    if isinstance(t, ast.Name):
        out.add(t.id)
    elif isinstance(t, (ast.Tuple, ast.List)):
        for e in t.elts:
            out |= _names_stored(e)
    elif isinstance(t, ast.Starred):
        out |= _names_stored(t.value)
    return out


def loads_of(n: N) -> List[ast.Name]:
    """Name loads evaluated by node n itself (not nested statements)."""
    a = n.ast
    if a is None:
        return []
    roots: List[ast.AST] = []
    if n.kind == "stmt":
        roots = [a]
    elif n.kind == "test":
        roots = [a]
    elif n.kind == "for":
        roots = [a.iter]
    elif n.kind == "with":
        roots = [it.context_expr for it in a.items]
    elif n.kind == "except":
        roots = [a.type] if a.type is not None else []
    elif n.kind == "def":
        roots = list(getattr(a, "decorator_list", []))
        if hasattr(a, "args"):
            roots += [d for d in a.args.defaults] + [d for d in a.args.kw_defaults if d is not None]
    out = []
    for r in roots:
        out += _loads(r)
    return out


def _loads(node) -> List[ast.Name]:
    out = []
    bound: Set[str] = set()

    def visit(n, bound):
        if isinstance(n, ast.Name):
            if isinstance(n.ctx, ast.Load) and n.id not in bound:
                out.append(n)
            return
        if isinstance(n, (ast.ListComp, ast.SetComp, ast.GeneratorExp, ast.DictComp)):
            b = set(bound)
            for i, g in enumerate(n.generators):
                visit(g.iter, b if i else bound)
                b |= _names_stored(g.target)
                for c in g.ifs:
                    visit(c, b)
            if isinstance(n, ast.DictComp):
                visit(n.key, b)
                visit(n.value, b)
            else:
                visit(n.elt, b)
            return
        if isinstance(n, ast.Lambda):
            b = set(bound) | {a.arg for a in n.args.args + n.args.kwonlyargs + n.args.posonlyargs}
            if n.args.vararg:
                b.add(n.args.vararg.arg)
            if n.args.kwarg:
                b.add(n.args.kwarg.arg)
            for d in n.args.defaults + [d for d in n.args.kw_defaults if d is not None]:
                visit(d, bound)
            visit(n.body, b)
            return
        if isinstance(n, (ast.FunctionDef, ast.AsyncFunctionDef, ast.ClassDef)):
            return
        for c in ast.iter_child_nodes(n):
            visit(c, bound)

    visit(node, bound)
    return out


def definitely_unassigned_loads(cfg: CFG, local_names: Set[str], params: Set[str]):
    """Name loads of local variables that have *no* reaching definition on any
    path (must-unassigned).  Returns list of (N, ast.Name)."""
    # may-assigned forward analysis: IN[n] = union of OUT[p]
    nodes = cfg.nodes
    out_ = {n: set() for n in nodes}
    in_ = {n: set() for n in nodes}
    out_[cfg.entry] = set(params)
    changed = True
    order = nodes
    while changed:
        changed = False
        for n in order:
            if n is cfg.entry:
                continue
            i = set()
            for p, l in n.pred:
                i |= out_[p]
            o = i | stores_of(n)
            if i != in_[n] or o != out_[n]:
                in_[n], out_[n] = i, o
                changed = True
    reach = cfg.reachable()
    res = []
    for n in nodes:
        if n not in reach or n.kind in ("entry", "exit", "raise", "join"):
            continue
        for name in loads_of(n):
            if name.id in local_names and name.id not in in_[n]:
                # AugAssign target counts as load too; handled by caller
                res.append((n, name))
        a = n.ast
        if n.kind == "stmt" and isinstance(a, ast.AugAssign) and isinstance(a.target, ast.Name):
            if a.target.id in local_names and a.target.id not in in_[n]:
                res.append((n, a.target))
    return res


def local_names(fnode) -> Set[str]:
    """Names that are local to the function (assigned somewhere in it and not
    declared global/nonlocal)."""
    from .program import own_nodes
    assigned: Set[str] = set()
    declared: Set[str] = set()
    for n in own_nodes(fnode):
        if isinstance(n, ast.Name) and isinstance(n.ctx, (ast.Store, ast.Del)):
            # comprehension targets are not function locals
            p = getattr(n, "_parent", None)
            incomp = False
            while p is not None and p is not fnode:
                if isinstance(p, ast.comprehension):
                    incomp = True
                    break
                if isinstance(p, ast.stmt):
                    break
                p = getattr(p, "_parent", None)
            if not incomp:
                assigned.add(n.id)
        elif isinstance(n, (ast.Global, ast.Nonlocal)):
            declared |= set(n.names)
        elif isinstance(n, (ast.FunctionDef, ast.AsyncFunctionDef, ast.ClassDef)):
            assigned.add(n.name)
        elif isinstance(n, (ast.Import, ast.ImportFrom)):
            for al in n.names:
                assigned.add((al.asname or al.name).split(".")[0])
        elif isinstance(n, ast.ExceptHandler) and n.name:
            assigned.add(n.name)
    return assigned - declared
