"""Loader and name resolver for the partitura source tree.

Everything here works on the *source text* of /repo/partitura/**/*.py as found
in the working tree (or in an override mapping used by the self-tests).  No
module of partitura is ever imported.
"""
from __future__ import annotations

import ast
import hashlib
import os
from typing import Dict, Iterator, List, Optional, Tuple

REPO = os.environ.get("PARTITURA_REPO", "/repo")
PKG = "partitura"


class AnalysisError(Exception):
    """The analyser cannot do its job (vanished anchor, unfoldable table...)."""

    def __init__(self, rule: str, anchor: str, msg: str = ""):
        super().__init__(f"rule={rule} anchor={anchor} {msg}".strip())
        self.rule = rule
        self.anchor = anchor
        self.msg = msg


class _Canon(ast.NodeTransformer):
    """Canonical form of two behaviour-neutral spelling choices, so that no rule can depend on them:
      * `a > b` / `a >= b` (single comparison of call-free operands) is read as `b < a` / `b <= a`; in `==` / `!=` a constant
        operand is put on the right;
      * `if not c: A else: B` (else present, not an elif chain) is read as `if c: B else: A`.
    Positions are kept (reports name the original line); report texts show the canonical spelling."""

    def visit_Compare(self, node):
        self.generic_visit(node)
        if len(node.ops) == 1:
            a, b, op = node.left, node.comparators[0], node.ops[0]
            simple = not any(isinstance(x, (ast.Call, ast.NamedExpr, ast.Await, ast.Yield, ast.YieldFrom)) for e in (a, b) for x in ast.walk(e))
            if simple and isinstance(op, (ast.Gt, ast.GtE)):
                return ast.copy_location(ast.Compare(left=b, ops=[ast.Lt() if isinstance(op, ast.Gt) else ast.LtE()], comparators=[a]), node)
            if simple and isinstance(op, (ast.Eq, ast.NotEq)) and isinstance(a, ast.Constant) and not isinstance(b, ast.Constant):
                return ast.copy_location(ast.Compare(left=b, ops=[op], comparators=[a]), node)
        return node

    def visit_If(self, node):
        self.generic_visit(node)
        t = node.test
        if isinstance(t, ast.UnaryOp) and isinstance(t.op, ast.Not) and node.orelse and \
                not (len(node.orelse) == 1 and isinstance(node.orelse[0], ast.If)):
            node.test, node.body, node.orelse = t.operand, node.orelse, node.body
        return node



# ---------------------------------------------------------------------------------------------------------------------
# virtual inlining of private helpers that are called exactly once ("extract helper" is the commonest refactoring:
# the rules keep looking at the function that implements a mechanism and see the extracted block where it is called)

class _NoInline(Exception):
    pass


def _load_pinned():
    import json as _json
    p_ = os.path.join(os.path.dirname(os.path.abspath(__file__)), "pinned_helpers.json")
    try:
        with open(p_) as fh:
            return _json.load(fh)
    except OSError:
        return {}


PINNED_HELPERS = _load_pinned()


def _own_walk(fn):
    """nodes of a function excluding nested function / class bodies"""
    todo = list(ast.iter_child_nodes(fn))
    while todo:
        n = todo.pop()
        yield n
        if not isinstance(n, (ast.FunctionDef, ast.AsyncFunctionDef, ast.ClassDef, ast.Lambda)):
            todo.extend(ast.iter_child_nodes(n))


def _has_return(block):
    return any(isinstance(x, ast.Return) for s in block for x in ([s] + list(_own_walk(s))) if not isinstance(s, (ast.FunctionDef, ast.ClassDef)))


def _always_returns(block):
    if not block:
        return False
    last = block[-1]
    if isinstance(last, (ast.Return, ast.Raise)):
        return True
    if isinstance(last, ast.If) and last.orelse:
        return _always_returns(last.body) and _always_returns(last.orelse)
    return False


def _tailify(block, sink):
    out = []
    for i, s in enumerate(block):
        if isinstance(s, ast.Return):
            out.extend(sink(s.value))
            return out
        if isinstance(s, ast.If) and (_has_return(s.body) or _has_return(s.orelse)):
            rest = block[i + 1:]
            b_ret = _always_returns(s.body)
            o_ret = _always_returns(s.orelse)
            if (_has_return(s.body) and not b_ret) or (_has_return(s.orelse) and not o_ret):
                raise _NoInline("conditional return inside a branch that also falls through")
            new_body = _tailify(s.body, sink) if b_ret else _tailify(s.body + rest, sink)
            new_else = _tailify(s.orelse, sink) if o_ret else _tailify(s.orelse + rest, sink)
            out.append(ast.copy_location(ast.If(test=s.test, body=new_body or [ast.Pass()], orelse=new_else), s))
            return out
        if not isinstance(s, (ast.FunctionDef, ast.ClassDef)) and _has_return([s]):
            raise _NoInline("return inside a loop / try / with")
        out.append(s)
    out.extend(sink(None))
    return out


class _RenameLocals(ast.NodeTransformer):
    def __init__(self, names, suffix):
        self.names, self.suffix = names, suffix

    def visit_Name(self, n):
        if n.id in self.names:
            return ast.copy_location(ast.Name(id=n.id + self.suffix, ctx=n.ctx), n)
        return n

    def visit_arg(self, n):
        return n


def _inline_helpers(tree, relpath=None, report=False):
    import copy as _copy
    pinned = set(PINNED_HELPERS.get(relpath, ())) if relpath else set()
    inlined_names = []

    def candidates(body, in_class, local=False):
        for s in body:
            if isinstance(s, ast.FunctionDef) and ((s.name.startswith("_") and not s.name.startswith("__")) or local):
                decos = [ast.unparse(d) for d in s.decorator_list]
                if any(d not in ("staticmethod", "classmethod") for d in decos) or (decos and not in_class):
                    continue
                a = s.args
                if a.vararg or a.kwarg or a.kwonlyargs or a.posonlyargs:
                    continue
                if any(isinstance(x, (ast.Yield, ast.YieldFrom, ast.Global, ast.Nonlocal, ast.FunctionDef, ast.AsyncFunctionDef, ast.ClassDef, ast.Lambda, ast.Await))
                       for x in _own_walk(s)) or any(isinstance(x, (ast.FunctionDef, ast.ClassDef)) for x in s.body):
                    continue
                yield s, decos

    def refs(scope_nodes, name, in_class, cname):
        calls, other = [], 0
        for root in scope_nodes:
            for n in ast.walk(root):
                if isinstance(n, ast.Call):
                    f = n.func
                    if (not in_class and isinstance(f, ast.Name) and f.id == name) or \
                            (in_class and isinstance(f, ast.Attribute) and f.attr == name and isinstance(f.value, ast.Name) and f.value.id in ("self", "cls", cname)):
                        calls.append(n)
                if isinstance(n, ast.Name) and n.id == name and isinstance(n.ctx, ast.Load):
                    other += 1
                if isinstance(n, ast.Attribute) and n.attr == name and isinstance(n.ctx, ast.Load):
                    other += 1
        return calls, other

    def do(body, in_class, cname, scope_nodes, local=False):
        done = 0
        for helper, decos in list(candidates(body, in_class, local)):
            if helper.name in pinned:
                continue
            calls, other = refs(scope_nodes, helper.name, in_class, cname)
            # every reference is a call; a helper used at several places is read in place at each of them (one per pass)
            if not (1 <= len(calls) <= 10) or other != len(calls):
                continue
            if len(calls) > 1 and sum(1 for _x in ast.walk(helper) if isinstance(_x, ast.stmt)) > 14:
                continue
            call = calls[0]
            # the call must be the whole value of a statement that sits directly in a block of another function
            host = None
            for fn in [n for root in scope_nodes for n in ast.walk(root) if isinstance(n, ast.FunctionDef) and n is not helper]:
                for blk_owner in [fn] + [x for x in _own_walk(fn)]:
                    for fld in ("body", "orelse", "finalbody"):
                        blk = getattr(blk_owner, fld, None)
                        if isinstance(blk, list):
                            for i, st in enumerate(blk):
                                if isinstance(st, (ast.Assign, ast.Expr, ast.Return)) and getattr(st, "value", None) is call:
                                    host = (fn, blk, i, st)
                                # `xs = [helper(..) for t in it]`: read as `xs = []` and a loop appending the helper's result
                                elif isinstance(st, ast.Assign) and len(st.targets) == 1 and isinstance(st.targets[0], ast.Name) and isinstance(st.value, ast.ListComp) \
                                        and st.value.elt is call and len(st.value.generators) == 1 and not st.value.generators[0].ifs \
                                        and not st.value.generators[0].is_async:
                                    host = (fn, blk, i, st)
            if host is None:
                continue
            fn, blk, i, st = host
            if any(x is call for x in ast.walk(helper)):
                continue  # recursive
            if any(isinstance(a, ast.Starred) for a in call.args) or any(k.arg is None for k in call.keywords):
                continue
            params = [a.arg for a in helper.args.args]
            skip_first = in_class and "staticmethod" not in decos and not (isinstance(call.func.value, ast.Name) and call.func.value.id == cname and "classmethod" not in decos)
            bind_params = params[1:] if (skip_first and params) else params
            if len(call.args) > len(bind_params):
                continue
            values = dict(zip(bind_params, call.args))
            for k in call.keywords:
                if k.arg not in bind_params or k.arg in values:
                    values = None
                    break
                values[k.arg] = k.value
            if values is None:
                continue
            defaults = dict(zip(params[len(params) - len(helper.args.defaults):], helper.args.defaults))
            for p_ in bind_params:
                if p_ not in values:
                    if p_ in defaults:
                        values[p_] = defaults[p_]
                    else:
                        values = None
                        break
            if values is None:
                continue
            same = {p_ for p_, v in values.items() if isinstance(v, ast.Name) and v.id == p_}
            hbody = _copy.deepcopy(helper.body)
            if hbody and isinstance(hbody[0], ast.Expr) and isinstance(hbody[0].value, ast.Constant) and isinstance(hbody[0].value.value, str):
                hbody = hbody[1:]
            locals_ = {x.id for b in hbody for x in ast.walk(b) if isinstance(x, ast.Name) and isinstance(x.ctx, ast.Store)} | set(bind_params)
            if skip_first and params:
                # the receiver keeps its name when it is called the same in the host (self / cls)
                if params[0] not in ("self", "cls") or not (isinstance(call.func.value, ast.Name) and call.func.value.id == params[0]):
                    continue
            # a parameter that the helper never rebinds and whose argument is a plain name / attribute chain / constant is
            # replaced by that argument (reads in place); the others are bound by an assignment in front
            stored = {x.id for b in hbody for x in ast.walk(b) if isinstance(x, ast.Name) and isinstance(x.ctx, (ast.Store, ast.Del))}

            def pure(e):
                return all(isinstance(x, (ast.Name, ast.Attribute, ast.Constant, ast.Load, ast.Subscript, ast.UnaryOp, ast.USub)) for x in ast.walk(e)) and \
                    all(isinstance(x.slice, ast.Constant) for x in ast.walk(e) if isinstance(x, ast.Subscript))
            subst = {p_: v for p_, v in values.items() if p_ not in same and p_ not in stored and pure(v)}

            class _Subst(ast.NodeTransformer):
                def visit_Name(self, n):
                    if n.id in subst and isinstance(n.ctx, ast.Load):
                        return ast.copy_location(_copy.deepcopy(subst[n.id]), n)
                    return n
            hbody = [_Subst().visit(b) for b in hbody]
            same = same | set(subst)
            rename = locals_ - same
            ren = _RenameLocals(rename, "_inl")
            hbody = [ren.visit(b) for b in hbody]
            comp = isinstance(st, ast.Assign) and isinstance(st.value, ast.ListComp)
            if comp:
                acc = st.targets[0].id
                sink = lambda e: [ast.copy_location(ast.Expr(value=ast.Call(func=ast.Attribute(value=ast.Name(id=acc, ctx=ast.Load()), attr="append", ctx=ast.Load()),
                                                                            args=[e if e is not None else ast.Constant(value=None)], keywords=[])), st)]
            elif isinstance(st, ast.Return):
                sink = lambda e: [ast.copy_location(ast.Return(value=e), st)]
            elif isinstance(st, ast.Assign):
                sink = lambda e: [ast.copy_location(ast.Assign(targets=_copy.deepcopy(st.targets), value=e if e is not None else ast.Constant(value=None)), st)]
            else:
                sink = lambda e: ([ast.copy_location(ast.Expr(value=e), st)] if e is not None and not isinstance(e, (ast.Constant, ast.Name)) else [])
            try:
                new = _tailify(hbody, sink)
            except _NoInline:
                continue
            binds = [ast.copy_location(ast.Assign(targets=[ast.Name(id=p_ + "_inl", ctx=ast.Store())], value=values[p_]), st) for p_ in bind_params if p_ not in same]
            for b_ in binds + new:
                for x_ in ast.walk(b_):
                    x_._inl = helper.name
            if comp:
                g_ = st.value.generators[0]
                loop = ast.copy_location(ast.For(target=g_.target, iter=g_.iter, body=binds + new, orelse=[]), st)
                init = ast.copy_location(ast.Assign(targets=[ast.Name(id=acc, ctx=ast.Store())], value=ast.List(elts=[], ctx=ast.Load())), st)
                blk[i:i + 1] = [init, loop]
                inlined_names.append(helper.name)
                done += 1
                continue
            blk[i:i + 1] = binds + new
            inlined_names.append(helper.name)
            done += 1
        return done

    n = do(tree.body, False, None, [tree])
    for c in [x for x in ast.walk(tree) if isinstance(x, ast.ClassDef)]:
        n += do(c.body, True, c.name, [c])
    # helpers defined inside a function and called once in it
    for fn_ in [x for x in ast.walk(tree) if isinstance(x, ast.FunctionDef)]:
        if any(isinstance(y, ast.FunctionDef) for y in fn_.body):
            n += do(fn_.body, False, None, [fn_], local=True)
    return inlined_names if report else n


_JUMPS = (ast.Return, ast.Raise, ast.Continue, ast.Break)


def _canon_block(stmts, fnode):
    """(a) no `else` after a jump: `if c: ..; return  else: B` is read as `if c: ..; return` followed by B;
    (b) a local that is assigned once, from a call, and read exactly once, in the very next statement, before any other
        call of that statement, is read as if the call were written in place (`_t = g(b); r = f(a, _t)` is `r = f(a, g(b))`)."""
    out = []
    for s in stmts:
        for fld in ("body", "orelse", "finalbody"):
            b = getattr(s, fld, None)
            if isinstance(b, list) and b and isinstance(b[0], ast.stmt) and not isinstance(s, (ast.FunctionDef, ast.AsyncFunctionDef, ast.ClassDef)):
                setattr(s, fld, _canon_block(b, fnode))
        for h in getattr(s, "handlers", []) or []:
            h.body = _canon_block(h.body, fnode)
        if isinstance(s, ast.If) and s.orelse and s.body and isinstance(s.body[-1], _JUMPS):
            tail = s.orelse
            s.orelse = []
            out.append(s)
            out.extend(tail)
        else:
            out.append(s)
    # (b) forward substitution of single-use temporaries
    res = []
    for s in out:
        prev = res[-1] if res else None
        if prev is not None and isinstance(prev, ast.Assign) and len(prev.targets) == 1 and isinstance(prev.targets[0], ast.Name) \
                and isinstance(prev.value, ast.Call) and isinstance(s, (ast.Assign, ast.Expr, ast.Return, ast.AugAssign)) and getattr(s, "value", None) is not None:
            name = prev.targets[0].id
            info = fnode._name_counts.get(name)
            if info == (1, 1):
                uses = [n for n in ast.walk(s.value) if isinstance(n, ast.Name) and n.id == name and isinstance(n.ctx, ast.Load)]
                if len(uses) == 1 and not any(isinstance(n, (ast.Lambda, ast.ListComp, ast.SetComp, ast.DictComp, ast.GeneratorExp)) for n in ast.walk(s.value)):
                    u = uses[0]
                    anc = set()
                    # ancestors of the use inside s.value
                    def find(n, path):
                        if n is u:
                            anc.update(id(x) for x in path)
                            return True
                        return any(find(c, path + [n]) for c in ast.iter_child_nodes(n))
                    find(s.value, [])
                    pos = (u.lineno, u.col_offset)
                    before = [n for n in ast.walk(s.value) if isinstance(n, ast.Call) and id(n) not in anc
                              and (getattr(n, "lineno", 0), getattr(n, "col_offset", 0)) < pos]
                    if not before:
                        class _Sub(ast.NodeTransformer):
                            def visit_Name(self, n):
                                return prev.value if n is u else n
                        s.value = _Sub().visit(s.value)
                        res.pop()
        res.append(s)
    return res


def canonicalise(tree, relpath=None):
    tree = _Canon().visit(tree)
    ast.fix_missing_locations(tree)
    try:
        for _ in range(24):
            if not _inline_helpers(tree, relpath):
                break
    except RecursionError:
        pass
    ast.fix_missing_locations(tree)
    for fn in [n for n in ast.walk(tree) if isinstance(n, (ast.FunctionDef, ast.AsyncFunctionDef))]:
        counts = {}
        nested = set()
        for n in ast.walk(fn):
            if n is not fn and isinstance(n, (ast.FunctionDef, ast.AsyncFunctionDef, ast.Lambda, ast.ClassDef)):
                for m in ast.walk(n):
                    if isinstance(m, ast.Name):
                        nested.add(m.id)
            if isinstance(n, (ast.Global, ast.Nonlocal)):
                nested.update(n.names)
        for n in ast.walk(fn):
            if isinstance(n, ast.Name):
                st, ld = counts.get(n.id, (0, 0))
                counts[n.id] = (st + 1, ld) if isinstance(n.ctx, ast.Store) else (st, ld + 1)
        fn._name_counts = {k: v for k, v in counts.items() if k not in nested}
    for fn in [n for n in ast.walk(tree) if isinstance(n, (ast.FunctionDef, ast.AsyncFunctionDef))]:
        fn.body = _canon_block(fn.body, fn)
    ast.fix_missing_locations(tree)
    # document order after the transformations (statements read in place keep the line numbers of where they are written,
    # so line numbers do not order the code any more): every node gets its pre-order index
    k = [0]

    def number(n):
        k[0] += 1
        n._ord = k[0]
        for c in ast.iter_child_nodes(n):
            number(c)
    number(tree)
    return tree


def pos(n) -> int:
    """position of a node in the (canonical) document order of its module"""
    o = getattr(n, "_ord", None)
    return o if o is not None else getattr(n, "lineno", 0) * 100000 + getattr(n, "col_offset", 0)


class Module:
    def __init__(self, name: str, relpath: str, source: str, is_pkg: bool):
        self.name = name
        self.relpath = relpath
        self.source = source
        self.is_pkg = is_pkg
        self.digest = hashlib.sha256(source.encode()).hexdigest()
        self.tree = canonicalise(ast.parse(source, filename=relpath), relpath)
        for parent in ast.walk(self.tree):
            for child in ast.iter_child_nodes(parent):
                child._parent = parent  # type: ignore[attr-defined]
        self.tree._parent = None  # type: ignore[attr-defined]
        # symbol tables (filled by Program)
        self.imports: Dict[str, Tuple[str, Optional[str]]] = {}  # local -> (module, symbol|None)
        self.star_imports: List[str] = []
        self.defs: Dict[str, ast.AST] = {}  # last top-level def/class/assign per name
        self.all_defs: Dict[str, List[ast.AST]] = {}

    def __repr__(self):
        return f"<Module {self.name}>"


class FuncInfo:
    def __init__(self, qname, node, module, cls=None, parent=None):
        self.qname = qname  # "partitura.score:Part.add" / "partitura.x:f.<locals>.g"
        self.node = node
        self.module = module
        self.cls = cls  # ClassInfo or None
        self.parent = parent  # enclosing FuncInfo or None
        self.name = node.name if hasattr(node, "name") else "<lambda>"

    @property
    def params(self) -> List[str]:
        a = self.node.args
        return [x.arg for x in a.posonlyargs + a.args]

    @property
    def all_params(self) -> List[str]:
        a = self.node.args
        out = [x.arg for x in a.posonlyargs + a.args]
        if a.vararg:
            out.append(a.vararg.arg)
        out += [x.arg for x in a.kwonlyargs]
        if a.kwarg:
            out.append(a.kwarg.arg)
        return out

    @property
    def decorators(self) -> List[str]:
        out = []
        for d in getattr(self.node, "decorator_list", []):
            if isinstance(d, ast.Call):
                d = d.func
            try:
                out.append(ast.unparse(d))
            except Exception:
                pass
        return out

    @property
    def is_property(self) -> bool:
        return any(d == "property" or d.endswith(".getter") for d in self.decorators)

    @property
    def is_setter(self) -> bool:
        return any(d.endswith(".setter") for d in self.decorators)

    @property
    def is_static(self) -> bool:
        return "staticmethod" in self.decorators

    @property
    def is_classmethod(self) -> bool:
        return "classmethod" in self.decorators

    def loc(self, node=None) -> str:
        n = node if node is not None else self.node
        return f"{self.module.relpath}:{getattr(n, 'lineno', 0)}"

    def __repr__(self):
        return f"<Func {self.qname}>"


class ClassInfo:
    def __init__(self, qname, node, module):
        self.qname = qname  # "partitura.score:Part"
        self.name = node.name
        self.node = node
        self.module = module
        self.bases: List[object] = []  # ClassInfo or str (external)
        self.mro: List["ClassInfo"] = []
        self.methods: Dict[str, FuncInfo] = {}  # plain methods / property getters
        self.setters: Dict[str, FuncInfo] = {}
        self.all_methods: Dict[str, List[FuncInfo]] = {}
        self.class_attrs: Dict[str, ast.AST] = {}
        self.subclasses: List["ClassInfo"] = []

    def lookup(self, name: str) -> Optional[FuncInfo]:
        for c in self.mro:
            if name in c.methods:
                return c.methods[name]
        return None

    def lookup_setter(self, name: str) -> Optional[FuncInfo]:
        for c in self.mro:
            if name in c.setters:
                return c.setters[name]
        return None

    def lookup_class_attr(self, name: str):
        for c in self.mro:
            if name in c.class_attrs:
                return c, c.class_attrs[name]
        return None

    def is_subclass_of(self, other: "ClassInfo") -> bool:
        return other in self.mro

    def all_subclasses(self) -> List["ClassInfo"]:
        out, todo = [], list(self.subclasses)
        while todo:
            c = todo.pop()
            if c not in out:
                out.append(c)
                todo.extend(c.subclasses)
        return out

    def __repr__(self):
        return f"<Class {self.qname}>"


class Program:
    def __init__(self, repo: str = None, overrides: Dict[str, str] = None):
        self.repo = repo or REPO
        self.overrides = overrides or {}
        self.modules: Dict[str, Module] = {}
        self.functions: Dict[str, FuncInfo] = {}
        self.classes: Dict[str, ClassInfo] = {}
        self.func_of_node: Dict[int, FuncInfo] = {}
        self.class_of_node: Dict[int, ClassInfo] = {}
        self.parse_errors: List[str] = []
        self._load()
        self._index()
        self._link_classes()

    # ------------------------------------------------------------------ load
    def _load(self):
        root = os.path.join(self.repo, PKG)
        if not os.path.isdir(root):
            raise AnalysisError("loader", root, "package directory not found")
        for dirpath, dirnames, filenames in os.walk(root):
            dirnames[:] = sorted(d for d in dirnames if d != "__pycache__")
            for fn in sorted(filenames):
                if not fn.endswith(".py"):
                    continue
                path = os.path.join(dirpath, fn)
                rel = os.path.relpath(path, self.repo)
                if rel in self.overrides:
                    src = self.overrides[rel]
                else:
                    with open(path, encoding="utf-8") as fh:
                        src = fh.read()
                parts = rel[:-3].split(os.sep)
                is_pkg = parts[-1] == "__init__"
                if is_pkg:
                    parts = parts[:-1]
                name = ".".join(parts)
                try:
                    self.modules[name] = Module(name, rel, src, is_pkg)
                except SyntaxError as e:
                    raise AnalysisError("loader", rel, f"syntax error: {e}")
        if len(self.modules) < 30:
            raise AnalysisError("loader", root, f"only {len(self.modules)} modules parsed")

    # ----------------------------------------------------------------- index
    def _abs_module(self, mod: Module, level: int, name: Optional[str]) -> str:
        if level == 0:
            return name or ""
        base = mod.name.split(".")
        if not mod.is_pkg:
            base = base[:-1]
        if level > 1:
            base = base[: len(base) - (level - 1)]
        if name:
            base = base + name.split(".")
        return ".".join(base)

    def _index(self):
        for mod in self.modules.values():
            self._index_imports(mod)
            self._index_scope(mod, mod.tree.body, prefix="", cls=None, parent=None, top=True)

    def _index_imports(self, mod: Module):
        # module level + (conservatively) function-level imports share one table;
        # function-level imports are only added if the name is not bound otherwise
        def handle(node, toplevel):
            if isinstance(node, ast.Import):
                for a in node.names:
                    if a.asname:
                        tgt = (a.name, None)
                        local = a.asname
                    else:
                        local = a.name.split(".")[0]
                        tgt = (local, None)
                    if toplevel or local not in mod.imports:
                        mod.imports[local] = tgt
            elif isinstance(node, ast.ImportFrom):
                src = self._abs_module(mod, node.level, node.module)
                for a in node.names:
                    if a.name == "*":
                        mod.star_imports.append(src)
                        continue
                    local = a.asname or a.name
                    if toplevel or local not in mod.imports:
                        mod.imports[local] = (src, a.name)

        for node in ast.walk(mod.tree):
            if isinstance(node, (ast.Import, ast.ImportFrom)):
                p = getattr(node, "_parent", None)
                top = True
                while p is not None:
                    if isinstance(p, (ast.FunctionDef, ast.AsyncFunctionDef, ast.Lambda)):
                        top = False
                        break
                    p = getattr(p, "_parent", None)
                handle(node, top)

    def _index_scope(self, mod, body, prefix, cls, parent, top):
        for node in body:
            self._index_stmt(mod, node, prefix, cls, parent, top)

    def _index_stmt(self, mod, node, prefix, cls, parent, top):
        if isinstance(node, (ast.FunctionDef, ast.AsyncFunctionDef)):
            q = f"{mod.name}:{prefix}{node.name}"
            fi = FuncInfo(q, node, mod, cls=cls, parent=parent)
            self.func_of_node[id(node)] = fi
            if cls is not None and fi.is_setter:
                fi.qname = q + ".setter"
                self.functions[fi.qname] = fi
                cls.setters[node.name] = fi
                cls.all_methods.setdefault(node.name, []).append(fi)
            else:
                # keep the *last* definition under the plain qname (Python
                # semantics), earlier ones under qname#k
                if q in self.functions:
                    k = 1
                    while f"{q}#{k}" in self.functions:
                        k += 1
                    old = self.functions[q]
                    old.qname = f"{q}#{k}"
                    self.functions[old.qname] = old
                self.functions[q] = fi
                if cls is not None:
                    cls.all_methods.setdefault(node.name, []).append(fi)
                    cls.methods[node.name] = fi
            if top and cls is None:
                mod.defs[node.name] = node
                mod.all_defs.setdefault(node.name, []).append(node)
            # nested
            self._index_nested(mod, node, f"{prefix}{node.name}.<locals>.", fi)
        elif isinstance(node, ast.ClassDef):
            q = f"{mod.name}:{prefix}{node.name}"
            ci = ClassInfo(q, node, mod)
            self.classes[q] = ci
            self.class_of_node[id(node)] = ci
            if top and cls is None:
                mod.defs[node.name] = node
                mod.all_defs.setdefault(node.name, []).append(node)
            for sub in node.body:
                if isinstance(sub, ast.Assign):
                    for t in sub.targets:
                        if isinstance(t, ast.Name):
                            ci.class_attrs[t.id] = sub.value
                elif isinstance(sub, ast.AnnAssign) and isinstance(sub.target, ast.Name) and sub.value is not None:
                    ci.class_attrs[sub.target.id] = sub.value
                self._index_stmt(mod, sub, f"{prefix}{node.name}.", ci, None, False)
        elif top and cls is None:
            if isinstance(node, ast.Assign):
                for t in node.targets:
                    for n in _target_names(t):
                        mod.defs[n] = node
                        mod.all_defs.setdefault(n, []).append(node)
            elif isinstance(node, ast.AnnAssign) and isinstance(node.target, ast.Name):
                mod.defs[node.target.id] = node
                mod.all_defs.setdefault(node.target.id, []).append(node)
            elif isinstance(node, (ast.If, ast.Try, ast.With, ast.For, ast.While)):
                for sub in _sub_bodies(node):
                    self._index_scope(mod, sub, prefix, cls, parent, top)

    def _index_nested(self, mod, fnode, prefix, parent_fi):
        # functions nested directly or indirectly (not through another def) in fnode
        def visit(n):
            for child in ast.iter_child_nodes(n):
                if isinstance(child, (ast.FunctionDef, ast.AsyncFunctionDef)):
                    q = f"{mod.name}:{prefix}{child.name}"
                    fi = FuncInfo(q, child, mod, cls=None, parent=parent_fi)
                    self.functions[q] = fi
                    self.func_of_node[id(child)] = fi
                    self._index_nested(mod, child, f"{prefix}{child.name}.<locals>.", fi)
                elif isinstance(child, ast.ClassDef):
                    # rare; index the class but not deeply
                    q = f"{mod.name}:{prefix}{child.name}"
                    ci = ClassInfo(q, child, mod)
                    self.classes[q] = ci
                    self.class_of_node[id(child)] = ci
                    for sub in child.body:
                        self._index_stmt(mod, sub, f"{prefix}{child.name}.", ci, None, False)
                elif isinstance(child, ast.Lambda):
                    visit(child)
                else:
                    visit(child)

        visit(fnode)

    # ---------------------------------------------------------- class linking
    def _link_classes(self):
        for ci in self.classes.values():
            for b in ci.node.bases:
                r = self.resolve_expr(ci.module, b)
                if r and r[0] == "class":
                    ci.bases.append(r[1])
                else:
                    try:
                        ci.bases.append(ast.unparse(b))
                    except Exception:
                        ci.bases.append("?")
        for ci in self.classes.values():
            ci.mro = self._c3(ci, set())
        for ci in self.classes.values():
            for b in ci.bases:
                if isinstance(b, ClassInfo):
                    b.subclasses.append(ci)

    def _c3(self, ci, seen):
        if ci in seen:
            return [ci]
        seen = seen | {ci}
        seqs = []
        for b in ci.bases:
            if isinstance(b, ClassInfo):
                seqs.append(list(self._c3(b, seen)))
        seqs.append([b for b in ci.bases if isinstance(b, ClassInfo)])
        out = [ci]
        while True:
            seqs = [s for s in seqs if s]
            if not seqs:
                return out
            for s in seqs:
                cand = s[0]
                if not any(cand in t[1:] for t in seqs):
                    break
            else:
                # inconsistent; fall back to simple order
                for s in seqs:
                    for c in s:
                        if c not in out:
                            out.append(c)
                return out
            out.append(cand)
            for s in seqs:
                if s and s[0] is cand:
                    del s[0]

    # ---------------------------------------------------------------- resolve
    def resolve_symbol(self, modname: str, symbol: str, _depth=0):
        """Resolve `symbol` as exported by module `modname`.

        Returns ('func', FuncInfo) | ('class', ClassInfo) | ('module', Module) |
        ('const', Module, name, node) | ('ext', dotted) | None
        """
        if _depth > 12:
            return None
        mod = self.modules.get(modname)
        if mod is None:
            # a submodule of an external package or an external symbol
            if modname.split(".")[0] == PKG:
                return None
            return ("ext", f"{modname}.{symbol}")
        # submodule?
        sub = f"{modname}.{symbol}"
        if symbol in mod.defs:
            node = mod.defs[symbol]
            if isinstance(node, (ast.FunctionDef, ast.AsyncFunctionDef)):
                return ("func", self.functions[f"{modname}:{symbol}"])
            if isinstance(node, ast.ClassDef):
                return ("class", self.classes[f"{modname}:{symbol}"])
            # alias assignment `a = b`?
            if isinstance(node, ast.Assign) and isinstance(node.value, ast.Name) and len(node.targets) == 1 \
                    and isinstance(node.targets[0], ast.Name):
                r = self.resolve_name(mod, node.value.id, _depth + 1)
                if r and r[0] in ("func", "class"):
                    return r
            return ("const", mod, symbol, node)
        if symbol in mod.imports:
            src, sym = mod.imports[symbol]
            if sym is None:
                if src in self.modules:
                    return ("module", self.modules[src])
                return ("ext", src)
            if f"{src}.{sym}" in self.modules and (src not in self.modules or sym not in self.modules[src].defs):
                return ("module", self.modules[f"{src}.{sym}"])
            return self.resolve_symbol(src, sym, _depth + 1)
        for src in mod.star_imports:
            if src in self.modules:
                r = self.resolve_symbol(src, symbol, _depth + 1)
                if r is not None:
                    return r
        if sub in self.modules:
            return ("module", self.modules[sub])
        return None

    def resolve_name(self, mod: Module, name: str, _depth=0):
        return self.resolve_symbol(mod.name, name, _depth)

    def resolve_expr(self, mod: Module, expr: ast.AST):
        """Resolve a Name or dotted Attribute chain to a program entity."""
        if isinstance(expr, ast.Name):
            return self.resolve_name(mod, expr.id)
        if isinstance(expr, ast.Attribute):
            base = self.resolve_expr(mod, expr.value)
            if base is None:
                return None
            if base[0] == "module":
                return self.resolve_symbol(base[1].name, expr.attr)
            if base[0] == "ext":
                return ("ext", f"{base[1]}.{expr.attr}")
            if base[0] == "class":
                m = base[1].lookup(expr.attr)
                if m is not None:
                    return ("func", m)
                ca = base[1].lookup_class_attr(expr.attr)
                if ca is not None:
                    return ("classattr", ca[0], expr.attr, ca[1])
            return None
        return None

    # ----------------------------------------------------------------- lookup
    def func(self, qname: str, rule: str = "anchor") -> FuncInfo:
        f = self.functions.get(qname)
        if f is None:
            raise AnalysisError(rule, qname, "function not found")
        return f

    def cls(self, qname: str, rule: str = "anchor") -> ClassInfo:
        c = self.classes.get(qname)
        if c is None:
            raise AnalysisError(rule, qname, "class not found")
        return c

    def module(self, name: str, rule: str = "anchor") -> Module:
        m = self.modules.get(name)
        if m is None:
            raise AnalysisError(rule, name, "module not found")
        return m

    def enclosing_function(self, node) -> Optional[FuncInfo]:
        p = getattr(node, "_parent", None)
        while p is not None:
            if id(p) in self.func_of_node:
                return self.func_of_node[id(p)]
            p = getattr(p, "_parent", None)
        return None

    def functions_in(self, modname: str) -> List[FuncInfo]:
        return [f for f in self.functions.values() if f.module.name == modname]

    def digests(self, modnames=None) -> Dict[str, str]:
        return {m.relpath: m.digest[:16] for n, m in sorted(self.modules.items())
                if modnames is None or n in modnames}


def _target_names(t) -> Iterator[str]:
    if isinstance(t, ast.Name):
        yield t.id
    elif isinstance(t, (ast.Tuple, ast.List)):
        for e in t.elts:
            yield from _target_names(e)
    elif isinstance(t, ast.Starred):
        yield from _target_names(t.value)


def _sub_bodies(node):
    for fld in ("body", "orelse", "finalbody"):
        b = getattr(node, fld, None)
        if b:
            yield b
    for h in getattr(node, "handlers", []) or []:
        yield h.body


def parent(node):
    return getattr(node, "_parent", None)


def own_nodes(fnode) -> Iterator[ast.AST]:
    """Walk the nodes of a function body without descending into nested
    function / class definitions (lambdas and comprehensions are included)."""
    todo = list(ast.iter_child_nodes(fnode))
    while todo:
        n = todo.pop()
        yield n
        if isinstance(n, (ast.FunctionDef, ast.AsyncFunctionDef, ast.ClassDef)):
            continue
        todo.extend(ast.iter_child_nodes(n))


def own_statements(body) -> Iterator[ast.stmt]:
    for s in body:
        yield s
        if isinstance(s, (ast.FunctionDef, ast.AsyncFunctionDef, ast.ClassDef)):
            continue
        for sub in _sub_bodies(s):
            yield from own_statements(sub)
        if isinstance(s, ast.Match):
            for c in s.cases:
                yield from own_statements(c.body)


def norm(node) -> str:
    try:
        return ast.unparse(node)
    except Exception:
        return "<?>"
