"""Regex and str.format template skeletons (F5b)."""
from __future__ import annotations

import re
import string
from typing import List, Tuple

try:
    import re._parser as sre_parse  # py311+
    import re._constants as sre_c
except ImportError:  # pragma: no cover
    import sre_parse
    import sre_constants as sre_c


def regex_skeleton(pattern: str) -> List[Tuple[str, str]]:
    """[('lit', text) | ('group', name-or-index) | ('any', '')] at top level, in order."""
    tree = sre_parse.parse(pattern)
    names = {v: k for k, v in tree.state.groupdict.items()}
    out: List[Tuple[str, str]] = []

    def lit(ch):
        if out and out[-1][0] == "lit":
            out[-1] = ("lit", out[-1][1] + ch)
        else:
            out.append(("lit", ch))

    def walk(items, top):
        for op, av in items:
            if op is sre_c.LITERAL:
                if top:
                    lit(chr(av))
            elif op is sre_c.SUBPATTERN:
                gid = av[0]
                if top and gid is not None:
                    out.append(("group", names.get(gid, str(gid))))
                    # nested named groups are reported too (flattened)
                    walk(av[3], False)
                elif top:
                    walk(av[3], True)
                else:
                    if gid is not None:
                        out.append(("group", names.get(gid, str(gid))))
                    walk(av[3], False)
            elif op in (sre_c.MAX_REPEAT, sre_c.MIN_REPEAT):
                if top:
                    out.append(("any", ""))
                walk(av[2], False)
            elif op is sre_c.BRANCH:
                if top:
                    out.append(("any", ""))
                for alt in av[1]:
                    walk(alt, False)
            else:
                if top:
                    out.append(("any", ""))
    walk(tree, True)
    return out


def regex_groups(pattern: str) -> List[str]:
    """Named/numbered capture groups in order of opening parenthesis."""
    c = re.compile(pattern)
    idx = {v: k for k, v in c.groupindex.items()}
    return [idx.get(i, str(i)) for i in range(1, c.groups + 1)]


def template_skeleton(tmpl: str) -> List[Tuple[str, str]]:
    out = []
    for literal, field, spec, conv in string.Formatter().parse(tmpl):
        if literal:
            out.append(("lit", literal))
        if field is not None:
            out.append(("field", field))
    return out


def literal_text(skel, strip="[]") -> str:
    """Concatenated literal text with bracket characters removed (formatters such as
    format_list add their own brackets)."""
    s = "".join(t for k, t in skel if k == "lit")
    for ch in strip:
        s = s.replace(ch, "")
    return s
