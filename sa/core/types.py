"""Small flow-sensitive type inference for receivers (who is `x` in `x.m()`?).

A type is a frozenset of atoms; the atom '?' means "anything else", so a type
is *definite* only if it does not contain '?'.  Atoms:

  ('inst', class_qname)          instance of a repo class
  ('cls', class_qname)           the class object itself
  ('list', T) ('set', T) ('iter', T)   homogeneous containers / iterators, T a type
  ('dict', K, V)
  ('tuple', (T1,...,Tn))         fixed tuple;  ('tuple', None) unknown arity
  ('b', name)                    builtin / external kind: 'int','float','str','bool','none',
                                 'ndarray','bytes', 'ext:<dotted>' ...
  ('func', func_qname)           a repo function object (for aliases)
  ('bound', func_qname, recvT)   a bound method
  ('mod', module_name)
"""
from __future__ import annotations

import ast
from typing import Dict, FrozenSet, List, Optional, Tuple

from .program import ClassInfo, FuncInfo, Module, Program, own_nodes
from .cfg import CFG, N, _names_stored

T = FrozenSet
UNK: T = frozenset({"?"})
NONE: T = frozenset({("b", "none")})
EMPTY: T = frozenset()


def inst(ci: ClassInfo) -> T:
    return frozenset({("inst", ci.qname)})


def b(name: str) -> T:
    return frozenset({("b", name)})


def join(*ts: T) -> T:
    out = set()
    for t in ts:
        out |= t
    if len(out) > 24:
        return UNK
    return frozenset(out)


def definite(t: T) -> bool:
    return bool(t) and "?" not in t


# names of generic accessors whose element type is their first (class) argument
GENERIC_ITER = {"iter_all", "iter_starting", "iter_ending", "iter_prev", "iter_next"}
GENERIC_ONE = {"get_prev_of_type", "get_next_of_type"}
GENERIC_LIST = {"get_starting_objects_of_type", "get_ending_objects_of_type"}


class Infer:
    def __init__(self, prog: Program):
        self.prog = prog
        self._ret: Dict[str, T] = {}
        self._ret_stack: set = set()
        self._field: Dict[Tuple[str, str], T] = {}
        self._field_stack: set = set()
        self._envs: Dict[str, Dict[int, Dict[str, T]]] = {}
        self._cfgs: Dict[str, CFG] = {}
        self._env_stack: set = set()
        self._timed = prog.classes.get("partitura.score:TimedObject")
        self._cs_types: Dict[Tuple[str, str], T] = {}
        self._doc: Dict[str, Dict[str, T]] = {}
        self.weak_calls = 0
        self._method_index: Dict[str, List[FuncInfo]] = {}
        for ci in prog.classes.values():
            for name, m in ci.methods.items():
                self._method_index.setdefault(name, []).append(m)

    # ------------------------------------------------------------ annotations
    def ann_type(self, node, mod: Module, depth=0) -> T:
        if node is None or depth > 6:
            return UNK
        if isinstance(node, ast.Constant):
            if node.value is None:
                return NONE
            if isinstance(node.value, str):
                try:
                    return self.ann_type(ast.parse(node.value, mode="eval").body, mod, depth + 1)
                except SyntaxError:
                    return UNK
            return UNK
        if isinstance(node, (ast.Name, ast.Attribute)):
            txt = ast.unparse(node)
            simple = {"int": "int", "float": "float", "str": "str", "bool": "bool", "bytes": "bytes",
                      "np.ndarray": "ndarray", "numpy.ndarray": "ndarray", "np.array": "ndarray"}
            if txt in simple:
                return b(simple[txt])
            if txt in ("list", "List", "Iterable", "Iterator", "tuple", "Tuple", "dict", "Dict", "set",
                       "Any", "Callable", "object", "PathLike"):
                return UNK
            r = self.prog.resolve_expr(mod, node)
            if r is None:
                return UNK
            if r[0] == "class":
                return inst(r[1])
            if r[0] == "const":
                n = r[3]
                val = n.value if isinstance(n, (ast.Assign, ast.AnnAssign)) else None
                if val is not None:
                    return self.ann_type(val, r[1], depth + 1)
            return UNK
        if isinstance(node, ast.Subscript):
            head = ast.unparse(node.value).split(".")[-1]
            sl = node.slice
            elts = sl.elts if isinstance(sl, ast.Tuple) else [sl]
            if head == "Union":
                return join(*[self.ann_type(e, mod, depth + 1) for e in elts])
            if head == "Optional":
                return join(self.ann_type(elts[0], mod, depth + 1), NONE)
            if head in ("List", "list", "Sequence"):
                return frozenset({("list", self.ann_type(elts[0], mod, depth + 1))})
            if head in ("Iterable", "Iterator", "Itertype", "Generator"):
                return frozenset({("iter", self.ann_type(elts[0], mod, depth + 1))})
            if head in ("Set", "set"):
                return frozenset({("set", self.ann_type(elts[0], mod, depth + 1))})
            if head in ("Dict", "dict") and len(elts) == 2:
                return frozenset({("dict", self.ann_type(elts[0], mod, depth + 1),
                                   self.ann_type(elts[1], mod, depth + 1))})
            if head in ("Tuple", "tuple"):
                if len(elts) == 2 and isinstance(elts[1], ast.Constant) and elts[1].value is Ellipsis:
                    return frozenset({("tuple", None)})
                return frozenset({("tuple", tuple(self.ann_type(e, mod, depth + 1) for e in elts))})
            return UNK
        if isinstance(node, ast.BinOp) and isinstance(node.op, ast.BitOr):
            return join(self.ann_type(node.left, mod, depth + 1), self.ann_type(node.right, mod, depth + 1))
        return UNK

    # -------------------------------------------------------------- docstrings
    _DOC_BUILTIN = {"int": "int", "float": "float", "str": "str", "string": "str", "bool": "bool",
                    "ndarray": "ndarray", "array": "ndarray", "number": "float", "None": "none"}

    def doc_param_types(self, f: FuncInfo) -> Dict[str, T]:
        if f.qname in self._doc:
            return self._doc[f.qname]
        out: Dict[str, T] = {}
        doc = ast.get_docstring(f.node, clean=True) if not isinstance(f.node, ast.Lambda) else None
        if doc:
            import re
            lines = doc.split("\n")
            in_params = False
            for i, ln in enumerate(lines):
                if ln.strip() in ("Parameters", "Other Parameters") and i + 1 < len(lines) and set(lines[i + 1].strip()) == {"-"}:
                    in_params = True
                    continue
                if in_params and ln.strip() in ("Returns", "Yields", "Raises", "Notes", "Examples", "See Also",
                                                "References", "Attributes", "Warns"):
                    in_params = False
                m = re.match(r"^(\w+)\s*:\s*(.+)$", ln) if in_params and not ln.startswith(" ") else None
                if not m:
                    continue
                name, text = m.group(1), m.group(2)
                atoms = set()
                is_list = bool(re.search(r"\b(list|List|iterable|sequence) of\b", text))
                for tok in re.findall(r"[A-Za-z_][A-Za-z_0-9.]*", text):
                    base = tok.split(".")[-1]
                    r = None
                    for modname in (f.module.name, "partitura.score", "partitura.performance"):
                        r = self.prog.resolve_symbol(modname, base)
                        if r is not None:
                            break
                    if r and r[0] == "class":
                        atoms.add(("inst", r[1].qname))
                    elif r and r[0] == "const" and base in ("ScoreLike", "PerformanceLike"):
                        n = r[3]
                        atoms |= self.ann_type(n.value, r[1])
                    elif base in self._DOC_BUILTIN:
                        atoms.add(("b", self._DOC_BUILTIN[base]))
                    elif base in ("list", "List") and not is_list:
                        atoms.add(("list", UNK))
                if any(a[0] == "inst" or (a[0] == "list" and a[1] != UNK) for a in atoms if a != "?"):
                    atoms.discard("?")
                    insts = frozenset(a for a in atoms if a[0] == "inst")
                    if is_list:
                        atoms = {a for a in atoms if a[0] != "inst"} | {("list", insts)}
                        if re.search(r"\bor\b|,", text):
                            atoms |= set(insts)
                    out[name] = frozenset(atoms)
        self._doc[f.qname] = out
        return out

    # ------------------------------------------------------------------ cfg/env
    def cfg(self, f: FuncInfo) -> CFG:
        c = self._cfgs.get(f.qname)
        if c is None:
            c = self._cfgs[f.qname] = CFG(f.node)
        return c

    def param_types(self, f: FuncInfo) -> Dict[str, T]:
        env: Dict[str, T] = {}
        a = f.node.args
        allargs = a.posonlyargs + a.args + a.kwonlyargs
        doc = None
        for i, arg in enumerate(allargs):
            t = self.ann_type(arg.annotation, f.module) if arg.annotation is not None else UNK
            if not definite(t):
                if doc is None:
                    doc = self.doc_param_types(f)
                t = doc.get(arg.arg, UNK)
            if not definite(t):
                t = self._cs_types.get((f.qname, arg.arg), UNK)
            env[arg.arg] = t
        if f.cls is not None and not f.is_static and (a.posonlyargs + a.args):
            first = (a.posonlyargs + a.args)[0].arg
            if f.is_classmethod:
                env[first] = frozenset({("cls", f.cls.qname)})
            else:
                env[first] = inst(f.cls)
        if a.vararg:
            env[a.vararg.arg] = frozenset({("tuple", None)})
        if a.kwarg:
            env[a.kwarg.arg] = frozenset({("dict", b("str"), UNK)})
        # enclosing function's variables are visible in nested functions: handled in name lookup
        return env

    def envs(self, f: FuncInfo) -> Dict[int, Dict[str, T]]:
        """IN environment per CFG node id."""
        if f.qname in self._envs:
            return self._envs[f.qname]
        if f.qname in self._env_stack:
            return {}
        self._env_stack.add(f.qname)
        try:
            res = self._solve(f)
        finally:
            self._env_stack.discard(f.qname)
        self._envs[f.qname] = res
        return res

    def _solve(self, f: FuncInfo):
        cfg = self.cfg(f)
        IN: Dict[int, Dict[str, T]] = {n.id: None for n in cfg.nodes}
        IN[cfg.entry.id] = self.param_types(f)
        work = [cfg.entry]
        iters = 0
        while work and iters < 4000:
            iters += 1
            n = work.pop()
            env = IN[n.id]
            if env is None:
                continue
            for m, label in n.succ:
                out = self._transfer(f, n, env, label)
                old = IN[m.id]
                if old is None:
                    IN[m.id] = out
                    work.append(m)
                else:
                    merged = _merge(old, out)
                    if merged != old:
                        IN[m.id] = merged
                        work.append(m)
        return {k: (v if v is not None else {}) for k, v in IN.items()}

    def _transfer(self, f, n: N, env: Dict[str, T], label: str) -> Dict[str, T]:
        a = n.ast
        if n.kind == "stmt":
            if isinstance(a, ast.Assign):
                vt = self.expr(f, a.value, env)
                env2 = dict(env)
                for t in a.targets:
                    self._bind(t, vt, env2)
                return env2
            if isinstance(a, ast.AnnAssign) and a.value is not None and isinstance(a.target, ast.Name):
                env2 = dict(env)
                env2[a.target.id] = self.expr(f, a.value, env)
                return env2
            if isinstance(a, ast.AugAssign) and isinstance(a.target, ast.Name):
                env2 = dict(env)
                cur = env.get(a.target.id, UNK)
                # list += ... stays a list; numbers stay numbers; otherwise unknown
                if definite(cur) and all(x[0] in ("list", "b") for x in cur):
                    env2[a.target.id] = cur
                else:
                    env2[a.target.id] = UNK
                return env2
            if isinstance(a, (ast.Import, ast.ImportFrom)):
                return env
            return env
        if n.kind == "for":
            if label == "T":
                it = self.expr(f, a.iter, env)
                env2 = dict(env)
                self._bind(a.target, self.elem(it), env2)
                return env2
            return env
        if n.kind == "with":
            env2 = dict(env)
            for item in a.items:
                if item.optional_vars is not None:
                    self._bind(item.optional_vars, UNK, env2)
            return env2
        if n.kind == "except":
            if a.name:
                env2 = dict(env)
                env2[a.name] = UNK
                return env2
            return env
        if n.kind == "def":
            env2 = dict(env)
            fi = self.prog.func_of_node.get(id(a))
            env2[a.name] = frozenset({("func", fi.qname)}) if fi else UNK
            return env2
        if n.kind == "test" and label in ("T", "F"):
            return self._narrow(f, a, env, label == "T")
        return env

    def _bind(self, target, vt: T, env):
        if isinstance(target, ast.Name):
            env[target.id] = vt
        elif isinstance(target, (ast.Tuple, ast.List)):
            parts = None
            if definite(vt) and len(vt) == 1:
                (atom,) = vt
                if atom[0] == "tuple" and atom[1] is not None and len(atom[1]) == len(target.elts):
                    parts = atom[1]
            for i, e in enumerate(target.elts):
                if isinstance(e, ast.Starred):
                    self._bind(e.value, UNK, env)
                else:
                    self._bind(e, parts[i] if parts else (self.elem(vt) if _homog(vt) else UNK), env)

    def _narrow(self, f, test, env, positive: bool):
        # isinstance(x, C) / not isinstance / x is None / x is not None / and / or
        if isinstance(test, ast.UnaryOp) and isinstance(test.op, ast.Not):
            return self._narrow(f, test.operand, env, not positive)
        if isinstance(test, ast.BoolOp):
            if isinstance(test.op, ast.And) and positive:
                for v in test.values:
                    env = self._narrow(f, v, env, True)
                return env
            if isinstance(test.op, ast.Or) and not positive:
                for v in test.values:
                    env = self._narrow(f, v, env, False)
                return env
            return env
        if isinstance(test, ast.Call) and isinstance(test.func, ast.Name) and test.func.id == "isinstance" \
                and len(test.args) == 2 and isinstance(test.args[0], ast.Name):
            name = test.args[0].id
            cur = env.get(name, self._outer_name(f, name))
            ct = self._class_arg(f, test.args[1])
            if ct is None:
                return env
            env2 = dict(env)
            if positive:
                if definite(cur):
                    kept = frozenset(x for x in cur if self._atom_matches(x, ct) is not False)
                    # narrow to the subclass side where possible
                    narrowed = set()
                    for x in kept:
                        m = self._atom_matches(x, ct)
                        if m is True:
                            narrowed.add(x)
                        else:  # 'maybe': x is a superclass of some target -> use the target
                            for c in ct:
                                if c[0] == "inst" and x[0] == "inst" and \
                                        self.prog.classes[x[1]] in self.prog.classes[c[1]].mro:
                                    narrowed.add(c)
                    env2[name] = frozenset(narrowed) if narrowed else frozenset(ct)
                else:
                    env2[name] = frozenset(ct)
            else:
                if definite(cur):
                    rest = frozenset(x for x in cur if self._atom_matches(x, ct) is not True)
                    env2[name] = rest if rest else cur
            return env2
        if isinstance(test, ast.Compare) and len(test.ops) == 1 and isinstance(test.left, ast.Name) \
                and isinstance(test.comparators[0], ast.Constant) and test.comparators[0].value is None:
            name = test.left.id
            cur = env.get(name)
            if cur is None or not definite(cur):
                return env
            is_none = isinstance(test.ops[0], (ast.Is, ast.Eq))
            env2 = dict(env)
            if is_none == positive:
                env2[name] = NONE
            else:
                rest = frozenset(x for x in cur if x != ("b", "none"))
                env2[name] = rest if rest else cur
            return env2
        return env

    def _class_arg(self, f, node) -> Optional[List[tuple]]:
        elts = node.elts if isinstance(node, ast.Tuple) else [node]
        out = []
        for e in elts:
            txt = ast.unparse(e)
            builtin = {"list": ("list", UNK), "tuple": ("tuple", None), "set": ("set", UNK),
                       "dict": ("dict", UNK, UNK), "str": ("b", "str"), "int": ("b", "int"),
                       "float": ("b", "float"), "np.ndarray": ("b", "ndarray"), "bool": ("b", "bool"),
                       "numpy.ndarray": ("b", "ndarray")}
            if txt in builtin:
                out.append(builtin[txt])
                continue
            r = self.prog.resolve_expr(f.module, e)
            if r and r[0] == "class":
                out.append(("inst", r[1].qname))
            else:
                return None
        return out

    def _atom_matches(self, atom, targets):
        """True: atom is certainly an instance of one target; False: certainly not; 'maybe' otherwise."""
        res = False
        for t in targets:
            if atom[0] == "inst" and t[0] == "inst":
                ac, tc = self.prog.classes.get(atom[1]), self.prog.classes.get(t[1])
                if ac is None or tc is None:
                    return "maybe"
                if tc in ac.mro:
                    return True
                if ac in tc.mro:
                    res = "maybe"
            elif atom[0] == t[0] and atom[0] in ("list", "set", "dict", "tuple"):
                return True
            elif atom[0] == "b" and t[0] == "b":
                if atom[1] == t[1] or (atom[1] == "bool" and t[1] == "int"):
                    return True
            elif atom == "?":
                res = "maybe"
        return res

    # -------------------------------------------------------------- expressions
    def env_at(self, f: FuncInfo, node) -> Dict[str, T]:
        """Environment in force at the CFG node that evaluates `node`."""
        cfg = self.cfg(f)
        p = node
        while p is not None and p is not f.node:
            n = cfg.of_stmt.get(id(p))
            if n is not None:
                return self.envs(f).get(n.id, {})
            p = getattr(p, "_parent", None)
        return {}

    def type_at(self, f: FuncInfo, expr) -> T:
        env = dict(self.env_at(f, expr))
        # comprehension / lambda variables between expr and its statement
        chain = []
        p = getattr(expr, "_parent", None)
        while p is not None and not isinstance(p, ast.stmt):
            chain.append(p)
            p = getattr(p, "_parent", None)
        for c in reversed(chain):
            if isinstance(c, (ast.ListComp, ast.SetComp, ast.GeneratorExp, ast.DictComp)):
                for g in c.generators:
                    if _contains(g.iter, expr):
                        break
                    self._bind(g.target, self.elem(self.expr(f, g.iter, env)), env)
            elif isinstance(c, ast.Lambda):
                for a in c.args.args:
                    env[a.arg] = UNK
        return self.expr(f, expr, env)

    def _outer_name(self, f: FuncInfo, name: str) -> T:
        # enclosing functions (closure), then module level
        p = f.parent
        while p is not None:
            if name in p.all_params or name in _assigned_names(p.node):
                # flow-insensitive union over assignments in the enclosing function
                return self._flow_insensitive(p, name)
            p = p.parent
        r = self.prog.resolve_name(f.module, name)
        if r is None:
            return UNK
        if r[0] == "class":
            return frozenset({("cls", r[1].qname)})
        if r[0] == "func":
            return frozenset({("func", r[1].qname)})
        if r[0] == "module":
            return frozenset({("mod", r[1].name)})
        if r[0] == "ext":
            return frozenset({("b", "ext:" + r[1])})
        return UNK

    def _flow_insensitive(self, f: FuncInfo, name: str) -> T:
        envs = self.envs(f)
        ts = []
        pt = self.param_types(f)
        if name in pt:
            ts.append(pt[name])
        for nid, env in envs.items():
            if name in env:
                ts.append(env[name])
        # also OUT of last assignments: approximate by evaluating each assignment
        return join(*ts) if ts else UNK

    def expr(self, f: FuncInfo, e, env: Dict[str, T], depth=0) -> T:
        if depth > 8:
            return UNK
        ex = lambda x: self.expr(f, x, env, depth + 1)
        if isinstance(e, ast.Name):
            if e.id in env:
                return env[e.id]
            if e.id in ("True", "False"):
                return b("bool")
            return self._outer_name(f, e.id)
        if isinstance(e, ast.Constant):
            v = e.value
            if v is None:
                return NONE
            return b(type(v).__name__)
        if isinstance(e, ast.JoinedStr):
            return b("str")
        if isinstance(e, (ast.List, ast.ListComp)):
            if isinstance(e, ast.List):
                et = join(*[ex(x) for x in e.elts if not isinstance(x, ast.Starred)]) if e.elts else EMPTY
                if any(isinstance(x, ast.Starred) for x in e.elts):
                    et = join(et, *[self.elem(ex(x.value)) for x in e.elts if isinstance(x, ast.Starred)])
                return frozenset({("list", et)})
            return frozenset({("list", self._comp_elem(f, e, env, depth))})
        if isinstance(e, (ast.Set, ast.SetComp)):
            if isinstance(e, ast.Set):
                return frozenset({("set", join(*[ex(x) for x in e.elts]))})
            return frozenset({("set", self._comp_elem(f, e, env, depth))})
        if isinstance(e, ast.GeneratorExp):
            return frozenset({("iter", self._comp_elem(f, e, env, depth))})
        if isinstance(e, (ast.Dict, ast.DictComp)):
            if isinstance(e, ast.Dict):
                ks = join(*[ex(k) for k in e.keys if k is not None]) if e.keys else EMPTY
                vs = join(*[ex(v) for v in e.values]) if e.values else EMPTY
                return frozenset({("dict", ks, vs)})
            return frozenset({("dict", UNK, UNK)})
        if isinstance(e, ast.Tuple):
            if any(isinstance(x, ast.Starred) for x in e.elts):
                return frozenset({("tuple", None)})
            return frozenset({("tuple", tuple(ex(x) for x in e.elts))})
        if isinstance(e, ast.IfExp):
            return join(ex(e.body), ex(e.orelse))
        if isinstance(e, ast.BoolOp):
            return join(*[ex(v) for v in e.values])
        if isinstance(e, ast.Compare):
            return UNK  # may be an ndarray
        if isinstance(e, ast.UnaryOp):
            if isinstance(e.op, ast.Not):
                return b("bool")
            return ex(e.operand)
        if isinstance(e, ast.BinOp):
            l, r = ex(e.left), ex(e.right)
            if definite(l) and definite(r):
                kinds = {x[0] if x[0] != "b" else x[1] for x in l | r}
                if kinds <= {"int", "bool"} and not isinstance(e.op, ast.Div):
                    return b("int")
                if kinds <= {"int", "float", "bool"}:
                    return b("float")
                if kinds == {"str"}:
                    return b("str")
                if kinds == {"list"} and isinstance(e.op, ast.Add):
                    return join(l, r)
                if "ndarray" in kinds and kinds <= {"ndarray", "int", "float", "bool"}:
                    return b("ndarray")
            return UNK
        if isinstance(e, ast.Attribute):
            return self._attr(f, e, ex(e.value), depth)
        if isinstance(e, ast.Subscript):
            base = ex(e.value)
            return self._subscript(f, e, base, env, depth)
        if isinstance(e, ast.Call):
            return self._call(f, e, env, depth)
        if isinstance(e, ast.Lambda):
            return UNK
        if isinstance(e, ast.Starred):
            return UNK
        if isinstance(e, ast.NamedExpr):
            return ex(e.value)
        return UNK

    def _comp_elem(self, f, e, env, depth):
        env2 = dict(env)
        for g in e.generators:
            self._bind(g.target, self.elem(self.expr(f, g.iter, env2, depth + 1)), env2)
            for c in g.ifs:
                env2 = self._narrow(f, c, env2, True)
        return self.expr(f, e.elt, env2, depth + 1)

    def elem(self, t: T) -> T:
        if not definite(t):
            return UNK
        out = []
        for a in t:
            if a[0] in ("list", "set", "iter"):
                out.append(a[1] if a[1] else UNK)
            elif a[0] == "dict":
                out.append(a[1] if a[1] else UNK)
            elif a[0] == "tuple":
                if a[1] is None:
                    return UNK
                out.append(join(*a[1]) if a[1] else UNK)
            elif a[0] == "inst":
                ci = self.prog.classes.get(a[1])
                it = ci.lookup("__iter__") if ci else None
                if it is None:
                    return UNK
                rt = self.ret_type(it, recv=frozenset({a}))
                if rt == frozenset({a}):  # returns self: use __next__
                    nx = ci.lookup("__next__")
                    if nx is None:
                        return UNK
                    out.append(self.ret_type(nx, recv=frozenset({a})))
                else:
                    out.append(self.elem(rt))
            elif a == ("b", "str"):
                out.append(b("str"))
            else:
                return UNK
        return join(*out) if out else UNK

    def _subscript(self, f, e, base: T, env, depth) -> T:
        if not definite(base):
            return UNK
        out = []
        for a in base:
            if a[0] == "list":
                if isinstance(e.slice, ast.Slice):
                    out.append(frozenset({a}))
                else:
                    out.append(a[1] if a[1] else UNK)
            elif a[0] == "dict":
                out.append(a[2] if a[2] else UNK)
            elif a[0] == "tuple":
                if a[1] is not None and isinstance(e.slice, ast.Constant) and isinstance(e.slice.value, int) \
                        and -len(a[1]) <= e.slice.value < len(a[1]):
                    out.append(a[1][e.slice.value])
                else:
                    return UNK
            elif a[0] == "inst":
                ci = self.prog.classes.get(a[1])
                gi = ci.lookup("__getitem__") if ci else None
                if gi is None:
                    return UNK
                out.append(self.ret_type(gi, recv=frozenset({a})))
            elif a == ("b", "str"):
                out.append(b("str"))
            else:
                return UNK
        return join(*out) if out else UNK

    def _attr(self, f, e: ast.Attribute, base: T, depth) -> T:
        if not definite(base):
            # module / class path resolution (e.g. score.Part)
            r = self.prog.resolve_expr(f.module, e)
            if r:
                if r[0] == "class":
                    return frozenset({("cls", r[1].qname)})
                if r[0] == "func":
                    return frozenset({("func", r[1].qname)})
                if r[0] == "module":
                    return frozenset({("mod", r[1].name)})
                if r[0] == "ext":
                    return frozenset({("b", "ext:" + r[1])})
            return UNK
        out = []
        insts = [a for a in base if a[0] == "inst"]
        if len(base) > 1 and insts:
            having = [a for a in insts if self._has_attr(self.prog.classes[a[1]], e.attr)]
            if having:
                # an attribute access that succeeds rules out the alternatives lacking it
                base = frozenset(a for a in base if a[0] != "inst" and a[0] not in ("list", "set", "dict", "tuple", "b") or a in having) or base
        for a in base:
            if a[0] == "inst":
                out.append(self.attr_of_class(self.prog.classes[a[1]], e.attr, frozenset({a})))
            elif a[0] == "cls":
                ci = self.prog.classes[a[1]]
                m = ci.lookup(e.attr)
                if m is not None:
                    out.append(frozenset({("func", m.qname)}) if not m.is_classmethod
                               else frozenset({("bound", m.qname, frozenset({a}))}))
                else:
                    out.append(UNK)
            elif a[0] == "super":
                ci = self.prog.classes[a[1]]
                m = None
                for c in ci.mro[1:]:
                    if e.attr in c.methods:
                        m = c.methods[e.attr]
                        break
                out.append(frozenset({("bound", m.qname, inst(ci))}) if m is not None else UNK)
            elif a[0] == "mod":
                r = self.prog.resolve_symbol(a[1], e.attr)
                if r and r[0] == "class":
                    out.append(frozenset({("cls", r[1].qname)}))
                elif r and r[0] == "func":
                    out.append(frozenset({("func", r[1].qname)}))
                elif r and r[0] == "module":
                    out.append(frozenset({("mod", r[1].name)}))
                elif r and r[0] == "ext":
                    out.append(frozenset({("b", "ext:" + r[1])}))
                else:
                    out.append(UNK)
            elif a[0] == "b" and a[1].startswith("ext:"):
                out.append(frozenset({("b", a[1] + "." + e.attr)}))
            elif a[0] in ("list", "dict", "set", "tuple", "iter") or a[0] == "b":
                out.append(frozenset({("bmeth", e.attr, frozenset({a}))}))
            else:
                out.append(UNK)
        return join(*out) if out else UNK

    def _has_attr(self, ci: ClassInfo, attr: str) -> bool:
        if ci.lookup(attr) is not None or ci.lookup_class_attr(attr) is not None:
            return True
        return attr in self.instance_attrs(ci)

    def instance_attrs(self, ci: ClassInfo) -> set:
        key = ci.qname
        cache = self.__dict__.setdefault("_iattrs", {})
        if key in cache:
            return cache[key]
        out = set()
        for c in ci.mro:
            for ms in c.all_methods.values():
                for m in ms:
                    if not m.params or m.is_static:
                        continue
                    sn = m.params[0]
                    for n in own_nodes(m.node):
                        if isinstance(n, ast.Attribute) and isinstance(n.ctx, ast.Store) \
                                and isinstance(n.value, ast.Name) and n.value.id == sn:
                            out.add(n.attr)
        cache[key] = out
        return out

    def attr_of_class(self, ci: ClassInfo, attr: str, recv: T) -> T:
        m = ci.lookup(attr)
        if m is not None:
            if m.is_property:
                return self.ret_type(m, recv=recv)
            return frozenset({("bound", m.qname, recv)})
        return self.field_type(ci, attr)

    def field_type(self, ci: ClassInfo, attr: str) -> T:
        key = (ci.qname, attr)
        if key in self._field:
            return self._field[key]
        if key in self._field_stack:
            return UNK
        self._field_stack.add(key)
        try:
            ts = []
            found = False
            for c in ci.mro:
                for ms in c.all_methods.values():
                    for m in ms:
                        params = m.params
                        if not params or m.is_static:
                            continue
                        selfname = params[0]
                        for n in own_nodes(m.node):
                            tgt = None
                            if isinstance(n, ast.Assign):
                                for t in n.targets:
                                    if _is_self_attr(t, selfname, attr):
                                        tgt = n.value
                            elif isinstance(n, ast.AnnAssign) and _is_self_attr(n.target, selfname, attr):
                                if n.annotation is not None:
                                    ts.append(self.ann_type(n.annotation, m.module))
                                    found = True
                                tgt = None
                            if tgt is not None:
                                found = True
                                ts.append(self.type_at(m, tgt))
                ca = c.class_attrs.get(attr)
                if ca is not None:
                    found = True
                    ts.append(UNK)
            res = join(*ts) if found and ts else UNK
            # None-initialised fields that are later assigned elsewhere: not definite
            if res == NONE:
                res = UNK
            elif ("b", "none") in res:
                res = frozenset(res)
        finally:
            self._field_stack.discard(key)
        self._field[key] = res
        return res

    # -------------------------------------------------------------------- calls
    def ret_type(self, fi: FuncInfo, recv: T = None, call: ast.Call = None, caller: FuncInfo = None,
                 env=None) -> T:
        if fi.node.returns is not None and not getattr(self, "deep", False):
            t = self.ann_type(fi.node.returns, fi.module)
            if definite(t):
                return t
        key = fi.qname
        if key in self._ret:
            return self._ret[key]
        if key in self._ret_stack:
            return UNK
        self._ret_stack.add(key)
        try:
            rets, yields = [], []
            for n in own_nodes(fi.node):
                if isinstance(n, ast.Return):
                    rets.append(self.type_at(fi, n.value) if n.value is not None else NONE)
                elif isinstance(n, ast.Yield):
                    yields.append(self.type_at(fi, n.value) if n.value is not None else NONE)
                elif isinstance(n, ast.YieldFrom):
                    yields.append(self.elem(self.type_at(fi, n.value)))
            if yields:
                res = frozenset({("iter", join(*yields))})
            elif rets:
                res = join(*rets)
                # implicit fall-through None is ignored (rarely meaningful for receivers)
            else:
                res = NONE
        finally:
            self._ret_stack.discard(key)
        self._ret[key] = res
        return res

    def callee(self, f: FuncInfo, call: ast.Call, env=None) -> List[Tuple[str, object, T]]:
        """Resolve the callee(s) of a call: list of (kind, target, recvT) with kind in
        'func' (FuncInfo), 'ctor' (ClassInfo), 'builtin' (name), 'bmeth' (name), 'ext' (dotted)."""
        env = env if env is not None else self._env_for(f, call)
        ft = self.expr(f, call.func, env)
        out = []
        if isinstance(call.func, ast.Name) and call.func.id not in env:
            r = self.prog.resolve_name(f.module, call.func.id)
            if r is None and self._outer_name(f, call.func.id) == UNK:
                import builtins
                if hasattr(builtins, call.func.id):
                    return [("builtin", call.func.id, None)]
        if not definite(ft):
            return self._weak_callee(f, call, env)
        for a in ft:
            if a[0] == "func":
                out.append(("func", self.prog.functions[a[1]], None))
            elif a[0] == "bound":
                out.append(("func", self.prog.functions[a[1]], a[2]))
            elif a[0] == "cls":
                out.append(("ctor", self.prog.classes[a[1]], None))
            elif a[0] == "bmeth":
                out.append(("bmeth", a[1], a[2]))
            elif a[0] == "b" and a[1].startswith("ext:"):
                out.append(("ext", a[1][4:], None))
            elif a[0] == "inst":
                ci = self.prog.classes[a[1]]
                m = ci.lookup("__call__")
                if m:
                    out.append(("func", m, frozenset({a})))
                else:
                    return []
            else:
                return []
        return out

    def build_callsite_types(self, rounds: int = 2):
        """Parameter types of undocumented helpers from the arguments passed at
        every resolved call site inside the package (union over call sites)."""
        for _ in range(rounds):
            acc: Dict[Tuple[str, str], List[T]] = {}
            for f in list(self.prog.functions.values()):
                for n in own_nodes(f.node):
                    if not isinstance(n, ast.Call):
                        continue
                    tg = self.callee(f, n)
                    if len(tg) != 1 or tg[0][0] not in ("func", "ctor"):
                        continue
                    kind, g, recv = tg[0]
                    if kind == "ctor":
                        g = g.lookup("__init__")
                        if g is None:
                            continue
                        skip = 1
                    else:
                        skip = 1 if (recv is not None and not g.is_static) else 0
                        if g.is_classmethod:
                            skip = 1
                    params = g.params[skip:]
                    if any(isinstance(a, ast.Starred) for a in n.args):
                        continue
                    env = None
                    for i, a in enumerate(n.args):
                        if i < len(params):
                            acc.setdefault((g.qname, params[i]), []).append(self.type_at(f, a))
                    allp = set(g.all_params)
                    for k in n.keywords:
                        if k.arg and k.arg in allp:
                            acc.setdefault((g.qname, k.arg), []).append(self.type_at(f, k.value))
            new = {}
            for key, ts in acc.items():
                j = join(*ts)
                if definite(j) and any(a[0] == "inst" or a[0] in ("list", "iter", "set") for a in j):
                    # None defaults passed explicitly do not make the parameter None-only
                    new[key] = j
            if new == self._cs_types:
                break
            self._cs_types = new
            self._envs.clear()
            self._ret.clear()
            self._field.clear()
        return len(self._cs_types)

    _STOP = None

    def _weak_callee(self, f, call, env):
        """Receiver unknown: resolve `x.m(...)` by method name when every repo
        definition of `m` is unambiguous and `m` is not also a method of a builtin
        container / str / ndarray / lxml element."""
        if not isinstance(call.func, ast.Attribute):
            return []
        name = call.func.attr
        if Infer._STOP is None:
            stop = set()
            for t in (list, dict, set, str, tuple, bytes, int, float, frozenset):
                stop |= set(dir(t))
            try:
                import numpy
                stop |= set(dir(numpy.ndarray))
            except Exception:
                pass
            try:
                from lxml import etree
                stop |= set(dir(etree._Element)) | set(dir(etree._ElementTree))
            except Exception:
                pass
            stop |= {"write", "read", "close", "group", "groups", "search", "match", "format", "send", "apply"}
            Infer._STOP = stop
        if name in Infer._STOP or name.startswith("__"):
            return []
        defs = self._method_index.get(name, [])
        if not defs:
            return []
        # receiver must not be a known non-repo value
        rt = self.expr(f, call.func.value, env)
        if definite(rt):
            return []
        known = [a for a in rt if a != "?"]
        if any(a[0] != "inst" for a in known):
            return []
        self.weak_calls += 1
        return [("weakfunc", m, None) for m in defs]

    def _env_for(self, f, node):
        env = dict(self.env_at(f, node))
        chain = []
        p = getattr(node, "_parent", None)
        while p is not None and not isinstance(p, ast.stmt):
            chain.append(p)
            p = getattr(p, "_parent", None)
        for c in reversed(chain):
            if isinstance(c, (ast.ListComp, ast.SetComp, ast.GeneratorExp, ast.DictComp)):
                for g in c.generators:
                    if _contains(g.iter, node):
                        break
                    self._bind(g.target, self.elem(self.expr(f, g.iter, env)), env)
                    for cond in g.ifs:
                        if not _contains(cond, node):
                            env = self._narrow(f, cond, env, True)
            elif isinstance(c, ast.Lambda):
                for a in c.args.args:
                    env[a.arg] = UNK
            elif isinstance(c, ast.IfExp):
                if _contains(c.body, node):
                    env = self._narrow(f, c.test, env, True)
                elif _contains(c.orelse, node):
                    env = self._narrow(f, c.test, env, False)
            elif isinstance(c, ast.BoolOp) and isinstance(c.op, ast.And):
                for v in c.values:
                    if _contains(v, node):
                        break
                    env = self._narrow(f, v, env, True)
        return env

    def _call(self, f, e: ast.Call, env, depth) -> T:
        targets = self.callee(f, e, env)
        if not targets:
            return UNK
        out = []
        for kind, tgt, recv in targets:
            if kind == "ctor":
                out.append(inst(tgt))
            elif kind == "func":
                name = tgt.name
                if tgt.cls is not None and name in GENERIC_ITER | GENERIC_ONE | GENERIC_LIST:
                    ct = None
                    arg = e.args[0] if e.args else None
                    for k in e.keywords:
                        if k.arg in ("cls", "otype"):
                            arg = k.value
                    if arg is not None:
                        ca = self._class_arg(f, arg)
                        if ca and all(c[0] == "inst" for c in ca):
                            ct = frozenset(ca)
                    if ct is None and self._timed is not None:
                        ct = inst(self._timed)
                    if name in GENERIC_ITER:
                        out.append(frozenset({("iter", ct)}))
                    elif name in GENERIC_LIST:
                        out.append(frozenset({("list", ct)}))
                    else:
                        out.append(join(ct, NONE))
                else:
                    out.append(self.ret_type(tgt, recv=recv))
            elif kind == "builtin":
                out.append(self._builtin_call(f, tgt, e, env, depth))
            elif kind == "bmeth":
                out.append(self._bmeth_call(f, tgt, recv, e, env, depth))
            elif kind == "ext":
                out.append(self._ext_call(f, tgt, e, env, depth))
        return join(*out) if out else UNK

    def _builtin_call(self, f, name, e, env, depth) -> T:
        args = e.args
        a0 = self.expr(f, args[0], env, depth + 1) if args and not isinstance(args[0], ast.Starred) else None
        if name in ("list", "sorted"):
            return frozenset({("list", self.elem(a0) if a0 is not None else EMPTY)})
        if name == "set" or name == "frozenset":
            return frozenset({("set", self.elem(a0) if a0 is not None else EMPTY)})
        if name == "tuple":
            return frozenset({("tuple", None)})
        if name == "dict":
            return frozenset({("dict", UNK, UNK)})
        if name in ("iter", "reversed"):
            return frozenset({("iter", self.elem(a0) if a0 is not None else UNK)})
        if name == "next":
            return self.elem(a0) if a0 is not None else UNK
        if name == "enumerate":
            return frozenset({("iter", frozenset({("tuple", (b("int"), self.elem(a0) if a0 is not None else UNK))}))})
        if name == "zip":
            parts = tuple(self.elem(self.expr(f, x, env, depth + 1)) for x in args if not isinstance(x, ast.Starred))
            if len(parts) != len(args):
                return frozenset({("iter", UNK)})
            return frozenset({("iter", frozenset({("tuple", parts)}))})
        if name in ("len", "int", "round", "ord", "hash", "id"):
            return b("int") if name != "round" or len(args) == 1 else b("float")
        if name == "float":
            return b("float")
        if name in ("str", "repr", "chr", "format"):
            return b("str")
        if name in ("bool", "isinstance", "hasattr", "callable", "all", "any", "issubclass"):
            return b("bool")
        if name == "range":
            return frozenset({("iter", b("int"))})
        if name in ("min", "max"):
            if len(args) == 1 and a0 is not None:
                return self.elem(a0)
            return join(*[self.expr(f, x, env, depth + 1) for x in args])
        if name == "filter" and len(args) == 2:
            return frozenset({("iter", self.elem(self.expr(f, args[1], env, depth + 1)))})
        if name == "getattr":
            return UNK
        if name == "type":
            return UNK
        if name == "super":
            if f.cls is not None and len(f.cls.mro) > 1:
                return frozenset({("super", f.cls.qname)})
            return UNK
        return UNK

    def _bmeth_call(self, f, name, recv, e, env, depth) -> T:
        (a,) = recv if recv and len(recv) == 1 else (None,)
        if a is None:
            return UNK
        if a[0] == "list":
            if name == "copy":
                return recv
            if name == "pop":
                return a[1] if a[1] else UNK
            if name in ("append", "extend", "sort", "insert", "remove", "reverse", "clear"):
                return NONE
            if name in ("index", "count"):
                return b("int")
        if a[0] == "dict":
            if name in ("get", "pop", "setdefault"):
                return join(a[2] if a[2] else UNK, NONE) if name == "get" and len(e.args) < 2 else (a[2] or UNK)
            if name == "values":
                return frozenset({("iter", a[2] or UNK)})
            if name == "keys":
                return frozenset({("iter", a[1] or UNK)})
            if name == "items":
                return frozenset({("iter", frozenset({("tuple", (a[1] or UNK, a[2] or UNK))}))})
            if name == "copy":
                return recv
        if a[0] == "set":
            if name in ("copy", "union", "intersection", "difference"):
                return recv
            if name == "pop":
                return a[1] or UNK
        if a == ("b", "str"):
            if name in ("format", "join", "lower", "upper", "strip", "replace", "lstrip", "rstrip", "title",
                        "capitalize", "zfill"):
                return b("str")
            if name in ("split", "rsplit", "splitlines"):
                return frozenset({("list", b("str"))})
            if name in ("startswith", "endswith", "isdigit", "isalpha"):
                return b("bool")
        return UNK

    def _ext_call(self, f, dotted, e, env, depth) -> T:
        if dotted in ("copy.deepcopy", "copy.copy") and e.args:
            return self.expr(f, e.args[0], env, depth + 1)
        if dotted in ("numpy.array", "numpy.zeros", "numpy.ones", "numpy.asarray", "numpy.arange",
                      "numpy.column_stack", "numpy.vstack", "numpy.hstack", "numpy.concatenate",
                      "numpy.unique", "numpy.argsort", "numpy.diff", "numpy.cumsum", "numpy.empty",
                      "numpy.zeros_like", "numpy.ones_like", "numpy.full", "numpy.linspace",
                      "numpy.fromiter", "numpy.lexsort", "numpy.sort"):
            return b("ndarray")
        if dotted in ("collections.defaultdict",):
            vt = UNK
            if e.args:
                a0 = e.args[0]
                if isinstance(a0, ast.Name) and a0.id == "list":
                    vt = frozenset({("list", EMPTY)})
                elif isinstance(a0, ast.Name) and a0.id == "set":
                    vt = frozenset({("set", EMPTY)})
                elif isinstance(a0, ast.Name) and a0.id == "dict":
                    vt = frozenset({("dict", UNK, UNK)})
            return frozenset({("dict", UNK, vt)})
        if dotted in ("itertools.chain",):
            return frozenset({("iter", join(*[self.elem(self.expr(f, x, env, depth + 1)) for x in e.args]))})
        return frozenset({("b", "extobj:" + dotted)})


def _merge(a: Dict[str, T], bb: Dict[str, T]) -> Dict[str, T]:
    if a is bb:
        return a
    out = dict(a)
    changed = False
    for k, v in bb.items():
        if k in out:
            j = join(out[k], v)
            if j != out[k]:
                out[k] = j
                changed = True
        else:
            # assigned on one path only: the name may be unbound on the other;
            # keep the type of the binding path (a read on the other path would raise)
            out[k] = v
            changed = True
    return out if changed else a


def _homog(t: T) -> bool:
    return definite(t) and all(a[0] in ("list", "set", "iter") for a in t)


def _is_self_attr(t, selfname, attr) -> bool:
    return isinstance(t, ast.Attribute) and t.attr == attr and isinstance(t.value, ast.Name) and t.value.id == selfname


def _contains(root, node) -> bool:
    p = node
    while p is not None:
        if p is root:
            return True
        p = getattr(p, "_parent", None)
    return False


def _assigned_names(fnode):
    out = set()
    for n in own_nodes(fnode):
        if isinstance(n, ast.Name) and isinstance(n.ctx, ast.Store):
            out.add(n.id)
        elif isinstance(n, (ast.FunctionDef, ast.AsyncFunctionDef)):
            out.add(n.name)
    return out
