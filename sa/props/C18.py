"""C18 — decoding an encoded performance reproduces the performance."""
import ast

from ..core.constfold import SymRef
from ..core.program import pos, norm, own_nodes
from ..core.world import world
from ..rules import generic as G

EXPLANATION = (
    "Static analysis of musicanalysis/performance_codec.py. Decides: (F5c) for each of the five tempo normalisations the "
    "scale function returns as many columns as param_names lists, the rescale function reads exactly those names, and "
    "plain returned names equal the positional param name; (NAMES) the parameter names written by encode_tempo are the "
    "ones decode_performance/decode_time read; (F4c) both tempo-curve methods are dispatched and their results unpacked "
    "with the shape they return; (ORDER) the matched-note table and the decoder both sort by lexsort((pitch, onset)) — "
    "onset primary; (F8b/ROWRANK) no int() of rank-1 arrays in get_matched_notes and only scalars are packed into the "
    "matched-note rows; (F4a) row tuple vs dtype list of to_matched_score."
    ' (F9a-mask) the parallel arrays sliced from the matched-index table are filtered together.'
)
NOT_DECIDED = [
    "decode(encode(x)) = x within single precision (numeric)", "interpolation of the time maps through chords (numeric)",
    "to_matched_score rewrites the alignment's ids with str() in place (evidence; see C20)",
]
PC = "partitura.musicanalysis.performance_codec"


def rule_F5c(ctx):
    ctx.rule("F5c", "TEMPO_NORMALIZATION[k]: len(list returned by scale) == len(param_names); keys read by rescale == set(param_names); "
                    "a plain name returned at position i equals param_names[i]")
    fo = world(ctx).folder
    tab = fo.const(PC, "TEMPO_NORMALIZATION", "F5c")
    ctx.floor("F5c", "normalisations", len(tab), 5)
    for k, e in tab.items():
        ctx.require(isinstance(e, dict) and {"scale", "rescale", "param_names"} <= set(e), "F5c", f"TEMPO_NORMALIZATION[{k}]", "entry shape")
        names = list(e["param_names"])
        sc = ctx.prog.functions[e["scale"].qname]
        rs = ctx.prog.functions[e["rescale"].qname]
        ctx.touch(sc, rs)
        rets = [n for n in own_nodes(sc.node) if isinstance(n, ast.Return)]
        ok = len(rets) == 1 and isinstance(rets[0].value, (ast.List, ast.Tuple)) and len(rets[0].value.elts) == len(names)
        ctx.check(ok, "F5c", f"{k}: scale returns {len(names)} columns", func=sc, construct=f"scale-arity:{k}",
                  msg=f"{sc.name} must return one column per entry of param_names {names}")
        if ok:
            for i, el in enumerate(rets[0].value.elts):
                if isinstance(el, ast.Name) and el.id != names[i]:
                    # a naming convention, not semantics (renaming a local is behaviour-preserving): evidence only
                    ctx.note("F5c", f"{sc.name} returns the local `{el.id}` at position {i} where param_names says `{names[i]}`", sc, el)
        read = {n.slice.value for n in own_nodes(rs.node) if isinstance(n, ast.Subscript) and norm(n.value) == rs.params[0]
                and isinstance(n.slice, ast.Constant)}
        ctx.check(read == set(names), "F5c", f"{k}: rescale reads {sorted(names)}", func=rs, construct=f"rescale-names:{k}",
                  msg=f"{rs.name} reads {sorted(read)} but param_names are {sorted(names)}: decoding cannot invert the normalisation")
        ctx.check(k == names[0], "F5c", f"{k}: first parameter named after the normalisation", where=f"{PC}:TEMPO_NORMALIZATION",
                  file="partitura/musicanalysis/performance_codec.py", construct=f"first-param:{k}",
                  msg=f"normalisation {k!r} must store its main column under the same name (found {names[0]!r})")


def rule_names(ctx):
    ctx.rule("NAMES", "parameter names: encode_tempo writes beat_period, velocity, timing, articulation_log (+ the normalisation's "
                      "names); decode_performance and decode_time read those names and nothing else")
    enc = ctx.prog.func(f"{PC}:encode_tempo", "NAMES")
    dec = ctx.prog.func(f"{PC}:decode_performance", "NAMES")
    dt = ctx.prog.func(f"{PC}:decode_time", "NAMES")
    ctx.touch(enc, dec, dt)
    base = None
    for n in own_nodes(enc.node):
        if isinstance(n, ast.Assign) and isinstance(n.value, ast.List) and len(n.value.elts) == 4 \
                and all(isinstance(e, ast.Constant) and isinstance(e.value, str) for e in n.value.elts) and "beat_period" in [e.value for e in n.value.elts]:
            base = [e.value for e in n.value.elts if isinstance(e, ast.Constant)]
    ctx.require(base is not None, "NAMES", enc.qname, "parameter_names literal not found")
    ctx.check(sorted(base) == sorted(["beat_period", "velocity", "timing", "articulation_log"]), "NAMES", "encoder's base names", func=enc,
              construct="encoder-names", msg=f"encode_tempo writes {base}")
    written = {n.slice.value for n in own_nodes(enc.node) if isinstance(n, ast.Subscript) and isinstance(n.ctx, ast.Store)
               and isinstance(n.slice, ast.Constant)} | \
              {n.value.slice.value for n in own_nodes(enc.node) if isinstance(n, ast.Subscript) and isinstance(n.ctx, ast.Store)
               and isinstance(n.value, ast.Subscript) and isinstance(n.value.slice, ast.Constant)}
    for who in (dec, dt):
        read = set()
        for n in own_nodes(who.node):
            if isinstance(n, ast.Subscript) and isinstance(n.slice, ast.Constant) and isinstance(n.slice.value, str) \
                    and isinstance(n.value, ast.Name) and n.value.id in who.all_params and n.value.id in ("performance_array", "parameters"):
                read.add(n.slice.value)
            if isinstance(n, (ast.List, ast.Tuple)) and all(isinstance(e, ast.Constant) and isinstance(e.value, str) for e in n.elts) and n.elts:
                vals = {e.value for e in n.elts}
                # (name, "f4") dtype pairs are not name lists
                if vals & set(base) and not (isinstance(n, ast.Tuple) and len(n.elts) == 2 and n.elts[1].value in ("f4", "f8", "i4", "i8")):
                    read |= vals
        ctx.check(read <= set(base) and read, "NAMES", f"{who.name} reads {sorted(read)}", func=who, construct=f"decoder-names:{who.name}",
                  msg=f"{who.name} reads parameter(s) {sorted(read - set(base))} that encode_tempo never writes")
    ctx.check({"articulation_log", "beat_period", "timing"} <= written, "NAMES", "encoder fills articulation_log, beat_period, timing", func=enc,
              construct="encoder-fills", msg=f"encode_tempo stores into {sorted(written)}")


def rule_tempo_methods(ctx):
    ctx.rule("F4c", "encode_tempo dispatches 'average' and 'derivative' to tempo_by_average / tempo_by_derivative and unpacks three "
                    "values; with return_onset_idxs=True both return a 3-tuple")
    enc = ctx.prog.func(f"{PC}:encode_tempo", "F4c")
    seen = {}
    methods = ("tempo_by_average", "tempo_by_derivative")
    fdefs = {}
    for a in own_nodes(enc.node):
        if isinstance(a, ast.Assign) and len(a.targets) == 1 and isinstance(a.targets[0], ast.Name) and isinstance(a.value, ast.Name):
            fdefs.setdefault(a.targets[0].id, set()).add(a.value.id)
    for n in own_nodes(enc.node):
        if isinstance(n, ast.Assign) and isinstance(n.value, ast.Call) and isinstance(n.value.func, ast.Name):
            # called directly, or through a local that the branches bind to the method (`tempo_function = tempo_by_average`)
            callees = {n.value.func.id} if n.value.func.id in methods else (fdefs.get(n.value.func.id, set()) & set(methods))
            for c in callees:
                k = len(n.targets[0].elts) if isinstance(n.targets[0], ast.Tuple) else 1
                seen[c] = (k, n)
    ctx.check(set(seen) == {"tempo_by_average", "tempo_by_derivative"}, "F4c", "both built-in tempo methods dispatched", func=enc,
              construct="tempo-methods", msg=f"dispatched: {sorted(seen)}")
    for name, (k, node) in seen.items():
        g = ctx.prog.func(f"{PC}:{name}", "F4c")
        ctx.touch(g)
        widths = set()
        for r in own_nodes(g.node):
            if isinstance(r, ast.Return) and isinstance(r.value, ast.Tuple):
                widths.add(len(r.value.elts))
        kw = {x.arg: norm(x.value) for x in node.value.keywords}
        ctx.check(k in widths and kw.get("return_onset_idxs") == "True", "F4c", f"{name}: {k} targets, returns {sorted(widths)}", func=enc, node=node,
                  construct=f"tempo-unpack:{name}", msg=f"{name} returns tuples of width {sorted(widths)}; encode_tempo unpacks {k} "
                                                       f"(return_onset_idxs={kw.get('return_onset_idxs')})")


def rule_order(ctx):
    ctx.rule("ORDER", "the matched-note table and the decoder order notes by np.lexsort with the pitch key first and the onset key last "
                      "(onset primary, pitch secondary)")
    for q in (f"{PC}:to_matched_score", f"{PC}:decode_performance"):
        f = ctx.prog.func(q, "ORDER")
        ctx.touch(f)
        ls = [n for n in own_nodes(f.node) if isinstance(n, ast.Call) and norm(n.func) in ("np.lexsort", "numpy.lexsort")]
        if not ls:
            # two-pass idiom: argsort by pitch, then a *stable* argsort by onset
            srt = sorted([n for n in own_nodes(f.node) if isinstance(n, ast.Call) and norm(n.func) in ("np.argsort", "numpy.argsort")], key=lambda n: pos(n))
            ctx.require(len(srt) >= 2, "ORDER", q, "neither lexsort nor a two-pass argsort found")
            defs = {norm(a.targets[0]): norm(a.value) for a in own_nodes(f.node) if isinstance(a, ast.Assign) and len(a.targets) == 1}
            def keytxt(c):
                t = norm(c.args[0]) if c.args else ""
                return t + " " + " ".join(v for k, v in defs.items() if k in t)
            last, first = srt[-1], srt[-2]
            kind = next((k.value.value for k in last.keywords if k.arg == "kind" and isinstance(k.value, ast.Constant)), None)
            ok2 = "pitch" in keytxt(first) and "onset" in keytxt(last) and kind in ("mergesort", "stable")
            ctx.check(ok2, "ORDER", f"{f.name}: pitch argsort then stable onset argsort", func=f, node=last, construct=f"lexsort-keys:{f.name}",
                      msg=f"two-pass ordering: first key `{keytxt(first)[:40]}`, second key `{keytxt(last)[:40]}` with kind={kind!r}; the second (onset) sort "
                          f"must be stable, otherwise notes sharing an onset come out in arbitrary pitch order and the decoder pairs chord "
                          f"members with each other's parameters")
            continue
        ctx.require(len(ls) == 1, "ORDER", q, "several lexsort calls")
        a = ls[0].args[0]
        ok = False
        detail = norm(a)
        if isinstance(a, ast.Tuple) and len(a.elts) == 2:
            ok = "pitch" in norm(a.elts[0]) and "onset" in norm(a.elts[1])
        else:
            # list(zip(*pitch_onset)) with pitch_onset = [(pitch, onset), ...]
            for d in own_nodes(f.node):
                if isinstance(d, ast.Assign) and isinstance(d.value, ast.ListComp) and isinstance(d.value.elt, ast.Tuple) \
                        and norm(d.targets[0]) in detail and len(d.value.elt.elts) == 2:
                    ok = "pitch" in norm(d.value.elt.elts[0]) and "onset" in norm(d.value.elt.elts[1])
                    detail = norm(d.value.elt)
        ctx.check(ok, "ORDER", f"{f.name}: lexsort keys {detail[:50]}", func=f, node=ls[0], construct=f"lexsort-keys:{f.name}",
                  msg=f"lexsort sorts by its LAST key first; keys are {detail}: expected (pitch, onset) so that rows are ordered by "
                      f"score onset, then pitch")


def rule_rowrank(ctx):
    ctx.rule("ROWRANK", "to_matched_score packs only scalars into the matched-note rows: the paired notes are records (mask "
                        "selection indexed [0]) or every field is taken with .item()")
    f = ctx.prog.func(f"{PC}:to_matched_score", "ROWRANK")
    dicts = {}
    for n in own_nodes(f.node):
        val = None
        if isinstance(n, ast.Assign) and isinstance(n.value, ast.Call) and norm(n.value.func) == "dict" and n.value.args \
                and isinstance(n.value.args[0], (ast.GeneratorExp, ast.ListComp)) and isinstance(n.value.args[0].elt, ast.Tuple) and len(n.value.args[0].elt.elts) == 2:
            val = n.value.args[0].elt.elts[1]
        elif isinstance(n, ast.Assign) and isinstance(n.value, ast.DictComp):
            val = n.value.value  # the same table written as a dict comprehension
        if val is not None:
            mask = isinstance(val, ast.Subscript) and isinstance(val.slice, ast.Compare)
            dicts[norm(n.targets[0])] = 1 if mask else 0
    def from_dicts(e):
        if isinstance(e, ast.Subscript) and norm(e.value) in dicts:
            return dicts[norm(e.value)]
        if isinstance(e, ast.Subscript) and isinstance(e.slice, ast.Constant) and e.slice.value == 0 and isinstance(e.value, ast.Subscript) \
                and norm(e.value.value) in dicts:
            return 0
        return None
    pairs = [n for n in own_nodes(f.node) if isinstance(n, ast.Assign) and isinstance(n.value, ast.ListComp) and isinstance(n.value.elt, ast.Tuple)
             and len(n.value.elt.elts) == 2 and all(from_dicts(e) is not None for e in n.value.elt.elts)]
    ctx.require(len(pairs) == 1 and dicts, "ROWRANK", f.qname, "pairing comprehension not recognised")
    pv = norm(pairs[0].targets[0])
    ranks = [from_dicts(e) for e in pairs[0].value.elt.elts]
    members = set()
    for a in own_nodes(f.node):
        if isinstance(a, ast.Assign) and isinstance(a.targets[0], ast.Tuple) and isinstance(a.value, ast.Subscript) and norm(a.value.value) == pv:
            members |= {norm(t) for t in a.targets[0].elts}
    rows = [n for n in own_nodes(f.node) if isinstance(n, ast.Assign) and isinstance(n.value, ast.Tuple) and len(n.value.elts) >= 4
            and any(isinstance(e, ast.Subscript) and norm(e.value) in members for e in n.value.elts)]
    ctx.require(rows and members, "ROWRANK", f.qname, "row tuple not found")
    raw = [e for e in rows[0].value.elts if isinstance(e, ast.Subscript) and isinstance(e.slice, ast.Constant) and norm(e.value) in members]
    ok = all(r == 0 for r in ranks) or not raw
    ctx.check(ok, "ROWRANK", "matched-note rows hold scalars", func=f, node=rows[0], construct="row-of-arrays",
              msg=f"the paired notes are one-element arrays (boolean-mask selection) and `{norm(raw[0]) if raw else ''}` etc. are packed "
                  f"into the row without .item(): np.array(rows, dtype=fields) raises 'setting an array element with a sequence'")


def run(ctx):
    from ..rules import round5 as _R5e
    _R5e.rule_label_selects_matches(ctx)
    rule_F5c(ctx)
    rule_names(ctx)
    rule_tempo_methods(ctx)
    rule_order(ctx)
    rule_rowrank(ctx)
    from ..rules import extra as X
    X.rule_comask(ctx)
    ctx.rule("F8b", "no int()/float() of a value that is definitely a rank>=1 array")
    fs = ctx.prog.functions_in(PC)
    for f in fs:
        ctx.touch(f)
        for c in G.scalar_conversion_of_array(f):
            ctx.check(False, "F8b", f"{f.qname}:{norm(c)}", func=f, node=c, construct=f"int-of-array:{norm(c.args[0])[:30]}",
                      msg=f"`{norm(c)}` converts a rank-1 index array (np.where(..)[0]) to a Python scalar: TypeError under the installed numpy")
    ctx.ok("F8b", f"{len(fs)} functions scanned")
    G.rule_F7a(ctx, fs)
    G.rule_F4d(ctx, fs, "performance codec", floor=10)
    G.rule_F8a(ctx, [f"{PC}:encode_performance", f"{PC}:decode_performance", f"{PC}:get_time_maps_from_alignment"], "codec")
