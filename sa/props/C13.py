"""C13 — a piano roll shows exactly the given notes, in their cells, with their velocity."""
import ast

from ..core.program import pos, norm, own_nodes, own_statements
from ..core.world import world
from ..rules import arrays as A
from ..rules import generic as G
from ..rules import extra as X

EXPLANATION = (
    "Static analysis of compute_pianoroll / _make_pianoroll / compute_pitch_class_pianoroll / pianoroll_to_notearray. "
    "Decides: (F9a) once the rows are sorted by onset, every column sliced from the input matrix (pitch, onset, duration, "
    "velocity) is re-indexed by the same permutation before its next use; (F9b) the per-note index rows are returned "
    "re-indexed by the inverse permutation; (F4d-plumb) every option of compute_pianoroll reaches _make_pianoroll under "
    "its own name, and the pitch-class roll forwards its options, forces pitch_margin=-1/piano_range=False/binary=False "
    "and applies `binary` only after the octave fold; (VIEW) in-place arithmetic on a column happens only after the "
    "column was copied by fancy indexing (no write-through into the input matrix); (RANGE) the piano-range slice spans 88 "
    "rows starting at 21 and agrees with the inverse; (F4a) the inverse builds rows matching its dtype."
    ' (ROUND-all) every frame of the inverse passes the scan that closes notes which stopped sounding.'
    ' (RESTRIKE-eq) the re-strike that ends a pedal-held note is selected with a comparison that includes the release moment itself.'
)
NOT_DECIDED = [
    "cell-exact content of the roll, collisions (max), margins, end_time (run-time values)",
    "the inverse pianoroll_to_notearray recovering every note",
]
M = "partitura.utils.music"


def rule_F9a(ctx):
    ctx.rule("F9a", "after idx = np.argsort(<column>), every column variable sliced from the same matrix that is used later is "
                    "re-indexed by idx before that use (co-permutation of parallel arrays)")
    f = ctx.prog.func(f"{M}:_make_pianoroll", "F9a")
    ctx.touch(f)
    stmts = list(own_statements(f.node.body))
    base = f.params[0]
    cols = {}
    for s in stmts:
        if isinstance(s, ast.Assign) and len(s.targets) == 1 and isinstance(s.targets[0], ast.Name):
            v = s.value
            if isinstance(v, ast.Subscript) and norm(v.value) == base and isinstance(v.slice, ast.Tuple) and len(v.slice.elts) == 2 \
                    and isinstance(v.slice.elts[0], ast.Slice) and isinstance(v.slice.elts[1], ast.Constant):
                cols.setdefault(s.targets[0].id, []).append(s)
            elif isinstance(v, ast.Call) and norm(v.func) in ("np.ones", "np.zeros") and v.args and norm(v.args[0]) == f"len({base})":
                cols.setdefault(s.targets[0].id, []).append(s)
    ctx.require(len(cols) >= 4, "F9a", f.qname, f"column variables not recognised: {sorted(cols)}")
    sorts = [s for s in stmts if isinstance(s, ast.Assign) and isinstance(s.value, ast.Call) and norm(s.value.func) in ("np.argsort", "numpy.argsort")
             and s.value.args and isinstance(s.value.args[0], ast.Name) and s.value.args[0].id in cols]
    ctx.require(len(sorts) == 1, "F9a", f.qname, "the onset argsort was not found")
    idx = norm(sorts[0].targets[0])
    sort_line = max(pos(x) for x in ast.walk(sorts[0]))  # the end of the sort statement in document order
    for c in sorted(cols):
        reindex = [s for s in stmts if isinstance(s, ast.Assign) and norm(s.targets[0]) == c and norm(s.value) == f"{c}[{idx}]" and pos(s) > sort_line]
        uses = [n for n in ast.walk(f.node) if isinstance(n, ast.Name) and n.id == c and isinstance(n.ctx, ast.Load) and pos(n) > sort_line
                and not any(n is x for r in reindex for x in ast.walk(r))]
        if not uses:
            ctx.ok("F9a", f"{f.qname}: `{c}` not used after the sort")
            continue
        first_use = min(pos(u) for u in uses)
        ok = len(reindex) == 1 and pos(reindex[0]) < first_use
        ctx.check(ok, "F9a", f"{f.qname}: `{c}` co-permuted", func=f, node=uses[0], construct=f"not-permuted:{c}",
                  msg=f"rows are sorted with `{idx} = {norm(sorts[0].value)}` and the other columns are re-indexed, but `{c}` "
                      f"is used afterwards (line {first_use}) without `{c} = {c}[{idx}]`: for input rows that are not already "
                      f"in onset order the cells get another note's value")
    # F9b: returned index rows unsorted
    rets = [n for n in own_nodes(f.node) if isinstance(n, ast.Return) and isinstance(n.value, ast.Tuple)]
    ctx.require(len(rets) == 1, "F9b", f.qname, "tuple return not found")
    second = rets[0].value.elts[1]
    ok = isinstance(second, ast.Subscript) and norm(second.slice) in (f"{idx}.argsort()", f"np.argsort({idx})")
    ctx.rule("F9b", "the per-note index rows are returned re-indexed by argsort(idx): input order")
    ctx.check(ok, "F9b", f"{f.qname}: index rows in input order", func=f, node=rets[0], construct="pr_idx-not-unsorted",
              msg=f"`{norm(second)}` must be indexed by `{idx}.argsort()` so that row k describes input note k")


def rule_view(ctx):
    ctx.rule("VIEW", "augmented assignment to a column variable happens only after the variable was rebound to a fancy-index "
                     "copy (col = col[idx]); otherwise it would write through a view into the caller's matrix")
    f = ctx.prog.func(f"{M}:_make_pianoroll", "VIEW")
    stmts = list(own_statements(f.node.body))
    base = f.params[0]
    views = {}
    for s in stmts:
        if isinstance(s, ast.Assign) and len(s.targets) == 1 and isinstance(s.targets[0], ast.Name) and isinstance(s.value, ast.Subscript) \
                and norm(s.value.value) == base and isinstance(s.value.slice, ast.Tuple):
            views[s.targets[0].id] = pos(s)
    n = 0
    for s in stmts:
        if isinstance(s, ast.AugAssign) and isinstance(s.target, ast.Name) and s.target.id in views:
            n += 1
            c = s.target.id
            copied = [a for a in stmts if isinstance(a, ast.Assign) and norm(a.targets[0]) == c and isinstance(a.value, ast.Subscript)
                      and norm(a.value.value) == c and isinstance(a.value.slice, ast.Name) and views[c] < pos(a) < pos(s)]
            ctx.check(bool(copied), "VIEW", f"{f.qname}: `{norm(s)}` on a copy", func=f, node=s, construct=f"write-through:{c}",
                      msg=f"`{norm(s)}` modifies `{c}` in place while it is still a view of `{base}`: the caller's array changes")
    ctx.floor("VIEW", "in-place column updates", n, 2)


def rule_plumbing(ctx):
    ctx.rule("F4d-plumb", "every option of compute_pianoroll reaches _make_pianoroll under the same name; "
                          "compute_pitch_class_pianoroll forwards its options, forces pitch_margin=-1, piano_range=False, "
                          "binary=False and applies `binary` after the fold")
    cp = ctx.prog.func(f"{M}:compute_pianoroll", "F4d-plumb")
    mk = ctx.prog.func(f"{M}:_make_pianoroll", "F4d-plumb")
    ctx.touch(cp, mk)
    calls = [n for n in own_nodes(cp.node) if isinstance(n, ast.Call) and norm(n.func) == "_make_pianoroll"]
    ctx.require(len(calls) == 1, "F4d-plumb", cp.qname, "call of _make_pianoroll not found")
    kw = {k.arg: k.value for k in calls[0].keywords}
    shared = [p for p in mk.all_params if p in cp.all_params and p != mk.params[0]]
    ctx.floor("F4d-plumb", "shared options", len(shared), 9)
    for p in shared:
        v = kw.get(p)
        ctx.check(v is not None and norm(v) == p, "F4d-plumb", f"compute_pianoroll.{p} -> _make_pianoroll.{p}", func=cp, node=calls[0],
                  construct=f"option-not-forwarded:{p}", msg=f"option `{p}` is passed as `{norm(v) if v is not None else None}`: the "
                                                           f"caller's choice does not reach the rasteriser")
    pc = ctx.prog.func(f"{M}:compute_pitch_class_pianoroll", "F4d-plumb")
    ctx.touch(pc)
    calls = [n for n in own_nodes(pc.node) if isinstance(n, ast.Call) and norm(n.func) == "compute_pianoroll"]
    ctx.require(len(calls) == 1, "F4d-plumb", pc.qname, "call of compute_pianoroll not found")
    kw = {k.arg: norm(k.value) for k in calls[0].keywords}
    for p in ("note_info", "time_unit", "time_div", "onset_only", "note_separation", "time_margin", "return_idxs", "remove_silence", "end_time"):
        ctx.check(kw.get(p) == p, "F4d-plumb", f"pitch-class roll forwards {p}", func=pc, node=calls[0],
                  construct=f"pc-option-not-forwarded:{p}", msg=f"`{p}` is passed as `{kw.get(p)}`")
    for p, want in (("pitch_margin", "-1"), ("piano_range", "False"), ("binary", "False")):
        ctx.check(kw.get(p) == want, "F4d-plumb", f"pitch-class roll forces {p}={want}", func=pc, node=calls[0],
                  construct=f"pc-forced:{p}", msg=f"the octave fold needs the full 128-row, non-binary roll ({p}={want}); found {kw.get(p)}")
    folds = [n for n in own_nodes(pc.node) if isinstance(n, ast.AugAssign) and isinstance(n.target, ast.Subscript) and isinstance(n.op, ast.Add)
             and isinstance(getattr(n, "_parent", None), ast.For)]
    bins = [n for n in own_nodes(pc.node) if isinstance(n, ast.If) and norm(n.test) == "binary"]
    ctx.check(bool(folds) and bool(bins) and pos(bins[0]) > pos(folds[0]), "F4d-plumb", "binary applied after the fold", func=pc,
              construct="pc-binary-order", msg="`binary` must be applied to the folded roll (max over octaves would otherwise be lost)")


def rule_range(ctx):
    ctx.rule("RANGE", "piano range: rows 21..108 (88 rows); the index rows are shifted by the same 21; the inverse uses 21 for an "
                      "88-row roll and 0 for a 128-row roll")
    mk = ctx.prog.func(f"{M}:_make_pianoroll", "RANGE")
    rolls = {norm(a.targets[0]) for a in own_nodes(mk.node) if isinstance(a, ast.Assign) and isinstance(a.value, ast.Call) and norm(a.value.func).endswith("csc_matrix")}
    sl = [n for n in own_nodes(mk.node) if isinstance(n, ast.Subscript) and norm(n.value) in rolls and isinstance(n.slice, ast.Tuple)
          and isinstance(n.slice.elts[0], ast.Slice)]
    ctx.require(sl, "RANGE", mk.qname, "piano_range slice not found")
    s = sl[0].slice.elts[0]
    lo = s.lower.value if isinstance(s.lower, ast.Constant) else None
    hi = s.upper.value if isinstance(s.upper, ast.Constant) else None
    byname = {}
    for n in own_nodes(mk.node):
        if isinstance(n, ast.Assign) and isinstance(n.targets[0], ast.Name) and isinstance(n.value, ast.Constant) and isinstance(n.value.value, int) \
                and not isinstance(n.value.value, bool):
            byname.setdefault(n.targets[0].id, []).append(n.value.value)
    shifts = next((sorted(v) for v in byname.values() if sorted(v) == [0, 21]), [])
    ctx.check(lo == 21 and hi == 109 and shifts == [0, 21], "RANGE", "slice 21:109, shift 21", func=mk, node=sl[0], construct="piano-range",
              msg=f"piano range slice is {lo}:{hi} with index shift {shifts}; 88 keys are MIDI 21..108")
    inv = ctx.prog.func(f"{M}:pianoroll_to_notearray", "RANGE")
    ctx.touch(inv)
    byname = {}
    for a in own_nodes(inv.node):
        if isinstance(a, ast.Assign) and isinstance(a.targets[0], ast.Name) and isinstance(a.value, ast.Constant) and isinstance(a.value.value, int):
            byname.setdefault(a.targets[0].id, set()).add(a.value.value)
    ip = next((k for k, v in byname.items() if v == {0, 21}), None)
    consts = sorted(byname.get(ip, []))
    shapes = sorted({c.comparators[0].value for c in own_nodes(inv.node) if isinstance(c, ast.Compare) and norm(c.left).endswith(".shape[0]")
                     and isinstance(c.comparators[0], ast.Constant)})
    uses = any(isinstance(b, ast.BinOp) and isinstance(b.op, ast.Add) and ip in (norm(b.left), norm(b.right)) for b in ast.walk(inv.node))
    ctx.check(consts == [0, 21] and shapes == [88, 128] and uses, "RANGE", "inverse: 128 rows -> 0, 88 rows -> 21", func=inv,
              construct="inverse-range",
              msg=f"pianoroll_to_notearray must accept 128- and 88-row rolls and add 0 resp. 21 to the row index "
                  f"(offsets {consts}, row counts tested {shapes}, offset added: {uses})")


def run(ctx):
    from ..rules import round6 as _R6
    _R6.rule_restrike_at_release_counts(ctx)
    from ..rules import round5 as _R5c
    _R5c.rule_dispatch_on_whole_argument(ctx)
    from ..rules import round5 as _R5
    _R5.rule_common_divisions_lcm(ctx)
    rule_F9a(ctx)
    rule_view(ctx)
    rule_plumbing(ctx)
    rule_range(ctx)
    X.rule_min_one_frame(ctx)

    def frame_loop(f):
        return next((n for n in own_nodes(f.node) if isinstance(n, ast.For) and isinstance(n.iter, ast.Call) and norm(n.iter.func) == "range"
                     and n.iter.args and norm(n.iter.args[-1]).endswith(".shape[1]")), None)

    def closing_scan(f, loop):
        opened = {norm(a.targets[0]) for a in own_statements(f.node.body) if isinstance(a, ast.Assign) and isinstance(a.value, ast.Dict) and not a.value.keys}
        def scans(s):
            if isinstance(s, ast.For) and isinstance(s.iter, ast.Name) and s.iter.id in opened:
                return True
            # the same scan written as a comprehension: `closed = [n for n in <open notes> if ..]`
            return isinstance(s, ast.Assign) and isinstance(s.value, (ast.ListComp, ast.SetComp, ast.GeneratorExp)) and \
                any(isinstance(g.iter, ast.Name) and g.iter.id in opened for g in s.value.generators)
        return next((s for s in loop.body if scans(s)), None) if loop else None
    X.rule_every_round_passes(ctx, f"{M}:pianoroll_to_notearray", frame_loop, closing_scan, "every frame closes the notes that stopped sounding",
                              "some path through the frame loop of pianoroll_to_notearray skips the scan of the open notes: a note followed by a frame "
                              "the path skips (e.g. an all-silent frame) is not closed there and comes back too long, merged with a later note of the same pitch")
    fs = [ctx.prog.func(f"{M}:{n}") for n in ("compute_pianoroll", "_make_pianoroll", "compute_pitch_class_pianoroll",
                                              "pianoroll_to_notearray", "slice_notearray_by_time", "get_time_units_from_note_array")]
    G.rule_F4d(ctx, fs, "piano roll", floor=3)
    G.rule_F7a(ctx, fs)
    G.rule_F8a(ctx, [f.qname for f in fs], "piano roll")
