"""C17 — spelling, voice and key estimation are total, well-formed and pitch-preserving."""
import ast

from ..core.program import norm, own_nodes
from ..core.types import definite
from ..core.world import world
from ..rules import generic as G
from ..rules.dispatch import find_chain, lift_chain

EXPLANATION = (
    "Static analysis of pitch_spelling / voice_separation / key_identification and their use in load_score_midi. "
    "Decides: (F9b) ps13s1 sorts its input and returns every result array re-indexed by the inverse permutation exactly "
    "once (order independence); (ID) voice estimation scatters results through an id column that is arange(len) of the "
    "input; (F4c) the importer unpacks each analysis result according to its inferred return shape; (F6-profiles) every "
    "key-profile name the validator accepts is dispatched; (F3-KEYS) the 24-row KEYS table agrees with MAJOR_KEYS/"
    "MINOR_KEYS and is in chromatic order as the circulant profiles assume; (F8b) no int() of a rank-1 array; (F8a) "
    "library names resolve."
    ' (GROUPBY) every itertools.groupby is fed data sorted by the same key.'
)
NOT_DECIDED = [
    "spelled pitch sounds the MIDI pitch (numeric algorithm)", "voice numbering without gaps", "key-estimation invariances",
]
PS = "partitura.musicanalysis.pitch_spelling"
VS = "partitura.musicanalysis.voice_separation"
KI = "partitura.musicanalysis.key_identification"
G_ = "partitura.utils.globals"


def rule_F9b(ctx):
    ctx.rule("F9b", "per-row results computed on A[sort_idx] are returned re-indexed by argsort(sort_idx), every returned "
                    "array exactly once")
    f = ctx.prog.func(f"{PS}:ps13s1", "F9b")
    ctx.touch(f)
    assigns = {}
    for n in own_nodes(f.node):
        if isinstance(n, ast.Assign) and len(n.targets) == 1 and isinstance(n.targets[0], ast.Name):
            assigns.setdefault(n.targets[0].id, []).append(n)
    inv = [k for k, v in assigns.items() for a in v
           if (isinstance(a.value, ast.Call) and norm(a.value.func).endswith(".argsort") and isinstance(a.value.func.value, ast.Name))
           or (isinstance(a.value, ast.Call) and norm(a.value.func) in ("np.argsort",) and a.value.args and isinstance(a.value.args[0], ast.Name))]
    # inverse permutation: argsort of a variable that is itself a permutation used to sort the input
    inverse = None
    for k in inv:
        a = assigns[k][0]
        src = a.value.func.value.id if isinstance(a.value.func, ast.Attribute) and isinstance(a.value.func.value, ast.Name) else \
            (a.value.args[0].id if a.value.args and isinstance(a.value.args[0], ast.Name) else None)
        if src and any(f"[{src}]" in norm(x) for x in own_nodes(f.node) if isinstance(x, ast.Subscript)):
            inverse = (k, src)
    ctx.require(inverse is not None, "F9b", f.qname, "sort permutation / inverse permutation not recognised")
    re_idx, sort_idx = inverse
    rets = [n for n in own_nodes(f.node) if isinstance(n, ast.Return)]
    ctx.require(len(rets) == 1 and isinstance(rets[0].value, ast.Tuple), "F9b", f.qname, "single tuple return expected")
    for e in rets[0].value.elts:
        ctx.require(isinstance(e, ast.Name), "F9b", f.qname, "returned value is not a plain name")
        k = sum(1 for a in assigns.get(e.id, []) if norm(a.value) == f"{e.id}[{re_idx}]")
        ctx.check(k == 1, "F9b", f"{f.qname}: `{e.id}` unsorted once", func=f, node=rets[0], construct=f"unsort:{e.id}",
                  msg=f"returned array `{e.id}` is re-indexed by the inverse permutation `{re_idx}` {k} time(s) (expected "
                      f"exactly once): the result for a note would depend on the order of the input rows")


def rule_ids(ctx):
    ctx.rule("ID", "prepare_notearray appends an id column equal to arange(len(input)); estimate_voices writes the result "
                   "through that id")
    f = ctx.prog.func(f"{VS}:prepare_notearray", "ID")
    ctx.touch(f)
    zips = [n for n in own_nodes(f.node) if isinstance(n, ast.Call) and norm(n.func) == "zip" and len(n.args) == 4]
    ctx.require(zips, "ID", f.qname, "row zip not found")
    z = zips[-1]
    bases = {norm(a.value) for a in z.args[:-1] if isinstance(a, ast.Subscript)}
    last = z.args[-1]
    ok = len(bases) == 1 and isinstance(last, ast.Call) and norm(last.func) in ("np.arange", "numpy.arange") and len(last.args) == 1 \
        and norm(last.args[0]) == f"len({next(iter(bases))})"
    ctx.check(ok, "ID", f"{f.qname}: id = arange(len(input))", func=f, node=z, construct="id-column",
              msg=f"the id column is `{norm(last)}`; results are scattered back by it, so it must be the row index 0..n-1 of the input array")
    ev = ctx.prog.func(f"{VS}:estimate_voices", "ID")
    ctx.touch(ev)
    prepared = [norm(a.targets[0]) for a in own_nodes(ev.node) if isinstance(a, ast.Assign) and isinstance(a.value, ast.Call) and norm(a.value.func) == "prepare_notearray"]
    sized = any(isinstance(a, ast.Assign) and isinstance(a.value, ast.Call) and norm(a.value.func) in ("np.empty", "np.zeros", "np.ones") and a.value.args
                and any(norm(a.value.args[0]) == f"len({p})" for p in prepared) for a in own_nodes(ev.node))
    ctx.check(bool(prepared) and sized, "ID", f"{ev.qname}: one slot per input note", func=ev,
              construct="voices-size", msg="the result must have one entry per input row (zero-duration notes included)")


def rule_importer_use(ctx):
    ctx.rule("F4c", "load_score_midi consumes estimate_spelling / estimate_voices / estimate_key according to their inferred "
                    "return shape (a tuple-unpacking of a callee that returns a string or list is a violation)")
    w = world(ctx)
    f = ctx.prog.func("partitura.io.importmidi:load_score_midi", "F4c")
    ctx.touch(f)
    seen = set()
    for n in own_nodes(f.node):
        if isinstance(n, ast.Assign) and isinstance(n.value, ast.Call) and norm(n.value.func) in \
                ("analysis.estimate_spelling", "analysis.estimate_voices", "analysis.estimate_key"):
            name = norm(n.value.func).split(".")[1]
            seen.add(name)
            tg = w.inf.callee(f, n.value)
            ctx.require(len(tg) == 1 and tg[0][0] == "func", "F4c", f.qname, f"callee of {name} not resolved")
            rt = w.inf.ret_type(tg[0][1])
            t = n.targets[0]
            if isinstance(t, (ast.Tuple, ast.List)):
                k = len(t.elts)
                not_tuple = definite(rt) and all(a[0] in ("b", "list") for a in rt) and not any(a == ("b", "ndarray") for a in rt)
                ctx.check(not not_tuple, "F4c", f"{f.qname}: {name} unpacked into {k}", func=f, node=n,
                          construct=f"unpack-nontuple:{name}",
                          msg=f"`{norm(n)[:70]}` unpacks {k} names, but {name} returns a key name string (or a list of key "
                              f"names): ValueError (or garbage for 3-letter names) whenever estimate_key=True")
            else:
                ctx.ok("F4c", f"{f.qname}: {name} bound to one name")
    ctx.require(seen == {"estimate_spelling", "estimate_voices", "estimate_key"}, "F4c", f.qname,
                f"analysis call sites found: {sorted(seen)}")
    # spelling is applied to every note of the file: note_array built from all notes
    arrays = [norm(a.targets[0]) for a in own_nodes(f.node) if isinstance(a, ast.Assign) and isinstance(a.value, ast.Call) and norm(a.value.func) in ("np.array", "numpy.array")
              and any(k.arg == "dtype" and "'pitch'" in norm(k.value) for k in a.value.keywords)]
    sp = [c for c in own_nodes(f.node) if isinstance(c, ast.Call) and norm(c.func) == "analysis.estimate_spelling"]
    ctx.check(len(sp) == 1 and sp[0].args and norm(sp[0].args[0]) in arrays, "F4c", "spelling computed on the array of all notes", func=f,
              construct="spelling-input", msg="estimate_spelling must receive the structured array built from all notes of the file")


def rule_key_source(ctx):
    ctx.rule("KEYSRC", "in load_score_midi a table indexed inside a comprehension is indexed by its own keys, or by the keys "
                       "of a table that is never reset to {} (the estimate_key path empties key_sigs_by_track)")
    f = ctx.prog.func("partitura.io.importmidi:load_score_midi", "KEYSRC")
    emptied = {norm(n.targets[0]) for n in own_nodes(f.node) if isinstance(n, ast.Assign) and isinstance(n.value, ast.Dict)
               and not n.value.keys and len(n.targets) == 1}
    n_sites = 0
    for n in own_nodes(f.node):
        if not isinstance(n, (ast.ListComp, ast.GeneratorExp, ast.SetComp)):
            continue
        for g in n.generators:
            it = g.iter
            src = None
            if isinstance(it, ast.Call) and isinstance(it.func, ast.Attribute) and it.func.attr == "keys":
                src = norm(it.func.value)
            if src is None or not isinstance(g.target, ast.Name):
                continue
            for s in ast.walk(n.elt):
                if isinstance(s, ast.Subscript) and isinstance(s.slice, ast.Name) and s.slice.id == g.target.id:
                    n_sites += 1
                    tbl = norm(s.value)
                    # the emptied table is rebound under a flag, while the indexed one keeps all tracks
                    init_outside = sum(1 for a in own_nodes(f.node) if isinstance(a, ast.Assign) and norm(a.targets[0]) == src
                                       and isinstance(a.value, ast.Dict) and not a.value.keys)
                    ok = tbl == src or init_outside <= 1
                    ctx.check(ok, "KEYSRC", f"{f.qname}: {tbl}[{g.target.id}] for {g.target.id} in {src}.keys()", func=f, node=n,
                              construct=f"foreign-keys:{tbl}<-{src}",
                              msg=f"`{norm(n)[:80]}` indexes `{tbl}` with the keys of `{src}`, which is reset to {{}} on the "
                                  f"estimate_key path: the list is empty and min()/max() of it raises ValueError")
    ctx.require(n_sites >= 1, "KEYSRC", f.qname, "no keyed comprehension found")


def rule_profiles(ctx):
    ctx.rule("F6-profiles", "every key-profile name accepted by the validator (VALID_KEY_PROFILES) has a branch in ks_kid, "
                            "and every name ks_kid dispatches is accepted by the validator; unknown names raise")
    fo = world(ctx).folder
    valid = fo.const(G_, "VALID_KEY_PROFILES")
    f = ctx.prog.func(f"{KI}:ks_kid", "F6-profiles")
    ctx.touch(f)
    chain = find_chain(f, "key_profiles")
    if chain is not None and not any(isinstance(c, ast.Compare) and isinstance(c.ops[0], (ast.NotIn, ast.In)) and isinstance(c.comparators[0], ast.Name)
                                     for c in ast.walk(chain.test)):
        br = lift_chain(chain, "key_profiles")
        accepted = [v for b in br if b.kind in ("in", "eq") for v in b.values]
        ctx.check(any(b.kind == "else" and b.raises for b in br), "F6-profiles", "ks_kid rejects unknown names", func=f,
                  construct="profiles-else", msg="unknown profile names must raise")
        ctx.check(len(br) >= 4, "F6-profiles", "three profile sets", func=f, construct="profile-sets", msg="three profile sets expected")
    else:
        # the same dispatch as a table: `if key_profiles not in TABLE: raise ..` and `key_profiles = TABLE[key_profiles]`
        look = [n for n in own_nodes(f.node) if isinstance(n, ast.Subscript) and isinstance(n.ctx, ast.Load) and isinstance(n.value, ast.Name)
                and norm(n.slice) == "key_profiles"]
        ctx.require(len(look) >= 1, "F6-profiles", f.qname, "profile dispatch not found")
        dnode = f.module.defs.get(look[0].value.id)
        dval = dnode.value if isinstance(dnode, ast.Assign) else None
        ctx.require(isinstance(dval, ast.Dict) and dval.keys and all(isinstance(k, ast.Constant) for k in dval.keys), "F6-profiles", f.qname,
                    f"profile table `{look[0].value.id}` is not a dict literal with constant keys")
        tab = {k.value: norm(v) for k, v in zip(dval.keys, dval.values)}
        accepted = list(tab.keys())
        guard = [i for i in own_nodes(f.node) if isinstance(i, ast.If) and any(isinstance(c, ast.Compare) and isinstance(c.ops[0], ast.NotIn) and norm(c.left) == "key_profiles"
                                                                                   and norm(c.comparators[0]) == look[0].value.id for c in ast.walk(i.test))
                 and any(isinstance(x, ast.Raise) for x in i.body)]
        ctx.check(bool(guard), "F6-profiles", "ks_kid rejects unknown names", func=f, construct="profiles-else", msg="unknown profile names must raise")
        ctx.check(len(set(tab.values())) >= 3, "F6-profiles", "three profile sets", func=f,
                  construct="profile-sets", msg="three profile sets expected")
    for v in valid:
        ctx.check(v in accepted, "F6-profiles", f"validator name {v!r} dispatched", func=f, construct=f"accepted-not-dispatched:{v}",
                  msg=f"estimate_key accepts key_profiles={v!r} (VALID_KEY_PROFILES) but ks_kid has no branch for it: "
                      f"ValueError after validation passed")
    for v in accepted:
        if v in valid:
            ctx.ok("F6-profiles", f"dispatched name {v!r} valid")
        else:
            ctx.note("F6-profiles", f"ks_kid implements key_profiles={v!r} but VALID_KEY_PROFILES rejects it (evidence only: "
                                    f"the property requires validator subset-of dispatcher)", f)


def rule_keys_table(ctx):
    ctx.rule("F3-KEYS", "KEYS has 24 rows: 12 major then 12 minor, row i's tonic has pitch class i mod 12 (chromatic order "
                        "assumed by the circulant profiles), and its fifths value equals its index in MAJOR_KEYS/MINOR_KEYS - 7")
    fo = world(ctx).folder
    keys = fo.const(G_, "KEYS")
    maj = fo.const(G_, "MAJOR_KEYS")
    mnr = fo.const(G_, "MINOR_KEYS")
    bpc = fo.const(G_, "BASE_PC")
    ctx.check(len(keys) == 24, "F3-KEYS", "24 rows", where=f"{G_}:KEYS", file="partitura/utils/globals.py",
              construct="KEYS:length", msg=f"KEYS has {len(keys)} rows")
    for i, row in enumerate(keys):
        ok = len(row) == 3
        if ok:
            root, mode, fifths = row
            pc = (bpc[root[0]] + root.count("#") - root.count("b")) % 12
            lst = maj if mode == "major" else mnr
            ok = mode == ("major" if i < 12 else "minor") and pc == i % 12 and root in lst and lst.index(root) - 7 == fifths
        ctx.check(ok, "F3-KEYS", f"KEYS[{i}] = {row}", where=f"{G_}:KEYS", file="partitura/utils/globals.py",
                  construct=f"KEYS:row{i}", msg=f"row {i} {row}: wrong mode block, not the pitch class {i % 12}, or fifths "
                                                f"disagrees with MAJOR_KEYS/MINOR_KEYS")


def run(ctx):
    from ..rules import round5b as _R5f
    _R5f.rule_successor_index_bounded(ctx)
    from ..rules import round5 as _R5e
    _R5e.rule_octave_from_letter(ctx)
    _R5e.rule_integer_accumulators(ctx, ['partitura.musicanalysis.key_identification', 'partitura.musicanalysis.pitch_spelling'])
    from ..rules import midi as _M4
    _M4.rule_note_pairing(ctx)
    from ..rules import extra as _X4
    _X4.rule_ps13_tables(ctx)
    from ..rules import extra as _X3
    _X3.rule_total_processing_order(ctx)
    rule_F9b(ctx)
    rule_ids(ctx)
    rule_importer_use(ctx)
    rule_key_source(ctx)
    rule_profiles(ctx)
    rule_keys_table(ctx)
    from ..rules import extra as X
    X.rule_groupby_sorted(ctx, (PS, VS, KI))
    ctx.rule("F8b", "no int()/float() conversion of a value that is definitely a rank>=1 array (np.where(..)[0], masks, ...)")
    n = 0
    for modname in (PS, VS, KI):
        for f in ctx.prog.functions_in(modname):
            ctx.touch(f)
            n += 1
            for c in G.scalar_conversion_of_array(f):
                ctx.check(False, "F8b", f"{f.qname}:{norm(c)[:40]}", func=f, node=c, construct=f"int-of-array:{norm(c.args[0])[:40]}",
                          msg=f"`{norm(c)[:80]}` converts a rank-1 array to a Python scalar: TypeError under the installed numpy")
    ctx.ok("F8b", f"{n} functions of the three analysis modules scanned")
    G.rule_F8a(ctx, [f"{PS}:estimate_spelling", f"{VS}:estimate_voices", f"{KI}:estimate_key"], "analyses")
    G.rule_F7a(ctx, [ctx.prog.func(q) for q in (f"{PS}:ps13s1", f"{VS}:estimate_voices", f"{KI}:estimate_key", f"{KI}:ks_kid")])
