"""C09 — unfolding repeats concatenates segments along a valid path and nothing else."""
import ast

from ..core.program import norm, own_nodes
from ..core.world import world
from ..rules import generic as G
from ..rules import ownership as OW
from ..rules import extra as X

EXPLANATION = (
    "Static analysis of the unfolding machinery in score.py. Decides: (F1) the original part is not modified by any of the "
    "unfolding entry points; (EXCL) the classes create_variant_part refuses to copy include every repeat/ending bracket and "
    "jump instruction the property names; (REFS) every copied object is entered in o_map, every new object has "
    "replace_refs(o_map) applied, and every reference attribute the property names (tie, slur, tuplet, grace links, "
    "start/end notes) is registered in _ref_attrs by the class that assigns it; (LINKS) the final loop re-links all "
    "consecutive points of the new part; (IDS) update_ids flows to the one call of update_note_ids_after_unfolding and "
    "the minimal unfolding passes False; (F8b) no int() of a rank-1 array on the unfolding paths."
    ' (MAP-scope) the object map is started afresh for every visited segment.'
)
NOT_DECIDED = [
    "path validity, lengths, counts (2^r variants), per-visit copies, maximal/minimal semantics: a search over the run-time segment graph",
    "Fermata.ref / note.fermata / Note.beam / Beam.notes hold timed objects but are not registered in _ref_attrs (not among the "
    "references the property enumerates: evidence only)",
]
S = "partitura.score"
ENTRIES = [(f"{S}:unfold_part_maximal", ["score"]), (f"{S}:unfold_part_minimal", ["score"]), (f"{S}:iter_unfolded_parts", ["part"]),
           (f"{S}:unfold_part_alignment", ["part"]), (f"{S}:make_score_variants", ["part"]), (f"{S}:new_part_from_path", ["part"]),
           (f"{S}:Part.segments", ["self"])]
REQUIRED_EXCLUDED = {"Repeat", "Ending", "DaCapo", "DalSegno", "ToCoda"}
REQUIRED_REFS = {"tie_prev", "tie_next", "slur_starts", "slur_stops", "tuplet_starts", "tuplet_stops", "grace_prev", "grace_next",
                 "start_note", "end_note"}


def run(ctx):
    from ..rules import round5 as _R5
    _R5.rule_recursion_forwards(ctx, ['partitura.score:unfold_part_maximal', 'partitura.score:unfold_part_minimal'])
    from ..rules import ownership as _OW5
    _OW5.rule_shallow_copy_shares_lists(ctx)
    _OW5.rule_field_owner(ctx)
    from ..rules import extra as _X4
    _X4.rule_ids_over_all_notes(ctx)
    _X4.rule_destinations_deduplicated(ctx)
    from ..rules import extra as _X3
    _X3.rule_jump_recorded_after_reset(ctx)
    prog = ctx.prog
    OW.rule_F1(ctx, ENTRIES, "unfolding entry points")
    cv = prog.func(f"{S}:ScoreVariant.create_variant_part", "EXCL")
    ctx.touch(cv)
    # ---- EXCL
    ctx.rule("EXCL", "the isinstance tuple whose branch skips an object in create_variant_part contains Repeat, Ending, DaCapo, DalSegno, ToCoda")
    excl = None
    for n in own_nodes(cv.node):
        if isinstance(n, ast.If) and isinstance(n.test, ast.Call) and norm(n.test.func) == "isinstance" and isinstance(n.test.args[1], ast.Tuple) \
                and any(isinstance(s, ast.Continue) for s in n.body):
            excl = {norm(e).split(".")[-1] for e in n.test.args[1].elts}
    if excl is None:
        # the skip decision moved into a private predicate: `if self._omit(o, ..): continue` with `if isinstance(o, (..)): return True` inside
        from ..rules import generic as _G9
        for h in _G9.private_callees(prog, cv):
            used_as_skip = any(isinstance(i, ast.If) and any(isinstance(s, ast.Continue) for s in i.body) and
                               any(isinstance(c, ast.Call) and norm(c.func).split(".")[-1] == h.name for c in ast.walk(i.test)) for i in own_nodes(cv.node))
            if not used_as_skip:
                continue
            ctx.touch(h)
            for n in own_nodes(h.node):
                if isinstance(n, ast.If) and isinstance(n.test, ast.Call) and norm(n.test.func) == "isinstance" and isinstance(n.test.args[1], ast.Tuple) \
                        and any(isinstance(s, ast.Return) and isinstance(s.value, ast.Constant) and s.value.value is True for s in n.body):
                    excl = {norm(e).split(".")[-1] for e in n.test.args[1].elts}
    ctx.require(excl is not None, "EXCL", cv.qname, "exclusion tuple not found")
    for c in sorted(REQUIRED_EXCLUDED):
        ctx.check(c in excl, "EXCL", f"{c} not copied", func=cv, construct=f"jump-class-copied:{c}",
                  msg=f"create_variant_part copies `{c}` objects into the unfolded part: the property requires that no repeat or ending "
                      f"brackets and no jump instructions remain")
    # ---- REFS
    ctx.rule("REFS", "copy / o_map / replace_refs pairing in create_variant_part, and registration of the reference attributes in _ref_attrs")
    copies = [n for n in own_nodes(cv.node) if isinstance(n, ast.Assign) and isinstance(n.value, ast.Call) and norm(n.value.func) == "copy"]
    ctx.require(copies, "REFS", cv.qname, "no copy(o)")
    main = [c for c in copies if any(isinstance(p, ast.While) for p in _ancestors(c, cv.node))]
    ctx.require(len(main) == 1, "REFS", cv.qname, "the copy inside the segment walk was not found")
    cp = main[0]
    tgt, src = norm(cp.targets[0]), norm(cp.value.args[0])
    sibs = _ancestors(cp, cv.node)[0].body if hasattr(_ancestors(cp, cv.node)[0], "body") else []
    # the object map and the set of new objects, found by role: M[src] = tgt and S.add(tgt) next to the copy
    maps = [norm(st.targets[0].value) for st in sibs if isinstance(st, ast.Assign) and isinstance(st.targets[0], ast.Subscript)
            and norm(st.targets[0].slice) == src and norm(st.value) == tgt]
    news = [norm(st.value.func.value) for st in sibs if isinstance(st, ast.Expr) and isinstance(st.value, ast.Call) and isinstance(st.value.func, ast.Attribute)
            and st.value.func.attr in ("add", "append") and [norm(a) for a in st.value.args] == [tgt]
            and not norm(st.value.func).startswith(("tp", "part"))]
    news = [n for n in news if any(isinstance(a, ast.Assign) and norm(a.targets[0]) == n and isinstance(a.value, (ast.Call, ast.Set, ast.List))
                                   for a in own_nodes(cv.node))]
    ctx.check(len(maps) == 1, "REFS", "copied object entered in o_map", func=cv, node=cp, construct="o_map-entry",
              msg=f"after `{norm(cp)}` the correspondence <map>[{src}] = {tgt} must be recorded, otherwise references to `{src}` are not redirected")
    ctx.check(len(news) == 1, "REFS", "copy scheduled for reference replacement", func=cv, node=cp, construct="o_new-entry",
              msg=f"`{tgt}` must be added to the collection of new objects so that its own references are replaced")
    omap = maps[0] if maps else "o_map"
    onew = news[0] if news else "o_new"
    repl = [n for n in own_nodes(cv.node) if isinstance(n, ast.For) and norm(n.iter) == onew
            and any(isinstance(c, ast.Call) and norm(c.func).endswith(".replace_refs") and [norm(a) for a in c.args] == [omap] for c in ast.walk(n))]
    ctx.check(len(repl) == 1, "REFS", "replace_refs(o_map) applied to every new object", func=cv, construct="replace_refs-loop",
              msg="every copied object must have replace_refs(<map>) applied: references between copied objects must stay inside the copy")
    # registration of reference attributes
    to = prog.cls(f"{S}:TimedObject", "REFS")
    found = set()
    for ci in [to] + to.all_subclasses():
        assigned = set()
        registered = set()
        for ms in ci.all_methods.values():
            for m in ms:
                for n in own_nodes(m.node):
                    if isinstance(n, ast.Attribute) and isinstance(n.ctx, ast.Store) and isinstance(n.value, ast.Name) and n.value.id == "self":
                        a = n.attr.lstrip("_")
                        if a in REQUIRED_REFS:
                            assigned.add(a)
                    if isinstance(n, ast.Call) and norm(n.func) in ("self._ref_attrs.extend", "self._ref_attrs.append") and n.args:
                        arg = n.args[0]
                        for e in (arg.elts if isinstance(arg, (ast.List, ast.Tuple)) else [arg]):
                            if isinstance(e, ast.Constant):
                                registered.add(e.value)
        inherited = set()
        for c in ci.mro[1:]:
            for ms in c.all_methods.values():
                for m in ms:
                    for n in own_nodes(m.node):
                        if isinstance(n, ast.Call) and norm(n.func) in ("self._ref_attrs.extend", "self._ref_attrs.append") and n.args:
                            arg = n.args[0]
                            for e in (arg.elts if isinstance(arg, (ast.List, ast.Tuple)) else [arg]):
                                if isinstance(e, ast.Constant):
                                    inherited.add(e.value)
        for a in sorted(assigned):
            found.add(a)
            ctx.check(a in registered | inherited, "REFS", f"{ci.name}.{a} registered in _ref_attrs", where=ci.qname, file=ci.module.relpath,
                      construct=f"unregistered-ref:{ci.name}.{a}",
                      msg=f"{ci.name} assigns the reference attribute `{a}` but does not list it in _ref_attrs: a copied {ci.name} keeps "
                          f"pointing at the object of the *original* part")
    ctx.check(REQUIRED_REFS <= found, "REFS", "all named reference attributes exist", where=f"{S}:TimedObject", file="partitura/score.py",
              construct="ref-attrs-missing", msg=f"reference attributes not found in any class: {sorted(REQUIRED_REFS - found)}")
    # evidence-tier: other attributes that hold timed objects
    for cname, attr in (("Fermata", "ref"), ("GenericNote", "fermata"), ("Note", "beam"), ("Beam", "notes")):
        ctx.note("REFS", f"{cname}.{attr} can hold a timed object and is not in _ref_attrs (outside the references the property enumerates)")
    X.rule_replace_refs(ctx)
    X.rule_map_scope(ctx)
    # ---- LINKS
    ctx.rule("LINKS", "after copying, a loop over consecutive points of the new part sets tp.next / tp_next.prev for every pair")
    loops = [n for n in own_nodes(cv.node) if isinstance(n, ast.For) and "iter_current_next" in norm(n.iter) and "._points" in norm(n.iter)]
    ok = False
    if len(loops) == 1 and isinstance(loops[0].target, ast.Tuple) and len(loops[0].target.elts) == 2:
        a, b = (norm(e) for e in loops[0].target.elts)
        body = {norm(s) for s in loops[0].body}
        ok = {f"{a}.next = {b}", f"{b}.prev = {a}"} <= body
    ctx.check(ok, "LINKS", "relinking loop", func=cv, construct="relink-loop",
              msg="the new part's points must be linked pairwise (tp.next = tp_next; tp_next.prev = tp) over iter_current_next(part._points)")
    # ---- IDS
    ctx.rule("IDS", "update_ids reaches the single guarded call of update_note_ids_after_unfolding in new_part_from_path; unfold_part_minimal passes False")
    np_ = prog.func(f"{S}:new_part_from_path", "IDS")
    ctx.touch(np_)
    calls = [n for n in own_nodes(np_.node) if isinstance(n, ast.Call) and norm(n.func) == "update_note_ids_after_unfolding"]
    guarded = len(calls) == 1 and any(isinstance(p, ast.If) and norm(p.test) == "update_ids" for p in _ancestors(calls[0], np_.node))
    ctx.check(guarded, "IDS", "ids suffixed on request only", func=np_, construct="update_ids-guard",
              msg="update_note_ids_after_unfolding must be called exactly once, under `if update_ids:`")
    mn = prog.func(f"{S}:unfold_part_minimal", "IDS")
    c = [n for n in own_nodes(mn.node) if isinstance(n, ast.Call) and norm(n.func) == "new_part_from_path"]
    kw = {k.arg: norm(k.value) for x in c for k in x.keywords}
    ctx.check(kw.get("update_ids") == "False", "IDS", "minimal unfolding keeps ids", func=mn, construct="minimal-update_ids",
              msg="unfold_part_minimal visits every segment once: ids must not be suffixed")
    for q in (f"{S}:unfold_part_maximal", f"{S}:iter_unfolded_parts"):
        f = prog.func(q, "IDS")
        c = [n for n in own_nodes(f.node) if isinstance(n, ast.Call) and norm(n.func) == "new_part_from_path"]
        kw = {k.arg: norm(k.value) for x in c for k in x.keywords}
        ctx.check(kw.get("update_ids") == "update_ids", "IDS", f"{f.name} forwards update_ids", func=f, construct=f"forward-update_ids:{f.name}",
                  msg=f"{f.name} must pass its update_ids option on")
    # ---- F8b / generic
    ctx.rule("F8b", "no int()/float() of a rank>=1 array on some path of the unfolding functions")
    fs = [prog.func(q) for q, _ in ENTRIES] + [cv, prog.func(f"{S}:get_paths"), prog.func(f"{S}:add_segments"), prog.func(f"{S}:unfold_paths")]
    for f in fs:
        ctx.touch(f)
        bad = list(G.scalar_conversion_of_array(f))
        ctx.check(not bad, "F8b", f.name, func=f, node=bad[0] if bad else None, construct=f"int-of-array:{f.name}",
                  msg=f"`{norm(bad[0]) if bad else ''}` converts a rank-1 array to a Python scalar on some path (TypeError under the installed numpy)")
    G.rule_F7a(ctx, fs)
    G.rule_F4d(ctx, fs, "unfolding", floor=10)


def _ancestors(node, stop):
    out = []
    p = getattr(node, "_parent", None)
    while p is not None and p is not stop:
        out.append(p)
        p = getattr(p, "_parent", None)
    return out
