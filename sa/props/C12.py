"""C12 — pitch, key, duration and time-unit conversions are mutually consistent."""
import ast

from ..core.program import norm, own_nodes
from ..core.world import world
from ..rules import generic as G
from ..rules import tables as T

EXPLANATION = (
    "Static analysis by constant folding: the pitch, key, interval, accidental, duration and clef tables of "
    "utils/globals.py (and the accidental tables of utils/music.py / importmusicxml.py) are folded from their "
    "initialisers and checked exhaustively against twelve-tone / circle-of-fifths / dotted-duration identities and "
    "inverse-table laws. Plus: (F7f) the fifths lookups `keylist[fifths + 7]` are bounded from below before the "
    "subscript whose IndexError handler states the belief 'out of range raises'; (F8a) every numpy name the conversion "
    "functions use exists; (RET) the scalar/array dispatch of the tick and frequency conversions returns on every "
    "branch; (READ) to_quarter_tempo reads DOT_MULTIPLIERS and LABEL_DURS."
)
NOT_DECIDED = [
    "arithmetic of key_name_to_fifths_mode, pitch_spelling_to_midi_pitch and the frequency formulas (run-time arithmetic)",
    "rounding of tick conversion at .5",
    "`except TypeError or ValueError` in ensure_pitch_spelling_format (F7g) is evidence only: both paths raise ValueError",
]
MUSIC = "partitura.utils.music"
CONVERSIONS = [f"{MUSIC}:{n}" for n in (
    "pitch_spelling_to_midi_pitch", "midi_pitch_to_pitch_spelling", "note_name_to_pitch_spelling", "note_name_to_midi_pitch",
    "pitch_spelling_to_note_name", "ensure_pitch_spelling_format", "fifths_mode_to_key_name", "key_name_to_fifths_mode",
    "key_mode_to_int", "key_int_to_mode", "to_quarter_tempo", "seconds_to_midi_ticks", "midi_ticks_to_seconds",
    "midi_pitch_to_frequency", "frequency_to_midi_pitch", "clef_sign_to_int", "clef_int_to_sign", "step2pc")]


def rule_F7f(ctx):
    ctx.rule("F7f", "a list subscript T[x + c] on an unconstrained parameter x inside `try ... except IndexError` needs a "
                    "dominating lower-bound test on x: negative indices wrap around instead of raising")
    w = world(ctx)
    f = ctx.prog.func(f"{MUSIC}:fifths_mode_to_key_name", "F7f")
    ctx.touch(f)
    cfg = w.inf.cfg(f)
    dom = cfg.dominators(include_exc=False)
    sites = []
    for n in own_nodes(f.node):
        if isinstance(n, ast.Subscript) and isinstance(n.ctx, ast.Load) and isinstance(n.slice, ast.BinOp) \
                and isinstance(n.slice.op, ast.Add):
            names = [x.id for x in ast.walk(n.slice) if isinstance(x, ast.Name)]
            if len(names) == 1 and names[0] in f.params:
                sites.append((n, names[0]))
    ctx.require(sites, "F7f", f.qname, "the fifths lookup was not found")
    for sub, x in sites:
        st = sub
        while cfg.node_of(st) is None:
            st = st._parent
        sn = cfg.node_of(st)
        guarded = False
        for n in cfg.nodes:
            if n.kind != "test" or n not in dom.get(sn, ()):
                continue
            t = n.ast
            mentions = any(isinstance(c, ast.Compare) and any(isinstance(y, ast.Name) and y.id == x for y in ast.walk(c))
                           and any(isinstance(y, ast.Constant) and isinstance(y.value, (int, float)) for y in ast.walk(c))
                           for c in ast.walk(t))
            if not mentions:
                continue
            # one branch must not reach the subscript (raise / return)
            for m, l in n.succ:
                if l in ("T", "F") and m is not sn and not cfg.reaches(m, sn):
                    guarded = True
        ctx.check(guarded, "F7f", f"{f.qname}:{norm(sub)}", func=f, node=sub, construct=f"unbounded-below:{norm(sub)}",
                  msg=f"`{norm(sub)}` relies on IndexError to reject out-of-range `{x}`, but nothing bounds `{x}` from "
                      f"below: values below -7 wrap around to another key (fifths=-8 -> 'C#') instead of being rejected")


def rule_returns(ctx):
    ctx.rule("RET", "the scalar/array dispatch of seconds_to_midi_ticks, midi_ticks_to_seconds, midi_pitch_to_frequency "
                    "has a return on every branch; to_quarter_tempo reads DOT_MULTIPLIERS and LABEL_DURS")
    w = world(ctx)
    for name in ("seconds_to_midi_ticks", "midi_ticks_to_seconds", "midi_pitch_to_frequency"):
        f = ctx.prog.func(f"{MUSIC}:{name}", "RET")
        ctx.touch(f)
        cfg = w.inf.cfg(f)
        falls = [p for p, l in cfg.exit.pred if not (p.kind == "stmt" and isinstance(p.ast, ast.Return))]
        ctx.check(not falls, "RET", f"{f.qname}: returns on every path", func=f, construct=f"{name}:falls-off",
                  msg=f"{name} can fall off the end (returns None) for some input type")
    tq = ctx.prog.func(f"{MUSIC}:to_quarter_tempo", "RET")
    ctx.touch(tq)
    reads = {n.id for n in ast.walk(tq.node) if isinstance(n, ast.Name)}
    ctx.check({"DOT_MULTIPLIERS", "LABEL_DURS"} <= reads, "RET", "to_quarter_tempo reads the duration tables", func=tq,
              construct="to_quarter_tempo:tables", msg="to_quarter_tempo must derive unit lengths from LABEL_DURS and DOT_MULTIPLIERS")
    sm = ctx.prog.func(f"{MUSIC}:seconds_to_midi_ticks", "RET")
    rounds = [n for n in ast.walk(sm.node) if isinstance(n, ast.Call) and norm(n.func) in ("np.round", "round", "np.rint")]
    ints = [n for n in ast.walk(sm.node) if isinstance(n, ast.Call) and (norm(n.func) == "int" or norm(n.func).endswith(".astype"))]
    ok = bool(rounds) and all(any(isinstance(x, ast.Name) and x.id in {norm(t) for a in ast.walk(sm.node) if isinstance(a, ast.Assign)
                                                                       and a.value in rounds for t in a.targets}
                                  or x in rounds for x in ast.walk(i)) for i in ints)
    ctx.check(ok, "RET", "seconds_to_midi_ticks rounds before converting to int", func=sm, construct="ticks:round-before-int",
              msg="ticks = round(1e6*ppq*seconds/mpq): the value converted to int must be the rounded one in both branches")


def run(ctx):
    from ..rules import round5 as _R5
    _R5.rule_pitch_linear(ctx)
    from ..rules import extra as _X4
    _X4.rule_accidentals_repeat(ctx)
    _, bpc, steps = T.pitch_tables(ctx)
    T.key_tables(ctx, bpc)
    T.interval_tables(ctx, bpc, steps)
    T.accidental_tables(ctx)
    T.duration_tables(ctx)
    T.clef_tables(ctx)
    from .C10 import rule_codes
    rule_codes(ctx)
    rule_F7f(ctx)
    rule_returns(ctx)
    G.rule_F8a(ctx, CONVERSIONS, "conversions")
    eps = ctx.prog.func(f"{MUSIC}:ensure_pitch_spelling_format")
    for h in G.except_or_sites(eps):
        ctx.note("F7g", f"`except {norm(h.type)}` catches only the first class; harmless here (the uncaught ValueError of "
                        f"int() is the documented exception class)", eps, h)
