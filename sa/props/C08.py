"""C08 — saving an alignment as a match file and loading it returns the same data."""
import ast

from ..core.program import norm, own_nodes, own_statements
from ..core.world import world
from ..rules import generic as G
from ..rules import extra as X
from ..rules.dispatch import find_chain, lift_chain

EXPLANATION = (
    "Static analysis of exportmatch.matchfile_from_alignment and importmatch (performed_part_from_match, "
    "part_from_matchfile, note_alignment_from_matchfile). Decides: (F7c) no loop variable of an exhausted loop is used in "
    "a later loop (the key-signature loop must use its own variable); (SIB-sig) on import the time- and key-signature "
    "loops both pass the computed bar start to part.add; (F10-sib) every timeline position computed from `divs * "
    "<float>` rounds before int, like barlines and onsets; (F5e) controller 64 <-> sustain, 67 <-> soft in exporter and "
    "importer; (CLOCK) the exporter writes int(ppq)/int(mpq) to midiClockUnits/Rate and converts seconds with the same "
    "pair, the importer reads those attributes, converts with them and hands them to PerformedPart; (F6-labels) the four "
    "alignment labels the exporter dispatches are the four the importer produces; (F8b/F4d/F7a/F8a)."
    " (TICK-src) every tick handed to a pedal or note line constructor is the result of seconds_to_midi_ticks with the header's mpq and ppq."
)
NOT_DECIDED = [
    "everything about the reconstructed score's values (beat/offset arithmetic, divisions inference): run-time",
    "de-duplication semantics of validate_match_ids", "read-only-ness of the exporter is decided under C20",
]
EM, IM = "partitura.io.exportmatch", "partitura.io.importmatch"


def run(ctx):
    from ..rules import round5 as _R5
    _R5.rule_eq_covers_fields(ctx, 'partitura.io.matchfile_utils')
    prog = ctx.prog
    w = world(ctx)
    # ---- F7c
    ctx.rule("F7c", "a loop variable is not read after its loop has run to exhaustion (no break) unless reassigned first")
    exp = prog.func(f"{EM}:matchfile_from_alignment", "F7c")
    ctx.touch(exp)
    hits = G.loop_var_after_loop(exp)
    loops = [n for n in own_nodes(exp.node) if isinstance(n, ast.For)]
    ctx.floor("F7c", "for loops in matchfile_from_alignment", len(loops), 6)
    seen = set()
    for loop, name, use in hits:
        if (name, use.lineno) in seen:
            continue
        seen.add((name, use.lineno))
        ctx.check(False, "F7c", f"{exp.qname}:{name}", func=exp, node=use, construct=f"stale-loop-variable:{name}",
                  msg=f"`{name}` is the variable of the loop at line {loop.lineno}; it is read at line {use.lineno} after that loop "
                      f"has finished: the value belongs to the last iteration (or the name is unbound when the loop did not run)")
    if not hits:
        ctx.ok("F7c", f"{exp.qname}: no loop variable is used after its loop")
    # ---- SIB-sig
    ctx.rule("SIB-sig", "part_from_matchfile: the time-signature loop and the key-signature loop both compute bar_start_divs and "
                        "pass it as the position to part.add")
    imp = prog.func(f"{IM}:part_from_matchfile", "SIB-sig")
    ctx.touch(imp)
    n_sig = 0
    for loop in [n for n in own_nodes(imp.node) if isinstance(n, ast.For)]:
        adds = [c for c in ast.walk(loop) if isinstance(c, ast.Call) and isinstance(c.func, ast.Attribute) and c.func.attr == "add" and c.args
                and isinstance(c.args[0], ast.Call) and norm(c.args[0].func) in ("score.TimeSignature", "score.KeySignature")]
        if not adds:
            continue
        computed = {norm(a.targets[0]) for a in ast.walk(loop) if isinstance(a, ast.Assign) and "bar_times" in norm(a.value)}
        for c in adds:
            n_sig += 1
            pos = norm(c.args[1]) if len(c.args) > 1 else None
            ctx.check(pos in computed, "SIB-sig", f"{norm(c.args[0].func)} added at {pos}", func=imp, node=c,
                      construct=f"signature-position:{norm(c.args[0].func)}",
                      msg=f"`{norm(c)[:80]}`: the position must be the bar start computed in this loop ({sorted(computed)}), not "
                          f"`{pos}` — signatures belong at the start of the bar where they were written")
    ctx.floor("SIB-sig", "signature insertions", n_sig, 2)
    # ---- F10-sib
    ctx.rule("F10-sib", "part_from_matchfile: every int() of an expression that multiplies by `divs` rounds first (positions on "
                        "the timeline are nearest-integer images of quarter times)")
    n = 0
    # the divisions variable, by role: the local defined as np.lcm.reduce(...)
    divs_names = {norm(a.targets[0]) for a in own_nodes(imp.node) if isinstance(a, ast.Assign) and isinstance(a.value, ast.Call)
                  and norm(a.value.func) == "np.lcm.reduce" and isinstance(a.targets[0], ast.Name)}
    ctx.require(divs_names, "F10-sib", imp.qname, "divisions variable (np.lcm.reduce) not found")
    for c in own_nodes(imp.node):
        if isinstance(c, ast.Call) and isinstance(c.func, ast.Name) and c.func.id == "int" and len(c.args) == 1:
            arg = c.args[0]
            # a *position*: divs * (<quarter time> - offset); pure product chains (durations of exact fractions) are not judged
            if any(isinstance(b, ast.BinOp) and isinstance(b.op, ast.Mult)
                   and ((isinstance(b.left, ast.Name) and b.left.id in divs_names and isinstance(b.right, ast.BinOp) and isinstance(b.right.op, (ast.Add, ast.Sub)))
                        or (isinstance(b.right, ast.Name) and b.right.id in divs_names and isinstance(b.left, ast.BinOp) and isinstance(b.left.op, (ast.Add, ast.Sub))))
                   for b in ast.walk(arg)):
                n += 1
                rounded = isinstance(arg, ast.Call) and norm(arg.func) in ("round", "np.round", "np.rint")
                ctx.check(rounded, "F10-sib", f"{imp.qname}:{norm(c)[:50]}", func=imp, node=c, construct=f"truncated-position:{norm(arg)[:40]}",
                          msg=f"`{norm(c)[:80]}` truncates where its siblings (barlines, note onsets) round: the position is one "
                              f"division early whenever the float product falls just below an integer")
    ctx.floor("F10-sib", "int(divs * (time - offset)) conversions", n, 4)
    # ---- F5e controllers
    ctx.rule("F5e", "controller numbers: 64 <-> sustain pedal line, 67 <-> soft pedal line in exporter and importer")
    pairs = {}
    for s in own_nodes(exp.node):
        if isinstance(s, ast.If) and isinstance(s.test, ast.Compare) and "number" in norm(s.test.left) and isinstance(s.test.comparators[0], ast.Constant):
            cls = {norm(c.func) for b in s.body for c in ast.walk(b) if isinstance(c, ast.Call) and "Pedal" in norm(c.func)}
            pairs[s.test.comparators[0].value] = cls
    ctx.check(pairs.get(64) == {"MatchSustainPedal"} and pairs.get(67) == {"MatchSoftPedal"}, "F5e", "exporter: 64->sustain, 67->soft", func=exp,
              construct="export-controller-kinds", msg=f"exporter maps controllers to line classes as {pairs}")
    pp = prog.func(f"{IM}:performed_part_from_match", "F5e")
    ctx.touch(pp)
    got = {}
    for a in own_nodes(pp.node):
        if isinstance(a, ast.Assign) and isinstance(a.value, ast.ListComp) and isinstance(a.value.elt, ast.Call) and norm(a.value.elt.func) == "dict":
            num = next((k.value.value for k in a.value.elt.keywords if k.arg == "number" and isinstance(k.value, ast.Constant)), None)
            got[norm(a.value.generators[0].iter)] = num
    ctx.check(got.get("mf.sustain_pedal") == 64 and got.get("mf.soft_pedal") == 67, "F5e", "importer: sustain->64, soft->67", func=pp,
              construct="import-controller-kinds", msg=f"importer builds controls as {got}")
    # ---- CLOCK
    ctx.rule("CLOCK", "the exporter writes midiClockUnits=int(ppq), midiClockRate=int(mpq) and converts seconds to ticks with the same "
                      "pair; the importer reads those attributes, converts with them and constructs PerformedPart(ppq=, mpq=) from them")
    hdr = {}
    for c in own_nodes(exp.node):
        if isinstance(c, ast.Call) and norm(c.func) == "make_info":
            kw = {k.arg: k.value for k in c.keywords}
            if "attribute" in kw and isinstance(kw["attribute"], ast.Constant):
                hdr[kw["attribute"].value] = norm(kw["value"]) if "value" in kw else None
    ctx.check(hdr.get("midiClockUnits") == "int(ppq)" and hdr.get("midiClockRate") == "int(mpq)", "CLOCK", "header clock lines", func=exp,
              construct="header-clock", msg=f"midiClockUnits={hdr.get('midiClockUnits')}, midiClockRate={hdr.get('midiClockRate')}")
    conv = [c for c in own_nodes(exp.node) if isinstance(c, ast.Call) and norm(c.func) == "seconds_to_midi_ticks"]
    ctx.floor("CLOCK", "seconds_to_midi_ticks calls in the exporter", len(conv), 3)
    for c in conv:
        kw = {k.arg: norm(k.value) for k in c.keywords}
        ctx.check(kw.get("mpq") == "mpq" and kw.get("ppq") == "ppq", "CLOCK", f"exporter converts with (mpq, ppq): {norm(c)[:40]}", func=exp, node=c,
                  construct="export-conversion-clock", msg=f"`{norm(c)[:80]}` must use the mpq/ppq written into the header")
    defs = {norm(a.value): norm(a.targets[0]) for a in own_nodes(pp.node) if isinstance(a, ast.Assign) and isinstance(a.targets[0], ast.Name)
            and norm(a.value) in ("mf.info('midiClockRate')", "mf.info('midiClockUnits')")}
    i_mpq, i_ppq = defs.get("mf.info('midiClockRate')"), defs.get("mf.info('midiClockUnits')")
    ctx.check(i_mpq is not None and i_ppq is not None, "CLOCK", "importer reads the header clock",
              func=pp, construct="import-clock-source", msg=f"importer clock: {defs}")
    for c in [c for c in own_nodes(pp.node) if isinstance(c, ast.Call) and norm(c.func) == "midi_ticks_to_seconds"]:
        ok = [norm(a) for a in c.args[1:]] == [i_mpq, i_ppq] or {k.arg: norm(k.value) for k in c.keywords} == {"mpq": i_mpq, "ppq": i_ppq}
        ctx.check(ok, "CLOCK", f"importer converts with (mpq, ppq): {norm(c)[:40]}", func=pp, node=c, construct="import-conversion-clock",
                  msg=f"`{norm(c)[:80]}` must convert with the file's clock")
    ctor = [c for c in own_nodes(pp.node) if isinstance(c, ast.Call) and norm(c.func) == "PerformedPart"]
    ctx.require(len(ctor) == 1, "CLOCK", pp.qname, "PerformedPart construction not found")
    kw = {k.arg: norm(k.value) for k in ctor[0].keywords}
    ctx.check(kw.get("ppq") == i_ppq and kw.get("mpq") == i_mpq and i_ppq is not None, "CLOCK", "PerformedPart carries the file's clock", func=pp, node=ctor[0],
              construct="ppart-clock-dropped",
              msg="performed_part_from_match builds the PerformedPart without the file's ppq/mpq: clock units and rate are lost "
                  "(the part reports ticks under the default 480/500000)")
    # ---- labels
    ctx.rule("F6-labels", "alignment labels: the exporter dispatches exactly {match, deletion, insertion, ornament}; the importer produces exactly those")
    labv = [norm(a.targets[0]) for a in own_nodes(exp.node) if isinstance(a, ast.Assign) and isinstance(a.value, ast.Subscript)
            and isinstance(a.value.slice, ast.Constant) and a.value.slice.value == "label" and isinstance(a.targets[0], ast.Name)]
    ctx.require(len(labv) == 1, "F6-labels", exp.qname, "label variable not found")
    chain = find_chain(exp, labv[0], 3)
    ctx.require(chain is not None, "F6-labels", exp.qname, "label dispatch not found")
    disp = {v for b in lift_chain(chain, labv[0]) if b.kind == "eq" for v in b.values}
    na = prog.func(f"{IM}:note_alignment_from_matchfile", "F6-labels")
    ctx.touch(na)
    prod = {k.value.value for c in own_nodes(na.node) if isinstance(c, ast.Call) and norm(c.func) == "dict" for k in c.keywords
            if k.arg == "label" and isinstance(k.value, ast.Constant)}
    want = {"match", "deletion", "insertion", "ornament"}
    ctx.check(disp == want and prod == want, "F6-labels", f"exporter {sorted(disp)} / importer {sorted(prod)}", func=exp, construct="alignment-labels",
              msg=f"exporter handles {sorted(disp)}, importer produces {sorted(prod)}; both must be {sorted(want)}")
    X.rule_signature_dedupe_siblings(ctx)
    X.rule_tick_provenance(ctx)
    # ---- generic
    fs = [exp, prog.func(f"{EM}:save_match"), pp, imp, na, prog.func(f"{IM}:load_match"), prog.func(f"{IM}:load_matchfile")]
    G.rule_F7a(ctx, fs)
    G.rule_F4d(ctx, fs, "match import/export", floor=20)
    ctx.rule("F8b", "no int()/float() of a rank>=1 array on the exporter's path (get_matched_notes)")
    for gq in ("partitura.musicanalysis.performance_codec:get_matched_notes", "partitura.score:unfold_part_alignment",
               "partitura.musicanalysis.performance_codec:get_time_maps_from_alignment", f"{EM}:matchfile_from_alignment"):
        gm = prog.func(gq, "F8b")
        ctx.touch(gm)
        bad = list(G.scalar_conversion_of_array(gm))
        ctx.check(not bad, "F8b", gm.name, func=gm, node=bad[0] if bad else None, construct=f"int-of-array:{gm.name}",
                  msg=f"`{norm(bad[0]) if bad else ''}`: int() of a rank-1 index array on some path: the exporter cannot produce a "
                      f"file under the installed numpy")
    G.rule_F8a(ctx, [f"{EM}:matchfile_from_alignment", f"{EM}:save_match", f"{IM}:load_match"], "match io", max_depth=5)
