"""C19 — MEI and Humdrum kern files load to the notes their notation denotes."""
import ast

from ..core.program import norm, own_nodes
from ..core.world import world
from ..rules import generic as G
from ..rules import extra as X
from ..rules.dispatch import find_chain, lift_chain

EXPLANATION = (
    "Static analysis of the kern/MEI readers' and writers' tables, the writers' calls into the library, and the loader "
    "dispatch. Decides: (F5d) exporter tables are inverses of the importer tables on the exporter's domain (kern pitch "
    "letters, kern durations, kern and MEI accidentals, MEI durations), SYMBOLIC_TO_INT_DURS*LABEL_DURS = 4; (UNIVERSE) "
    "every duration type a reader can produce is a key of LABEL_DURS; (F4d/F4e) the exporters call library functions with "
    "conforming arguments and read only attributes their isinstance-narrowed elements have; (F6-load) load_score maps each "
    "extension family to its reader, lower-cases the extension on every path and raises otherwise; (F8a/F7a)."
    ' (ITER-local) the staff of each MEI chord note is assigned on every path of the loop round.'
    ' (DOTS-fold) importkern.dot_function folded at 45 constant argument pairs in exact rationals equals d*2^k/(2^(k+1)-1).'
)
NOT_DECIDED = [
    "what a given MEI/kern document denotes (parsing semantics of two formats: run-time)",
    "kern measure ends assigned outside the timeline registries (F2a exception, reported under C01 evidence)",
]
G_ = "partitura.utils.globals"
EK, IK, EM = "partitura.io.exportkern", "partitura.io.importkern", "partitura.io.exportmei"


def _fail(ctx, cond, inst, where, file, tag, msg):
    ctx.check(bool(cond), "F5d", inst, where=where, file=file, construct=tag, msg=msg)


def rule_tables(ctx):
    ctx.rule("F5d", "exporter table o importer table = identity on the exporter's domain")
    ctx.rule("UNIVERSE", "every duration type name a reader can produce (KERN_DURS, MEI_DURS_TO_SYMBOLIC values) is a key of LABEL_DURS")
    fo = world(ctx).folder
    xf = world(ctx).xfolder
    ek_notes, ik_notes = fo.const(EK, "KERN_NOTES"), fo.const(IK, "KERN_NOTES")
    bad = [(k, v) for k, v in ek_notes.items() if ik_notes.get(v) != k]
    _fail(ctx, not bad and len(ek_notes) == 14, "kern pitch letters", f"{EK}:KERN_NOTES", "partitura/io/exportkern.py",
          "KERN_NOTES:not-inverse", f"exported kern pitch letters do not read back as the same (step, octave): {bad}")
    ek_durs, ik_durs = fo.const(EK, "KERN_DURS"), fo.const(IK, "KERN_DURS")
    bad = [(k, v) for k, v in ek_durs.items() if (ik_durs.get(v) or {}).get("type") != k]
    _fail(ctx, not bad, "kern durations", f"{EK}:KERN_DURS", "partitura/io/exportkern.py", "KERN_DURS:not-inverse",
          f"exported kern duration codes do not read back as the same type: {bad}")
    acc, sign = fo.const(EK, "ACC_TO_SIGN"), fo.const(IK, "SIGN_TO_ACC")
    bad = [(k, v) for k, v in acc.items() if sign.get(v) != k]
    _fail(ctx, not bad, "kern accidentals", f"{EK}:ACC_TO_SIGN", "partitura/io/exportkern.py", "ACC_TO_SIGN:not-inverse",
          f"exported kern accidentals do not read back as the same alteration: {bad}")
    a2m = fo.const(EM, "ALTER_TO_MEI")
    s2a = fo.const("partitura.utils.music", "SIGN_TO_ALTER")
    bad = [(k, v) for k, v in a2m.items() if s2a.get(v) != k]
    _fail(ctx, not bad, "MEI accidentals", f"{EM}:ALTER_TO_MEI", "partitura/io/exportmei.py", "ALTER_TO_MEI:not-inverse",
          f"exported MEI accid values do not read back (SIGN_TO_ALTER) as the same alteration: {bad}")
    m2s = fo.const(G_, "MEI_DURS_TO_SYMBOLIC")
    s2m = dict(fo.const(EM, "SYMBOLIC_TYPES_TO_MEI_DURS"))
    # module-level additions  T[key] = value
    em = ctx.prog.module(EM)
    for st in em.tree.body:
        if isinstance(st, ast.Assign) and isinstance(st.targets[0], ast.Subscript) and norm(st.targets[0].value) == "SYMBOLIC_TYPES_TO_MEI_DURS":
            s2m[fo.expr(st.targets[0].slice, em)] = fo.expr(st.value, em)
    label = xf.const(G_, "LABEL_DURS")
    bad = []
    for sym, code in s2m.items():
        back = m2s.get(code)
        if back is None or label.get(back) != label.get(sym):
            bad.append((sym, code, back))
    _fail(ctx, not bad, "MEI durations", f"{EM}:SYMBOLIC_TYPES_TO_MEI_DURS", "partitura/io/exportmei.py",
          "SYMBOLIC_TYPES_TO_MEI_DURS:not-inverse",
          f"exported MEI dur codes do not read back as a type of the same length: {bad}")
    s2i = xf.const(G_, "SYMBOLIC_TO_INT_DURS")
    for t, v in s2i.items():
        _fail(ctx, t in label and v * label[t] == 4, f"SYMBOLIC_TO_INT_DURS[{t}]", f"{G_}:SYMBOLIC_TO_INT_DURS",
              "partitura/utils/globals.py", f"SYMBOLIC_TO_INT_DURS:{t}", f"{t}: {v} * {label.get(t)} != 4")
    for src, types in (("importkern.KERN_DURS", [v.get("type") for v in ik_durs.values()]),
                       ("MEI_DURS_TO_SYMBOLIC", list(m2s.values()))):
        for t in types:
            ctx.check(t in label, "UNIVERSE", f"{src}: {t}", where=f"{G_}:LABEL_DURS", file="partitura/utils/globals.py",
                      construct=f"unknown-duration-type:{t}",
                      msg=f"{src} can produce the duration type {t!r}, which is not a key of LABEL_DURS: converting it to a "
                          f"numeric duration raises KeyError")


def rule_load_dispatch(ctx):
    ctx.rule("F6-load", "load_score: {.mxl .xml .musicxml} -> load_musicxml, {.mid .midi} -> load_score_midi, .mei -> load_mei, "
                        "{.krn .kern} -> load_kern, .match -> load_match; raising else; the extension is lower-cased on every "
                        "path that reaches the dispatch")
    f = ctx.prog.func("partitura.io:load_score", "F6-load")
    ctx.touch(f)
    exts = {norm(a.targets[0]) for a in own_nodes(f.node) if isinstance(a, ast.Assign) and isinstance(a.targets[0], ast.Name) and "splitext" in norm(a.value)}
    ctx.require(len(exts) == 1, "F6-load", f.qname, "extension variable (os.path.splitext) not found")
    extv = next(iter(exts))
    chain = find_chain(f, extv, 4)
    ctx.require(chain is not None, "F6-load", f.qname, "extension dispatch not found")
    br = lift_chain(chain, extv)
    want = {"load_musicxml": {".mxl", ".xml", ".musicxml"}, "load_score_midi": {".mid", ".midi"}, "load_mei": {".mei"},
            "load_kern": {".krn", ".kern"}, "load_match": {".match"}}
    got = {}
    for b in br:
        if b.kind not in ("in", "eq"):
            continue
        calls = {norm(c.func) for s in b.body for c in ast.walk(s) if isinstance(c, ast.Call) and norm(c.func).startswith("load_")}
        for c in calls:
            got.setdefault(c, set()).update(b.values)
    for fn, exts in want.items():
        ctx.check(got.get(fn) == exts, "F6-load", f"{fn} <- {sorted(exts)}", func=f, construct=f"loader:{fn}",
                  msg=f"extensions routed to {fn}: {sorted(got.get(fn, []))}, expected {sorted(exts)}")
    ctx.check(any(b.kind == "else" and b.raises for b in br), "F6-load", "unknown extension raises", func=f,
              construct="loader:else", msg="an unsupported extension must raise")
    defs = [n for n in own_nodes(f.node) if isinstance(n, ast.Assign) and norm(n.targets[0]) == extv]
    ctx.require(defs, "F6-load", f.qname, "no definition of `extension`")
    for d in defs:
        ok = isinstance(d.value, ast.Call) and isinstance(d.value.func, ast.Attribute) and d.value.func.attr == "lower"
        ctx.check(ok, "F6-load", f"extension lower-cased: {norm(d.value)[:40]}", func=f, node=d,
                  construct=f"extension-not-lowered:{norm(d.value)[:30]}",
                  msg=f"`{norm(d)[:70]}` does not lower-case the extension: an upper-case suffix picks no reader on this path")


def run(ctx):
    from ..rules import round6 as _R6
    _R6.rule_kern_dots_closed_form(ctx)
    from ..rules import round5 as _R5b
    _R5b.rule_statement_order_siblings(ctx)
    from ..rules import round5 as _R5
    _R5.rule_number_patterns_quantified(ctx, ['partitura.io.importkern', 'partitura.io.importmei'])
    from ..rules import extra as _X3
    _X3.rule_shared_divisions_lcm(ctx)
    rule_tables(ctx)
    rule_load_dispatch(ctx)
    X.rule_truncated_quotient(ctx, ("partitura.io.importmei", "partitura.io.importkern"))
    X.rule_per_iteration_staff(ctx)
    prog = ctx.prog
    exporters = [f for f in prog.functions.values() if f.module.name in (EK, EM) and "#" not in f.qname]
    G.rule_F4d(ctx, exporters, "kern/MEI exporters", floor=10)
    G.rule_F4e(ctx, exporters, "kern/MEI exporters")
    G.rule_F7a(ctx, exporters)
    G.rule_F8a(ctx, [f"{EK}:save_kern", f"{EM}:save_mei", "partitura.io:load_score"], "kern/MEI/loader", max_depth=6)
