"""C02 — quarter and beat maps are exact, monotone and mutually inverse."""
import ast

from ..core.program import norm, own_nodes
from ..core.world import world
from ..rules import generic as G
from ..rules import extra as X

EXPLANATION = (
    "Static analysis of Part._time_interpolator and the five map properties — a deliberately thin slice, stated plainly: "
    "(SIB-inv) each forward/inverse pair builds its interpolator with identical arguments except `inv`, the beat pair "
    "branches on the musical-beat flag identically, and inside the constructor the inverse branch returns interp1d over "
    "the same two arrays swapped; (INTEGRAND) the cumulative sum integrates column2 * diff(time) / column1 where column1 is "
    "filled from the quarter table and column2 with beat_type/4 (times musical_beats/beats in musical-beat mode), i.e. the "
    "documented d/q and (d/q)*(beat_type/4) form; (PICKUP) the origin shift is present, guarded by actual < normal "
    "duration of the first measure, with the three unit variants of the normal duration; (READSET) the constructor reads "
    "the quarter table, the time signatures, first/last point and the first measure; (OWN-beat) the beat-mode flag and "
    "TimeSignature.musical_beats are written only by their owners and defaults come from MUSICAL_BEATS; (QDMAP) the "
    "quarter-duration map is a previous-value interpolator clamped to the first/last entry."
    ' Also (F2b/F2c, shared with C01) every write of the quarter table refreshes the cached map, its index arithmetic stays in range on every order type.'
)
NOT_DECIDED = [
    "exact values at arbitrary positions, continuity and monotonicity across change points, single-point parts: arithmetic over "
    "run-time arrays — no structural rule distinguishes a correct cumulative sum from an incorrect one beyond the integrand's form",
    "behaviour of utils.generic.interp1d for single samples",
]
S = "partitura.score"
P = f"{S}:Part"


def _kwargs(call):
    return {k.arg: norm(k.value) for k in call.keywords}


def run(ctx):
    from ..rules import round5 as _R5
    _R5.rule_mode_parameter_only(ctx)
    prog = ctx.prog
    ti = prog.func(f"{P}._time_interpolator", "C02")
    ctx.touch(ti)
    # ---- SIB-inv
    ctx.rule("SIB-inv", "forward and inverse map properties call _time_interpolator with the same arguments except inv=True; inside, "
                        "`if inv: return interp1d(y, x) else: return interp1d(x, y)`")
    def calls_of(name):
        f = prog.func(f"{P}.{name}", "SIB-inv")
        ctx.touch(f)
        out = []
        for n in own_nodes(f.node):
            if isinstance(n, ast.Return) and isinstance(n.value, ast.Call) and norm(n.value.func) == "self._time_interpolator":
                # path condition of the return (enclosing branches and earlier `if c: return` guards), so that
                # `if c: return A else: return B` and `if c: return A` / `return B` read the same
                conds = sorted(X._path_conditions(n, f.node))
                guard = None
                if len(conds) == 1:
                    c = conds[0]
                    guard = (c[5:-1], False) if c.startswith("not (") and c.endswith(")") else (c, True)
                elif conds:
                    guard = tuple(conds)
                out.append((guard, _kwargs(n.value)))
        return f, out
    for fwd, inv in (("beat_map", "inv_beat_map"), ("quarter_map", "inv_quarter_map")):
        ff, a = calls_of(fwd)
        fi, b = calls_of(inv)
        ok = len(a) == len(b) and len(a) >= 1
        if ok:
            for (g1, k1), (g2, k2) in zip(sorted(a, key=str), sorted(b, key=str)):
                k2x = dict(k2)
                if k2x.pop("inv", None) != "True" or "inv" in k1 or g1 != g2 or k1 != k2x:
                    ok = False
        ctx.check(ok, "SIB-inv", f"{fwd} / {inv}", func=fi, construct=f"inverse-pair:{inv}",
                  msg=f"{inv} must build the same interpolator as {fwd} with inv=True (forward: {a}, inverse: {b}): the inverse map must undo the forward map")
    bm = calls_of("beat_map")[1]
    ok = {g for g, _ in bm} == {("self._use_musical_beat", True), ("self._use_musical_beat", False)} and \
        all((k.get("musical_beat") == "True") == g[1] for g, k in bm)
    ctx.check(ok, "SIB-inv", "beat_map switches on the musical-beat flag", func=prog.func(f"{P}.beat_map"), construct="beat-mode-switch",
              msg="beat_map must pass musical_beat=True exactly when self._use_musical_beat is set")
    qm = calls_of("quarter_map")[1]
    ctx.check(len(qm) == 1 and qm[0][1] == {"quarter": "True"}, "SIB-inv", "quarter_map uses quarter=True", func=prog.func(f"{P}.quarter_map"),
              construct="quarter-map-args", msg="quarter_map must be _time_interpolator(quarter=True)")
    rets = [n for n in own_nodes(ti.node) if isinstance(n, ast.Return) and isinstance(n.value, ast.Call) and norm(n.value.func) == "interp1d"]
    pairs = {}
    for r in rets:
        conds = X._path_conditions(r, ti.node)
        if "inv" in conds or "not (inv)" in conds:
            pairs["inv" if "inv" in conds else "fwd"] = [norm(a) for a in r.value.args]
    ok = "inv" in pairs and "fwd" in pairs and pairs["inv"] == list(reversed(pairs["fwd"])) and len(pairs["fwd"]) == 2 and pairs["fwd"][0] != pairs["fwd"][1]
    ctx.check(ok, "SIB-inv", f"interp1d{tuple(pairs.get('fwd', ()))} / interp1d{tuple(pairs.get('inv', ()))}", func=ti, construct="inverse-swap",
              msg=f"the inverse interpolator must be built from the same two arrays swapped (found {pairs})")
    # ---- INTEGRAND  (locals are identified by role, not by name)
    ctx.rule("INTEGRAND", "y = r_[0, cumsum(col2[:-1] * diff(col0) / col1[:-1])]; col1 <- quarter table, col2 <- beat_type/4 "
                          "(x musical_beats/beats in musical-beat mode), defaults 1 and 1, carried forward between change points")
    cs = [n for n in own_nodes(ti.node) if isinstance(n, ast.Call) and norm(n.func) in ("np.cumsum", "numpy.cumsum")]
    ok = False
    arr = None
    if len(cs) == 1 and cs[0].args:
        # named intermediate steps are read through (`segment_divs = np.diff(x)`, `x = K[:, 0]`, ...)
        e = X.expand_single_defs(cs[0].args[0], X.local_defs(ti), depth=4)
        if isinstance(e, ast.BinOp) and isinstance(e.op, ast.Div) and isinstance(e.right, ast.Subscript) and isinstance(e.right.value, ast.Name) \
                and isinstance(e.left, ast.BinOp) and isinstance(e.left.op, ast.Mult):
            arr = e.right.value.id
            ok = norm(e.right) == f"{arr}[:-1, 1]" and {norm(e.left.left), norm(e.left.right)} == {f"{arr}[:-1, 2]", f"np.diff({arr}[:, 0])"}
    ctx.check(ok, "INTEGRAND", "cumsum(beat_factor * dt / divisions)", func=ti, node=cs[0] if cs else None, construct="integrand",
              msg="the time maps must integrate K[:-1, 2] * np.diff(K[:, 0]) / K[:-1, 1] over the key-point table K (beat factor x divisions elapsed / "
                  "quarter duration)")
    stores = {}
    for n in own_nodes(ti.node):
        if isinstance(n, ast.Assign) and isinstance(n.targets[0], ast.Subscript) and isinstance(n.targets[0].value, ast.Subscript) \
                and isinstance(n.targets[0].value.value, ast.Name) and isinstance(n.targets[0].slice, ast.Constant) and n.targets[0].slice.value in (0, 1):
            guard = None
            p = getattr(n, "_parent", None)
            if isinstance(p, ast.If) and norm(p.test) == "musical_beat":
                guard = any(n is s_ for s_ in p.body)
            loop = p
            while loop is not None and not isinstance(loop, ast.For):
                loop = getattr(loop, "_parent", None)
            stores.setdefault(n.targets[0].slice.value, []).append((guard, n.value, n.targets[0].value.slice, loop))
    c0 = stores.get(0, [])
    ok0 = False
    if len(c0) == 1 and c0[0][3] is not None:
        g, val, key, loop = c0[0]
        ok0 = norm(loop.iter) == "zip(self._quarter_times, self._quarter_durations)" and isinstance(loop.target, ast.Tuple) and len(loop.target.elts) == 2 \
            and norm(key) == norm(loop.target.elts[0]) and norm(val) == norm(loop.target.elts[1])
    ctx.check(ok0, "INTEGRAND", "column 1 <- quarter table", func=ti, construct="integrand:divisions",
              msg="column 1 of the key points must be the quarter duration set at each time of the quarter table")
    c1 = stores.get(1, [])
    okc1 = False
    if len(c1) == 2 and all(l is not None and "iter_all(TimeSignature)" in norm(l.iter) for _, _, _, l in c1):
        tsv = norm(c1[0][3].target)
        plain = [v for g, v, k, l in c1 if g is False]
        musical = [v for g, v, k, l in c1 if g is True]
        okp = len(plain) == 1 and norm(plain[0]) == f"{tsv}.beat_type / 4"
        okm = len(musical) == 1 and isinstance(musical[0], ast.BinOp) and isinstance(musical[0].op, ast.Mult) and \
            {norm(musical[0].left), norm(musical[0].right)} == {f"{tsv}.beat_type / 4", f"{tsv}.musical_beats / {tsv}.beats"}
        okc1 = okp and okm and all(norm(k) == f"{tsv}.start.t" for _, _, k, _ in c1)
    ctx.check(okc1, "INTEGRAND", "column 2 <- beat_type/4 (x musical_beats/beats)", func=ti,
              construct="integrand:beat-factor",
              msg="column 2 of the key points must be ts.beat_type / 4, times ts.musical_beats / ts.beats in musical-beat mode, at ts.start.t")
    # ---- PICKUP
    ctx.rule("PICKUP", "zero lies at the start of the first full measure: `if actual < normal: y -= actual`, with normal = "
                       "ts.beats, x 4/beat_type for quarters, = ts.musical_beats for musical beats")
    shift = [n for n in own_nodes(ti.node) if isinstance(n, ast.AugAssign) and isinstance(n.target, ast.Name) and isinstance(n.op, ast.Sub) and isinstance(n.value, ast.Name)
             and isinstance(getattr(n, "_parent", None), ast.If)]
    ok = False
    nd_name = ad_name = None
    if len(shift) == 1:
        # the subtracted name, followed through aliases and `None` placeholders (a helper returning "no pickup") to the
        # variable that holds the measured duration; the comparison `actual < normal` guards the subtraction or the alias
        defs_ = X.local_defs(ti)
        chain = [shift[0].value.id]
        while True:
            real = [v for v in defs_.get(chain[-1], []) if not (isinstance(v, ast.Constant) and v.value is None) and v is not shift[0].value]
            if len(real) == 1 and isinstance(real[0], ast.Name) and real[0].id not in chain:
                chain.append(real[0].id)
            else:
                break
        ad_name = chain[-1]
        guards = [shift[0]._parent.test]
        for n in own_nodes(ti.node):
            if isinstance(n, ast.Assign) and isinstance(n.targets[0], ast.Name) and n.targets[0].id in chain and isinstance(n.value, ast.Name) and n.value.id in chain \
                    and isinstance(getattr(n, "_parent", None), ast.If):
                guards.append(n._parent.test)
        for t in guards:
            if isinstance(t, ast.Compare) and len(t.ops) == 1 and isinstance(t.left, ast.Name) and isinstance(t.comparators[0], ast.Name):
                if isinstance(t.ops[0], ast.Lt) and t.left.id in chain:
                    nd_name, ok = t.comparators[0].id, True
                elif isinstance(t.ops[0], ast.Gt) and t.comparators[0].id in chain:
                    nd_name, ok = t.left.id, True
    ctx.check(ok, "PICKUP", "origin shifted by the pickup length", func=ti, construct="pickup-shift",
              msg="the origin must be moved by the actual duration of a first measure that is shorter than its time signature")
    import re as _re
    nd = []
    for n in own_nodes(ti.node):
        if isinstance(n, ast.Assign) and nd_name and norm(n.targets[0]) == nd_name:
            nd.append("= " + _re.sub(r"\b\w+\.", ".", norm(n.value)))
        elif isinstance(n, ast.AugAssign) and nd_name and norm(n.target) == nd_name and isinstance(n.op, ast.Mult):
            nd.append("*= " + _re.sub(r"\b\w+\.", ".", norm(n.value)))
    ctx.check(set(nd) == {"= .beats", "*= 4 / .beat_type", "= .musical_beats"}, "PICKUP", "normal duration in the map's unit",
              func=ti, construct="pickup-normal-duration", msg=f"definitions of the normal first-measure duration: {nd}")
    X.rule_pickup_source(ctx)
    # ---- READSET
    ctx.rule("READSET", "the interpolator reads the quarter table, the time signatures, first_point, last_point and the first measure")
    src = norm(ti.node)
    for what in ("self._quarter_times", "self._quarter_durations", "self.iter_all(TimeSignature)", "self.first_point", "self.last_point", "iter_starting(Measure)"):
        ctx.check(what in src, "READSET", what, func=ti, construct=f"readset:{what}", msg=f"_time_interpolator no longer reads `{what}`: the maps cannot depend on it")
    # ---- OWN-beat
    ctx.rule("OWN-beat", "_use_musical_beat is stored only in Part.__init__/use_musical_beat/use_notated_beat; TimeSignature.musical_beats only in "
                         "TimeSignature.__init__ and Part.set_musical_beat_per_ts; defaults are read from MUSICAL_BEATS")
    owners_flag = {f"{P}.__init__", f"{P}.use_musical_beat", f"{P}.use_notated_beat"}
    owners_mb = {f"{S}:TimeSignature.__init__", f"{P}.set_musical_beat_per_ts"}
    n = 0
    for f in prog.functions.values():
        if "#" in f.qname:
            continue
        for x in own_nodes(f.node):
            if isinstance(x, ast.Attribute) and isinstance(x.ctx, ast.Store) and x.attr in ("_use_musical_beat", "musical_beats"):
                n += 1
                owners = owners_flag if x.attr == "_use_musical_beat" else owners_mb
                ctx.check(f.qname in owners, "OWN-beat", f"{f.qname}: .{x.attr}", func=f, node=x, construct=f"foreign-store:{x.attr}",
                          msg=f"`{norm(x)}` is assigned outside its owners {sorted(o.split(':')[1] for o in owners)}: the beat maps read this state")
    ctx.floor("OWN-beat", "stores to the beat-mode state", n, 6)
    for q in (f"{S}:TimeSignature.__init__", f"{P}.set_musical_beat_per_ts"):
        f = prog.func(q, "OWN-beat")
        ctx.check("MUSICAL_BEATS" in {x.id for x in ast.walk(f.node) if isinstance(x, ast.Name)}, "OWN-beat", f"{f.name} defaults from MUSICAL_BEATS", func=f,
                  construct=f"default-table:{f.qname.split(':')[1]}", msg="default musical beats must come from the MUSICAL_BEATS table")
    mb = world(ctx).folder.const("partitura.utils.globals", "MUSICAL_BEATS")
    ctx.check(mb == {6: 2, 9: 3, 12: 4}, "OWN-beat", "MUSICAL_BEATS = compound meters", where="partitura.utils.globals:MUSICAL_BEATS",
              file="partitura/utils/globals.py", construct="MUSICAL_BEATS", msg=f"MUSICAL_BEATS is {mb}; compound meters 6, 9, 12 have 2, 3, 4 musical beats")
    # ---- QDMAP
    ctx.rule("QDMAP", "quarter_duration_map = interp1d(times, durations, kind='previous', bounds_error=False, fill_value=(y[0], y[-1]))")
    qd = prog.func(f"{P}.quarter_duration_map", "QDMAP")
    ctx.touch(qd)
    c = [n for n in own_nodes(qd.node) if isinstance(n, ast.Call) and norm(n.func) == "interp1d"]
    kw = _kwargs(c[0]) if c else {}
    ok = False
    if len(c) == 1 and len(c[0].args) == 2 and all(isinstance(a, ast.Name) for a in c[0].args):
        xa, ya = c[0].args[0].id, c[0].args[1].id
        src = {norm(n) for n in own_nodes(qd.node) if isinstance(n, ast.Assign)}
        ok = kw.get("kind") == "'previous'" and kw.get("fill_value") == f"({ya}[0], {ya}[-1])" \
            and f"{xa} = self._quarter_times" in src and f"{ya} = self._quarter_durations" in src
    ctx.check(ok, "QDMAP", "previous-value interpolation clamped at both ends", func=qd, construct="quarter-duration-map",
              msg="the quarter-duration map must return the divisions of the latest change at or before t (first value before it, last after)")
    # the quarter table itself (shared with C01): writes refresh the cache, indices stay in range, propagation slice
    from ..rules import timeline as TL
    TL.rule_F2b(ctx)
    TL.rule_F2c_F2d(ctx, only_quarter_tables=True)
    fs = [ti, qd] + [prog.func(f"{P}.{m}") for m in ("beat_map", "inv_beat_map", "quarter_map", "inv_quarter_map", "use_musical_beat", "use_notated_beat", "set_musical_beat_per_ts")]
    G.rule_F7a(ctx, fs)
    G.rule_F8a(ctx, [f.qname for f in fs] + ["partitura.utils.generic:interp1d"], "time maps")
