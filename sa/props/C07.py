"""C07 — match-file lines survive format/parse round trips in every version."""
from ..rules import matchlines as ML
from ..rules import generic as G
from ..rules import extra as X

EXPLANATION = (
    "Static analysis of the 40+ match line classes in matchfile_base / matchlines_v0 / matchlines_v1 and their "
    "per-version field tables. Decides: (F5b) output template, regular expression and field_names agree field by field "
    "and literal by literal, formatters cover every field, .groups() is unpacked into the right number of names; (F4f) "
    "every (interpret, format, type) triple of the tables: the body-inferred return type of the interpreter is the "
    "declared type; (F6-to_v1) the pre-1.0 -> 1.0.0 upgrade keeps each line's kind (target class is a subclass of the "
    "guard class) and covers every v0 parser class; (F6-parsers) every parsable class is reachable from its version's "
    "parser list, entries distinct; (GATE) version gates present."
    ' (F1-obs) operators, comparisons, string forms, property getters and from_instance of the line and parameter classes do not mutate their operands (ownership analysis).'
    ' (F10-conv) conversion to 1.0.0 rounds every field that a pre-1.0 version stores as float before int().'
)
NOT_DECIDED = [
    "value-level round trips: four-decimal rounding, fraction bounding, additive durations, key-name spellings (run-time values)",
    "exactness of FractionalSymbolicDuration addition",
]


def run(ctx):
    from ..rules import extra as _X6
    _X6.rule_case_sensitive_callee(ctx, ['partitura.io.matchfile_utils', 'partitura.io.matchlines_v0', 'partitura.io.matchlines_v1', 'partitura.io.matchfile_base'], 'match line modules')
    _X6.rule_keyname_pattern_guard(ctx)
    from ..rules import extra as _X4b
    _X4b.rule_info_attribute_normalised(ctx)
    from ..rules import extra as _X4
    _X4.rule_sibling_formatters(ctx)
    ML.rule_F5b(ctx)
    ML.rule_F4f(ctx)
    ML.rule_to_v1(ctx)
    ML.rule_parser_lists(ctx)
    ML.rule_version_gates(ctx)
    X.rule_fraction_str(ctx)
    X.rule_from_instance_rounding(ctx)
    from ..rules import ownership as OW
    OW.rule_observers_pure(ctx, ["partitura.io.matchfile_utils", "partitura.io.matchfile_base", "partitura.io.matchlines_v0",
                                 "partitura.io.matchlines_v1"], "match line and parameter classes", extra_names=("from_instance", "check_types", "_str"), floor=20)
    G.rule_F8a(ctx, ["partitura.io.importmatch:parse_matchline", "partitura.io.matchlines_v1:to_v1"], "match lines")
