"""C20 — exports, views and analyses never modify their argument and are repeatable."""
from ..rules import ownership as OW

EXPLANATION = (
    "Static ownership/effect analysis (F1) over the whole package: for every function a summary 'which parameters are "
    "mutated, through which call path' is computed to a fixpoint; the read-only entry points named in the property "
    "(exporters, array builders, piano rolls, map properties, pretty printers, unfolders, estimators, transpose) must "
    "not have their argument in that summary. Plus (ITER) Score and Performance hand out a fresh iterator per "
    "iteration and len/getitem/iter read one list; (GLOBAL) no reachable function writes module-level state; (SET-ORDER) no "
    "reachable function turns a set of objects hashed by address into an ordered sequence."
)
NOT_DECIDED = [
    "bit-identical results on a second call beyond the absence of hidden state and of address-ordered sets (float non-determinism of the numerical libraries not modelled)",
    "mutations hidden behind unresolved dynamic dispatch (counted as unresolved, silent)",
]
S, M, P = "partitura.score", "partitura.utils.music", "partitura.performance"
MAPS = ["time_signature_map", "key_signature_map", "clef_map", "measure_map", "measure_number_map", "metrical_position_map",
        "beat_map", "inv_beat_map", "quarter_map", "inv_quarter_map", "quarter_duration_map"]
ENTRIES = [
    ("partitura.io.exportmusicxml:save_musicxml", ["score_data"]),
    ("partitura.io.exportmidi:save_score_midi", ["score_data"]),
    ("partitura.io.exportmidi:save_performance_midi", ["performance_data"]),
    ("partitura.io.exportmatch:matchfile_from_alignment", ["alignment", "ppart", "spart"]),
    ("partitura.io.exportmatch:save_match", ["alignment", "performance_data", "score_data"]),
    (f"{S}:Part.note_array", ["self"]), (f"{S}:Part.rest_array", ["self"]), (f"{S}:Score.note_array", ["self"]),
    (f"{S}:PartGroup.note_array", ["self"]),
    (f"{M}:note_array_from_part", ["part"]), (f"{M}:note_array_from_part_list", ["part_list"]),
    (f"{M}:note_array_from_note_list", ["note_list"]), (f"{M}:rest_array_from_part", ["part"]),
    (f"{M}:rest_array_from_part_list", ["part_list"]), (f"{M}:rest_array_from_rest_list", ["rest_list"]),
    (f"{M}:ensure_notearray", ["notearray_or_part"]),
    (f"{M}:compute_pianoroll", ["note_info"]), (f"{M}:compute_pitch_class_pianoroll", ["note_info"]),
    (f"{M}:_make_pianoroll", ["note_info"]), (f"{M}:slice_notearray_by_time", ["note_array"]),
] + [(f"{S}:Part.{m}", ["self"]) for m in MAPS] + [
    (f"{S}:Part.pretty", ["self"]), (f"{S}:PartGroup.pretty", ["self"]),
    (f"{S}:unfold_part_maximal", ["score"]), (f"{S}:unfold_part_minimal", ["score"]), (f"{S}:iter_unfolded_parts", ["part"]),
    ("partitura.musicanalysis.pitch_spelling:estimate_spelling", ["note_info"]),
    ("partitura.musicanalysis.voice_separation:estimate_voices", ["note_info"]),
    ("partitura.musicanalysis.key_identification:estimate_key", ["note_info"]),
    (f"{M}:transpose", ["score"]),
    (f"{P}:PerformedPart.note_array", ["self"]), (f"{P}:Performance.note_array", ["self"]),
]


def run(ctx):
    from ..rules import ownership as _OW5
    _OW5.rule_shallow_copy_shares_lists(ctx)
    OW.rule_F1(ctx, ENTRIES, "read-only entry points of C20")
    # value semantics of the score / performance classes: operators, comparisons, string forms and property getters are views
    obs = [e for e in OW.observer_entries(ctx, ["partitura.score", "partitura.performance"]) if e[0] not in {q for q, _ in ENTRIES}]
    ctx.require(len(obs) >= 60, "F1", "observers", f"only {len(obs)} observer methods found in score / performance")
    OW.rule_F1(ctx, obs, "observer methods (dunder operators, string forms, property getters) of partitura.score and partitura.performance")
    OW.rule_iterators(ctx)
    OW.rule_global_state(ctx, [q for q, _ in ENTRIES])
    OW.rule_set_order(ctx, [q for q, _ in ENTRIES])
    OW.rule_field_owner(ctx)
