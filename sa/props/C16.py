"""C16 — transposition moves every note by the interval and leaves the input alone."""
import ast

from ..core.own import FRESH
from ..core.program import norm, own_nodes
from ..core.world import ownership, world
from ..rules import ownership as OW
from ..rules import tables as T

EXPLANATION = (
    "Static analysis of utils.music.transpose and the tables it relies on. Decides: (F1) the argument is not in transpose's "
    "mutates summary; (COPY) every call of the in-place transposer receives an object that derives from the deep copy "
    "(wholly fresh), never one that belongs to the parameter; (COVER) the loops feeding the transposer range over an "
    "unfiltered note collection — the property getter they read does not filter on tie_prev (so later notes of tie chains "
    "and grace notes move too) — in both the Score and the Part branch; (RET) the copy is what is returned; (F3) STEPS / "
    "BASE_PC / MIDI_BASE_CLASS / INTERVAL_TO_SEMITONES agree and the transposer, Interval.semitones and transpose_note "
    "read those tables."
    ' (P1-only) the identity shortcut is keyed on the interval class P1, not on zero semitones (P1 and d2 both have 0).'
)
NOT_DECIDED = [
    "correctness of the step / octave / alteration arithmetic and up-then-down = identity (arithmetic; e.g. a wrong sign for "
    "direction='down' is visible to a reader, not to a structural rule)",
    "Interval.validate accepts numbers that Interval.semitones looks up modulo 7 (evidence only)",
]
M = "partitura.utils.music"


def run(ctx):
    from ..rules import round5 as _R5e
    _R5e.rule_collections_unbounded(ctx)
    from ..rules import round5 as _R5
    _R5.rule_pitch_linear(ctx)
    from ..rules import extra as _X5
    _X5.rule_transpose_direction_mirror(ctx)
    from ..rules import extra as _X4
    _X4.rule_unison_shortcut_in_transpose_note(ctx)
    prog = ctx.prog
    OW.rule_F1(ctx, [(f"{M}:transpose", ["score"])], "transpose")
    O = ownership(ctx, watch=("_transpose_note_inplace",))
    tr = prog.func(f"{M}:transpose", "COPY")
    ctx.touch(tr)
    ctx.rule("COPY", "every call of _transpose_note_inplace reachable from transpose takes an object derived from the deep copy")
    sites = [w for w in O.watched if w["caller"].qname == tr.qname]
    ctx.require(sites, "COPY", tr.qname, "no call of _transpose_note_inplace in transpose")
    for w in sites:
        v = w["args"][0] if w["args"] else None
        ctx.check(v == FRESH, "COPY", f"line {w['node'].lineno}: {norm(w['node'])[:50]}", func=tr, node=w["node"],
                  construct=f"transposes-non-copy:{norm(w['node'].args[0]) if w['node'].args else ''}",
                  msg=f"`{norm(w['node'])}` receives {'an object of the argument `%s`' % v[1] if v and v[0] == 'own' else 'a value that is not provably part of the deep copy'}: "
                      f"the input would be transposed (and the returned copy not)")
    # the deep copy itself
    copies = [n for n in own_nodes(tr.node) if isinstance(n, ast.Assign) and isinstance(n.value, ast.Call) and norm(n.value.func) in ("copy.deepcopy", "deepcopy")
              and n.value.args and norm(n.value.args[0]) == tr.params[0]]
    ctx.check(len(copies) == 1, "COPY", "deep copy of the argument", func=tr, construct="no-deepcopy",
              msg="transpose must work on copy.deepcopy(score)")
    ctx.rule("RET", "transpose returns the copy")
    rets = [n for n in own_nodes(tr.node) if isinstance(n, ast.Return)]
    cname = norm(copies[0].targets[0]) if copies else None
    ctx.check(bool(rets) and all(norm(r.value) == cname for r in rets), "RET", "returns the copy", func=tr, construct="returns-non-copy",
              msg=f"transpose must return `{cname}`")
    # ---- COVER
    ctx.rule("COVER", "the note loops of transpose iterate an unfiltered note collection (getter without a tie_prev filter), in the Score and the Part branch")
    part_cls = prog.cls("partitura.score:Part", "COVER")
    loops = [n for n in own_nodes(tr.node) if isinstance(n, ast.For) and isinstance(n.iter, ast.Attribute)
             and any(isinstance(c, ast.Call) and norm(c.func) == "_transpose_note_inplace"
                     for st in n.body if not isinstance(st, (ast.For, ast.While)) for c in ast.walk(st))]
    # both kinds of argument reach a note loop: the Score branch and the Part branch each contain one, or each sets the
    # sequence of parts that a common loop (around a note loop) ranges over
    kinds = [i for i in own_nodes(tr.node) if isinstance(i, ast.If) and isinstance(i.test, ast.Call) and norm(i.test.func) == "isinstance"
             and i.test.args and norm(i.test.args[0]) == tr.params[0]]
    outer = {norm(o.iter) for o in own_nodes(tr.node) if isinstance(o, ast.For) and isinstance(o.iter, ast.Name) and any(lp in list(ast.walk(o)) for lp in loops)}
    reached = 0
    for i in kinds:
        inside = any(lp in list(ast.walk(i)) for lp in loops if any(lp is x for b in i.body for x in ast.walk(b)))
        sets_seq = any(isinstance(a, ast.Assign) and any(norm(t) in outer for t in a.targets) for b in i.body for a in ast.walk(b))
        reached += 1 if (inside or sets_seq) else 0
    ctx.check(len(loops) >= 1 and len(kinds) >= 2 and reached == len(kinds), "COVER", "a note loop for the Score and for the Part argument", func=tr, construct="note-loops",
              msg="both the Score branch and the Part branch need a loop that transposes the notes of the copy")
    for lp in loops:
        attr = lp.iter.attr
        g = part_cls.lookup(attr)
        ctx.require(g is not None and g.is_property, "COVER", f"Part.{attr}", "not a property of Part")
        ctx.touch(g)
        filt = any(isinstance(x, ast.Attribute) and x.attr in ("tie_prev", "tie_next") for x in ast.walk(g.node))
        src = norm(g.node)
        unf = "iter_all(Note" in src and "include_subclasses=True" in src
        ctx.check(not filt and unf, "COVER", f"loop over .{attr}", func=tr, node=lp, construct=f"filtered-note-collection:{attr}",
                  msg=f"the loop ranges over `.{attr}`, whose getter {'filters on tie links' if filt else 'does not enumerate all Note subclasses'}: "
                      f"later notes of tie chains (or grace notes) keep their old pitch")
    from ..rules import extra as X
    X.rule_identity_shortcut(ctx)
    # ---- tables
    _, bpc, steps = T.pitch_tables(ctx)
    T.interval_tables(ctx, bpc, steps)
    ctx.rule("READ", "the transposition functions read the shared tables")
    reads = {
        f"{M}:_transpose_note_inplace": {"STEPS", "MIDI_BASE_CLASS", "INTERVAL_TO_SEMITONES"},
        f"{M}:_transpose_step": {"STEPS"},
        f"{M}:transpose_note": {"STEPS", "BASE_PC"},
        "partitura.score:Interval.semitones": {"INTERVAL_TO_SEMITONES"},
    }
    for q, want in reads.items():
        f = prog.func(q, "READ")
        ctx.touch(f)
        names = {n.id for n in ast.walk(f.node) if isinstance(n, ast.Name)}
        ctx.check(want <= names, "READ", f"{f.name} reads {sorted(want)}", func=f, construct=f"tables:{f.name}",
                  msg=f"{f.name} no longer reads {sorted(want - names)}")
