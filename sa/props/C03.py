"""C03 — MusicXML export then import returns the same score; re-export is a fixpoint."""
import ast
import re

from ..core.program import pos, norm, own_nodes, own_statements
from ..core.world import world
from ..rules import generic as G
from ..rules import ownership as OW
from ..rules import extra as X

EXPLANATION = (
    "Static analysis of io/exportmusicxml.py and io/importmusicxml.py. Decides: (F5a) every element tag and attribute "
    "name the exporter emits is consulted somewhere by the importer, up to a frozen, reasoned exception list; (VOCAB) the "
    "exporter's articulation vocabulary equals the importer's, and the dynamics/pedal vocabularies are a single shared "
    "definition; (F7b) every score object an importer handler constructs escapes (is added to the part, returned, stored or "
    "passed on) and no statement in either module is a no-effect expression; (F7c) no exporter function reads a loop "
    "variable after its loop; (F1) save_musicxml does not mutate its argument; (GROUPS) every part-group start pushed on "
    "the stack is paired with a stop emitted when it is popped, and the stack is drained after the last part; "
    "(F4d/F7a/F8a) call conformance, definite assignment, library linkage in both modules."
    ' (TIE-key) ties are paired by pitch alone on import.'
)
NOT_DECIDED = [
    "equality of scores after a round trip; position bookkeeping with backup/forward; voice re-assignment; chord tagging; "
    "byte-level fixpoint — all are properties of the generated XML's content (run-time)",
    "values carried by the tags (only the tag/attribute vocabulary is compared)",
]
EX, IM = "partitura.io.exportmusicxml", "partitura.io.importmusicxml"

TAG_EXCEPTIONS = {
    "tied": "notation twin of <tie>, which the importer reads (same information)",
    "bass": "chord-symbol bass: not among the features C03 enumerates",
    "bass-step": "chord-symbol bass: not among the features C03 enumerates",
    "staff-details": "staff lines: not among the features C03 enumerates",
    "staff-lines": "staff lines: not among the features C03 enumerates",
    "staves": "the importer derives the number of staves from the notes and clefs it reads",
}
ATTR_EXCEPTIONS = {
    "print_frame": "presentation only",
    "placement": "presentation only",
}


def _importer_strings(mod):
    out = set()
    for n in ast.walk(mod.tree):
        if isinstance(n, ast.Constant) and isinstance(n.value, str):
            if isinstance(getattr(n, "_parent", None), ast.Expr):
                continue  # docstrings
            for seg in re.split(r"[/|\[\]@='\" ().:,*]+", n.value):
                if seg:
                    out.add(seg)
    return out


def rule_F5a(ctx):
    ctx.rule("F5a", "W = tags/attributes the exporter emits (string arguments of etree.Element/SubElement, .set, attrib[...]); "
                    "R = every tag-like string the importer mentions (find/findall/xpath paths, get_value_from_tag, .tag "
                    "comparisons, dispatch dict keys); required: W \\ R is within the frozen exception list")
    ex, im = ctx.prog.module(EX), ctx.prog.module(IM)
    ctx.modules_consulted |= {EX, IM}
    W, WA = {}, {}
    for n in ast.walk(ex.tree):
        if isinstance(n, ast.Call) and norm(n.func) in ("etree.Element", "etree.SubElement"):
            a = n.args[0] if norm(n.func) == "etree.Element" else (n.args[1] if len(n.args) > 1 else None)
            if isinstance(a, ast.Constant) and isinstance(a.value, str):
                W.setdefault(a.value, n)
            for k in n.keywords:
                if k.arg:
                    WA.setdefault(k.arg, n)
        if isinstance(n, ast.Call) and isinstance(n.func, ast.Attribute) and n.func.attr == "set" and n.args and isinstance(n.args[0], ast.Constant):
            WA.setdefault(n.args[0].value, n)
        if isinstance(n, ast.Subscript) and isinstance(n.ctx, ast.Store) and norm(n.value).endswith("attrib") and isinstance(n.slice, ast.Constant):
            WA.setdefault(n.slice.value, n)
    R = _importer_strings(im)
    ctx.floor("F5a", "tags emitted by the exporter", len(W), 70)
    ctx.extra["F5a"] = {"tags_written": len(W), "attributes_written": len(WA), "importer_strings": len(R),
                        "unread_tags": sorted(set(W) - R), "unread_attributes": sorted(set(WA) - R)}
    for tag in sorted(W):
        if tag in R:
            ctx.ok("F5a", f"<{tag}> is read")
        elif tag in TAG_EXCEPTIONS:
            ctx.ok("F5a", f"<{tag}> not read (frozen exception: {TAG_EXCEPTIONS[tag]})")
        else:
            ctx.check(False, "F5a", f"<{tag}>", where=f"{EX}:<module>", file=ex.relpath, node=W[tag], construct=f"unread-tag:{tag}",
                      msg=f"the exporter writes <{tag}> but the importer never mentions that tag: whatever it carries is lost on "
                          f"re-import")
    for a in sorted(WA):
        if a in R or a.replace("_", "-") in R:
            ctx.ok("F5a", f"@{a} is read")
        elif a in ATTR_EXCEPTIONS:
            ctx.ok("F5a", f"@{a} not read (frozen exception: {ATTR_EXCEPTIONS[a]})")
        else:
            ctx.check(False, "F5a", f"@{a}", where=f"{EX}:<module>", file=ex.relpath, node=WA[a], construct=f"unread-attribute:{a}",
                      msg=f"the exporter writes the attribute `{a}` but the importer never mentions it")


def rule_vocab(ctx):
    ctx.rule("VOCAB", "exporter ARTICULATIONS == the tuple get_articulations recognises (written subset-of read so exported marks "
                      "are re-read; read subset-of written so imported marks survive re-export); DYN_DIRECTIONS / PEDAL_DIRECTIONS are "
                      "imported by the exporter from the importer (single definition)")
    fo = world(ctx).folder
    wa = set(fo.const(EX, "ARTICULATIONS"))
    ga = ctx.prog.func(f"{IM}:get_articulations", "VOCAB")
    ctx.touch(ga)
    tup = [n for n in own_nodes(ga.node) if isinstance(n, ast.Assign) and isinstance(n.value, (ast.Tuple, ast.List))]
    ctx.require(len(tup) == 1, "VOCAB", ga.qname, "articulation tuple not found")
    ra = {e.value for e in tup[0].value.elts if isinstance(e, ast.Constant)}
    for a in sorted(wa - ra):
        ctx.check(False, "VOCAB", f"articulation {a} read back", func=ga, construct=f"articulation-not-read:{a}",
                  msg=f"the exporter writes the articulation <{a}> but get_articulations does not recognise it")
    for a in sorted(ra - wa):
        ctx.check(False, "VOCAB", f"articulation {a} written", where=f"{EX}:ARTICULATIONS", file="partitura/io/exportmusicxml.py",
                  construct=f"articulation-not-written:{a}",
                  msg=f"the importer recognises <{a}> but the exporter's ARTICULATIONS lacks it: a note carrying it is exported "
                      f"without it (articulations differ after load -> save -> load)")
    if wa == ra:
        ctx.ok("VOCAB", f"{len(wa)} articulation names agree")
    exm = ctx.prog.module(EX)
    for name in ("DYN_DIRECTIONS", "PEDAL_DIRECTIONS"):
        src = exm.imports.get(name)
        ctx.check(src == (IM, name) and name not in exm.defs, "VOCAB", f"{name} shared", where=f"{EX}:{name}", file=exm.relpath,
                  construct=f"vocabulary-forked:{name}", msg=f"{name} must be the importer's table (single definition), found {src}")


def rule_escape(ctx):
    ctx.rule("F7b", "every score object constructed in an importer handler escapes: it is passed to a call (part.add, "
                    "_add_tempo_if_unique, ...), returned, stored in an attribute/container, or bound to a name that is; no statement "
                    "of either module is a no-effect expression")
    w = world(ctx)
    prog = ctx.prog
    timed = prog.cls("partitura.score:TimedObject", "F7b")
    n_sites = 0
    for f in prog.functions_in(IM):
        if "#" in f.qname:
            continue
        ctx.touch(f)
        for n in own_nodes(f.node):
            if not isinstance(n, ast.Call):
                continue
            r = prog.resolve_expr(f.module, n.func)
            if not (r and r[0] == "class" and timed in r[1].mro):
                continue
            n_sites += 1
            par = getattr(n, "_parent", None)
            top = par
            while isinstance(top, (ast.Tuple, ast.List, ast.Set, ast.Starred, ast.IfExp, ast.BoolOp)):
                top = getattr(top, "_parent", None)
            if isinstance(top, ast.Expr):
                # an expression statement that merely mentions the new object (directly or inside a display): nothing keeps it
                ctx.check(False, "F7b", f"{f.qname}:{norm(n)[:40]}", func=f, node=n, construct=f"object-dropped:{r[1].name}",
                          msg=f"`{norm(n)[:60]}` constructs a {r[1].name} and drops it")
                continue
            if isinstance(par, ast.Assign) and len(par.targets) == 1 and isinstance(par.targets[0], ast.Name) and par.value is n:
                name = par.targets[0].id
                uses = []
                for x in own_nodes(f.node):
                    if isinstance(x, ast.Name) and x.id == name and isinstance(x.ctx, ast.Load) and pos(x) >= pos(par):
                        st = x
                        while not isinstance(st, ast.stmt):
                            st = st._parent
                        effect = not (isinstance(st, ast.Expr) and not any(isinstance(y, (ast.Call, ast.Yield, ast.Await)) for y in ast.walk(st.value)))
                        uses.append(effect)
                # nested functions may capture the name
                nested = any(isinstance(x, ast.Name) and x.id == name for g in prog.functions.values() if g.parent is f for x in ast.walk(g.node))
                ctx.check(any(uses) or nested, "F7b", f"{f.qname}:{name} = {r[1].name}(...)", func=f, node=par,
                          construct=f"object-never-escapes:{r[1].name}:{name}",
                          msg=f"`{norm(par)[:70]}` builds a {r[1].name}, but `{name}` is afterwards only mentioned in statements without "
                              f"effect (or not at all): the object never reaches the part — the corresponding MusicXML element is "
                              f"silently not imported")
            else:
                ctx.ok("F7b", f"{f.qname}:{r[1].name}(...) used in place")
    ctx.floor("F7b", "TimedObject constructor sites in the importer", n_sites, 30)
    for modname in (IM, EX):
        for f in prog.functions_in(modname):
            for st in G.no_effect_statements(f):
                ctx.check(False, "F7b", f"{f.qname}:{norm(st)[:40]}", func=f, node=st, construct=f"no-effect-statement:{norm(st)[:40]}",
                          msg=f"`{norm(st)[:70]}` is an expression statement without any call: it does nothing (a call was probably intended)")


def rule_loopvars(ctx):
    ctx.rule("F7c", "no exporter/importer function reads a loop variable after its (break-free) loop")
    n = 0
    for modname in (EX, IM):
        for f in ctx.prog.functions_in(modname):
            if "#" in f.qname:
                continue
            n += 1
            seen = set()
            for loop, name, use in G.loop_var_after_loop(f):
                if name in seen:
                    continue
                seen.add(name)
                ctx.check(False, "F7c", f"{f.qname}:{name}", func=f, node=use, construct=f"stale-loop-variable:{name}",
                          msg=f"`{name}` is the variable of the loop at line {loop.lineno} and is read at line {use.lineno} after the loop "
                              f"finished: it holds the last iteration's value")
    ctx.ok("F7c", f"{n} functions scanned")


def rule_groups(ctx):
    ctx.rule("GROUPS", "part-group pairing: every push on group_stack is accompanied by a part-group type=start, every pop by a "
                       "type=stop, and close_group_stack() runs after the loop over the parts")
    sm = ctx.prog.func(f"{EX}:save_musicxml", "GROUPS")
    ctx.touch(sm)
    fs = [sm] + [g for g in ctx.prog.functions.values() if g.parent is sm]

    def emits(block, typ):
        return any(isinstance(c, ast.Call) and norm(c.func) == "etree.SubElement" and len(c.args) > 1 and isinstance(c.args[1], ast.Constant)
                   and c.args[1].value == "part-group" and any(k.arg == "type" and isinstance(k.value, ast.Constant) and k.value.value == typ for k in c.keywords)
                   for s in block for c in ast.walk(s))
    # the stack: a local list of save_musicxml on which the nested helpers call .append and .pop (found by role, not by name)
    inits = {norm(n.targets[0]) for n in own_nodes(sm.node) if isinstance(n, ast.Assign) and isinstance(n.value, ast.List) and not n.value.elts
             and len(n.targets) == 1 and isinstance(n.targets[0], ast.Name)}
    used = {}
    for f in fs:
        for n in own_nodes(f.node):
            if isinstance(n, ast.Expr) and isinstance(n.value, ast.Call) and isinstance(n.value.func, ast.Attribute) and n.value.func.attr in ("append", "pop") \
                    and isinstance(n.value.func.value, ast.Name) and n.value.func.value.id in inits:
                used.setdefault(n.value.func.value.id, set()).add(n.value.func.attr)
    stacks = [k for k, v in used.items() if v == {"append", "pop"}]
    ctx.require(len(stacks) == 1, "GROUPS", sm.qname, f"group stack not identified: {used}")
    stack = stacks[0]
    pushes = pops = 0
    drainers = []
    for f in fs:
        for n in own_nodes(f.node):
            if isinstance(n, ast.Expr) and isinstance(n.value, ast.Call) and norm(n.value.func) in (f"{stack}.append", f"{stack}.pop"):
                block = _block_of(n, f.node)
                if norm(n.value.func).endswith("append"):
                    pushes += 1
                    ctx.check(emits(block, "start"), "GROUPS", f"{f.name}: push with start", func=f, node=n, construct="push-without-start",
                              msg="a group is pushed on the stack without emitting <part-group type='start'>")
                else:
                    pops += 1
                    ctx.check(emits(block, "stop"), "GROUPS", f"{f.name}: pop with stop", func=f, node=n, construct="pop-without-stop",
                              msg="a group is popped from the stack without emitting <part-group type='stop'>: the group is never closed in the file")
        if f is not sm and any(isinstance(n, ast.While) and norm(n.test) == stack and any(isinstance(c, ast.Call) and norm(c.func) == f"{stack}.pop" for c in ast.walk(n))
                               for n in own_nodes(f.node)) and len(f.params) == 0:
            drainers.append(f.name)
    ctx.check(pushes >= 1 and pops >= 2, "GROUPS", "push/pop sites", func=sm, construct="group-stack-sites", msg=f"{pushes} pushes / {pops} pops")
    body = sm.node.body
    first = sm.params[0]
    loop_idx = next((i for i, st in enumerate(body) if isinstance(st, ast.For) and norm(st.iter) == first), None)
    close_idx = next((i for i, st in enumerate(body) if isinstance(st, ast.Expr) and isinstance(st.value, ast.Call) and norm(st.value.func) in drainers), None)
    ctx.check(loop_idx is not None and close_idx is not None and close_idx > loop_idx, "GROUPS", "stack drained after the last part", func=sm,
              construct="groups-not-closed", msg="the helper that pops the group stack until it is empty must be called after the loop over the parts: open groups would never get their stop")


def _block_of(stmt, root):
    p = getattr(stmt, "_parent", None)
    for fld in ("body", "orelse", "finalbody"):
        b = getattr(p, fld, None)
        if b and any(s is stmt for s in b):
            return b
    return [stmt]


def run(ctx):
    from ..rules import extra as _X4
    _X4.rule_group_stack_top(ctx)
    _X4.rule_position_updates_maxtime(ctx)
    rule_F5a(ctx)
    rule_vocab(ctx)
    rule_escape(ctx)
    rule_loopvars(ctx)
    rule_groups(ctx)
    X.rule_overlap_predicate(ctx, f"{EX}:find_free_voice")
    X.rule_tie_key(ctx)
    OW.rule_F1(ctx, [(f"{EX}:save_musicxml", ["score_data"])], "MusicXML exporter")
    fs = [f for f in ctx.prog.functions.values() if f.module.name in (EX, IM) and "#" not in f.qname]
    G.rule_F7a(ctx, fs)
    G.rule_F4d(ctx, fs, "MusicXML modules", floor=60)
    G.rule_F4e(ctx, fs, "MusicXML modules")
    G.rule_F8a(ctx, [f"{EX}:save_musicxml", f"{IM}:load_musicxml"], "MusicXML io", max_depth=6)
