"""C11 — adding measures and tying notes normalise notation without changing what sounds."""
import ast

from ..core.program import norm, own_nodes, own_statements
from ..core.world import world
from ..rules import generic as G
from ..rules import tables as T
from ..rules import extra as X

EXPLANATION = (
    "Static analysis of add_measures / tie_notes / split_note / find_tuplets / fill_rests / sanitize_part and the duration "
    "tables. Decides: (F3) the numeric and symbolic duration tables agree row by row (56 dotted values, 11 straight, 35 "
    "composite), are sorted for the estimator's nearest-value search, and only use type names LABEL_DURS knows; (READ) the "
    "estimator and its inverse read those tables; (PROV) every continuation note created when splitting copies step, "
    "octave, alteration, voice and staff from the note being split; (PAIR) every tie_next link is set together with the "
    "matching tie_prev link, and split_note restores the original outgoing tie on the last piece and moves the slur ends to "
    "it; (NOPITCH) none of the normalising functions stores to step/alter/octave of a note; (F7j) duplicate top-level "
    "definitions are identical or reported."
    ' (COUNTER) along every structured path of the measure loop the numbers handed out are consecutive and the counter ends at the next free one.'
)
NOT_DECIDED = [
    "measures tile the timeline; note array invariance; the split search; the 1..960 estimator sweep (run-time values)",
]
S, M = "partitura.score", "partitura.utils.music"
NORMALISERS = ["add_measures", "tie_notes", "split_note", "find_tuplets", "fill_rests", "sanitize_part", "_fill_rests_within_measure",
               "_fill_rests_global", "set_end_times"]


def rule_provenance(ctx):
    ctx.rule("PROV", "continuation notes created by tie_notes / split_note take step, octave, alter (positional) and voice, staff "
                     "(keywords) from attribute reads of the note being split")
    ctx.rule("PAIR", "every `a.tie_next = b` (b a note variable) has `b.tie_prev = a` in the same block; split_note restores the "
                     "original tie_next on the last piece and re-targets the slur ends")
    n_ctor = n_pair = 0
    for fn in ("tie_notes", "split_note"):
        f = ctx.prog.func(f"{S}:{fn}", "PROV")
        ctx.touch(f)
        for c in own_nodes(f.node):
            if isinstance(c, ast.Call) and norm(c.func) in ("Note", "UnpitchedNote"):
                n_ctor += 1
                want_pos = ["step", "octave", "alter"] if norm(c.func) == "Note" else ["step", "octave"]
                ok = len(c.args) >= len(want_pos)
                srcs = set()
                for a, attr in zip(c.args, want_pos):
                    if not (isinstance(a, ast.Attribute) and a.attr == attr and isinstance(a.value, ast.Name)):
                        ok = False
                    else:
                        srcs.add(a.value.id)
                kw = {k.arg: k.value for k in c.keywords}
                for attr in ("voice", "staff"):
                    v = kw.get(attr)
                    if not (isinstance(v, ast.Attribute) and v.attr == attr and isinstance(v.value, ast.Name)):
                        ok = False
                    else:
                        srcs.add(v.value.id)
                # the source must be one note variable: a loop variable / parameter, or a local that is (re)bound from one
                allowed = set(f.params)
                for x in own_nodes(f.node):
                    if isinstance(x, ast.For):
                        allowed |= {t.id for t in ast.walk(x.target) if isinstance(t, ast.Name)}
                made = {norm(a.targets[0]) for a in own_nodes(f.node) if isinstance(a, ast.Assign) and a.value is c or
                        (isinstance(a, ast.Assign) and isinstance(a.value, ast.Call) and norm(a.value.func) in ("Note", "UnpitchedNote"))}
                changed = True
                while changed:
                    changed = False
                    for a in own_nodes(f.node):
                        if isinstance(a, ast.Assign) and len(a.targets) == 1 and isinstance(a.targets[0], ast.Name) and isinstance(a.value, ast.Name) \
                                and (a.value.id in allowed or a.value.id in made) and a.targets[0].id not in allowed:
                            allowed.add(a.targets[0].id)
                            changed = True
                ok = ok and len(srcs) == 1 and srcs <= allowed and not (srcs & made)
                ctx.check(ok, "PROV", f"{fn}: {norm(c)[:50]}", func=f, node=c, construct=f"continuation-attributes:{fn}:{norm(c.func)}",
                          msg=f"`{norm(c)[:90]}`: a continuation note must copy step/octave/alter/voice/staff from the note being "
                              f"split (sources found: {sorted(srcs)}): every tie chain is of one pitch, voice and staff")
        for st in own_statements(f.node.body):
            if isinstance(st, ast.Assign) and len(st.targets) == 1 and isinstance(st.targets[0], ast.Attribute) and st.targets[0].attr == "tie_next" \
                    and isinstance(st.value, ast.Name) and st.value.id in {norm(a.targets[0]) for a in own_nodes(f.node) if isinstance(a, ast.Assign)
                                                                           and isinstance(a.value, ast.Call) and norm(a.value.func) in ("Note", "UnpitchedNote")}:
                n_pair += 1
                a, b = norm(st.targets[0].value), st.value.id
                block = _block_of(st)
                ok = any(isinstance(s2, ast.Assign) and norm(s2.targets[0]) == f"{b}.tie_prev" and norm(s2.value) == a for s2 in block)
                ctx.check(ok, "PAIR", f"{fn}: {norm(st)}", func=f, node=st, construct=f"tie-link-unpaired:{fn}",
                          msg=f"`{norm(st)}` has no matching `{b}.tie_prev = {a}` in the same block: the chain cannot be walked backwards "
                              f"(tie chains must be contiguous)")
    ctx.floor("PROV", "continuation constructors", n_ctor, 3)
    ctx.floor("PAIR", "tie_next assignments", n_pair, 2)
    sp = ctx.prog.func(f"{S}:split_note", "PAIR")
    note_p = sp.params[1]
    saved = [norm(a.targets[0]) for a in own_nodes(sp.node) if isinstance(a, ast.Assign) and norm(a.value) == f"{note_p}.tie_next" and isinstance(a.targets[0], ast.Name)]
    restored = any(isinstance(a, ast.Assign) and isinstance(a.targets[0], ast.Attribute) and a.targets[0].attr == "tie_next" and norm(a.value) in saved
                   for a in sp.node.body)
    ctx.check(bool(saved) and restored, "PAIR", "split_note keeps the outgoing tie", func=sp, construct="split-drops-outgoing-tie",
              msg=f"split_note must remember {note_p}.tie_next and put it on the last piece (after the splitting loop)")
    slurs = [norm(a.targets[0]) for a in own_nodes(sp.node) if isinstance(a, ast.Assign) and norm(a.value) == f"{note_p}.slur_stops" and isinstance(a.targets[0], ast.Name)]
    moved = any(isinstance(l, ast.For) and norm(l.iter) in slurs and any(isinstance(b, ast.Assign) and isinstance(b.targets[0], ast.Attribute)
                                                                         and b.targets[0].attr == "end_note" and norm(b.targets[0].value) == norm(l.target) for b in l.body)
                for l in own_nodes(sp.node))
    ctx.check(bool(slurs) and moved, "PAIR", "split_note moves slur ends to the last piece", func=sp, construct="split-slur-ends",
              msg="slurs ending on the split note must end on its last piece")


def _block_of(stmt):
    p = getattr(stmt, "_parent", None)
    for fld in ("body", "orelse", "finalbody"):
        b = getattr(p, fld, None)
        if b and any(s is stmt for s in b):
            return b
    return [stmt]


def rule_nopitch(ctx):
    ctx.rule("NOPITCH", "the normalising functions never store to .step / .alter / .octave / .midi_pitch of any object")
    n = 0
    for fn in NORMALISERS:
        for q in (f"{S}:{fn}",):
            f = ctx.prog.functions.get(q)
            if f is None:
                continue
            n += 1
            ctx.touch(f)
            bad = [x for x in own_nodes(f.node) if isinstance(x, ast.Attribute) and isinstance(x.ctx, (ast.Store, ast.Del))
                   and x.attr in ("step", "alter", "octave", "midi_pitch")]
            ctx.check(not bad, "NOPITCH", fn, func=f, node=bad[0] if bad else None, construct=f"pitch-store:{fn}",
                      msg=f"{fn} assigns `{norm(bad[0]) if bad else ''}`: normalising notation must never change what sounds")
    ctx.floor("NOPITCH", "normalising functions", n, 7)


def rule_reads(ctx):
    ctx.rule("READ", "estimate_symbolic_duration searches DURS/SYM_DURS (and COMPOSITE_DURS/SYM_COMPOSITE_DURS); "
                     "symbolic_to_numeric_duration evaluates LABEL_DURS and DOT_MULTIPLIERS — the tables F3 proves consistent")
    for q, want in ((f"{M}:estimate_symbolic_duration", {"DURS", "SYM_DURS", "COMPOSITE_DURS", "SYM_COMPOSITE_DURS"}),
                    (f"{M}:symbolic_to_numeric_duration", {"LABEL_DURS", "DOT_MULTIPLIERS"})):
        f = ctx.prog.func(q, "READ")
        ctx.touch(f)
        names = {n.id for n in ast.walk(f.node) if isinstance(n, ast.Name)}
        ctx.check(want <= names, "READ", f"{f.name} reads {sorted(want)}", func=f, construct=f"tables:{f.name}",
                  msg=f"{f.name} no longer reads {sorted(want - names)}")
    est = ctx.prog.func(f"{M}:estimate_symbolic_duration")
    pairs = [n for n in own_nodes(est.node) if isinstance(n, ast.Call) and norm(n.func) == "find_nearest"]
    got = {norm(c.args[0]) for c in pairs if c.args}
    ctx.check(got == {"DURS", "COMPOSITE_DURS"}, "READ", "nearest-value search on DURS and COMPOSITE_DURS", func=est, construct="estimator-search",
              msg=f"find_nearest is applied to {sorted(got)}")
    idx_ok = any(isinstance(n, ast.Subscript) and norm(n.value) == "SYM_DURS" for n in own_nodes(est.node)) and \
        any(isinstance(n, ast.Subscript) and norm(n.value) == "SYM_COMPOSITE_DURS" for n in own_nodes(est.node))
    ctx.check(idx_ok, "READ", "symbolic rows taken at the found index", func=est, construct="estimator-rows",
              msg="the estimator must return SYM_DURS[i] / SYM_COMPOSITE_DURS[j] for the index found in the parallel numeric table")


def rule_duplicates(ctx):
    ctx.rule("F7j", "duplicate top-level definitions in score.py: the later definition silently replaces the earlier one; they "
                    "must be textually identical (otherwise the earlier body is dead code that readers may take for the live one)")
    mod = ctx.prog.module(S)
    n = 0
    for name, defs in mod.all_defs.items():
        fdefs = [d for d in defs if isinstance(d, (ast.FunctionDef, ast.ClassDef))]
        if len(fdefs) < 2:
            continue
        n += 1
        same = len({ast.dump(d) for d in fdefs}) == 1
        if same:
            ctx.ok("F7j", f"{name}: {len(fdefs)} identical definitions")
        else:
            ctx.note("F7j", f"{name} is defined {len(fdefs)} times with different bodies (lines {[d.lineno for d in fdefs]}); the last one wins")
    part = ctx.prog.cls(f"{S}:Part")
    for mname, ms in part.all_methods.items():
        if len([m for m in ms if not m.is_setter]) > 1:
            ctx.note("F7j", f"Part.{mname} is defined {len(ms)} times; the last one wins")
    ctx.extra["duplicate_toplevel_definitions"] = n


def run(ctx):
    from ..rules import extra as _X6
    _X6.rule_tuplet_ratio_rounded(ctx)
    from ..rules import extra as _X4
    _X4.rule_tie_group_dissolved_completely(ctx)
    T.duration_tables(ctx)
    rule_reads(ctx)
    rule_provenance(ctx)
    rule_nopitch(ctx)
    X.rule_divs_at_span_start(ctx)
    X.rule_counter_consecutive(ctx)
    rule_duplicates(ctx)
    fs = [ctx.prog.functions[f"{S}:{n}"] for n in NORMALISERS if f"{S}:{n}" in ctx.prog.functions] + \
         [ctx.prog.func(f"{M}:{n}") for n in ("estimate_symbolic_duration", "symbolic_to_numeric_duration", "find_tie_split", "order_splits",
                                              "find_smallest_unit", "format_symbolic_duration")]
    G.rule_F7a(ctx, fs)
    G.rule_F4d(ctx, fs, "normalisers", floor=25)
    G.rule_F8a(ctx, [f.qname for f in fs], "normalisers", max_depth=3)
    ctx.rule("F8b", "no int()/float() of a rank>=1 array on some path of the normalising functions")
    for f in fs:
        bad = list(G.scalar_conversion_of_array(f))
        ctx.check(not bad, "F8b", f.name, func=f, node=bad[0] if bad else None, construct=f"int-of-array:{f.name}",
                  msg=f"`{norm(bad[0]) if bad else ''}` converts a rank-1 array to a scalar on some path")
