"""C14 — performed notes sound until release or later, exactly as the pedal dictates."""
import ast

from ..core.program import norm, own_nodes
from ..core.world import world
from ..rules import generic as G

EXPLANATION = (
    "Static analysis of performance.py. Decides: (MUSTCALL) the sustain_pedal_threshold setter recomputes every note on "
    "every path on which there are notes, with the part's own notes, controls and the value just stored; (INIT) __init__ "
    "assigns through the property only after notes and controls are bound; (ALLPATHS) adjust_offsets_w_sustain writes "
    "sound_off for every note on both of its exits; (CMP) the only comparison with the threshold is `value > threshold` "
    "('at or below the threshold' means up); (CC64) the sustain controller number; (F4a) note_array's 9 fields vs. its "
    "9-tuple rows; (READER) from_note_array reads only fields note_array writes; (TRACKKEY) track renumbering keys "
    "every lookup by (part index, track)."
    ' (RESTRIKE-eq) the re-strike that ends a pedal-held note is selected with a comparison that includes the release moment itself.'
)
NOT_DECIDED = [
    "the pedal model itself: sounding end = first later moment the pedal is at or below the threshold (numeric)",
    "monotonicity in the threshold", "re-strike clipping (can set sound_off below note_off, which validation rejects)",
]
P = "partitura.performance"


def run(ctx):
    from ..rules import round6 as _R6
    _R6.rule_restrike_at_release_counts(ctx)
    from ..rules import round5 as _R5
    _R5.rule_clock_forwarded(ctx)
    from ..rules import round5 as _R5
    _R5.rule_no_truncated_quotient(ctx, ['partitura.io.importmatch:performed_part_from_match', 'partitura.utils.music:slice_ppart_by_time', 'partitura.performance:PerformedPart.from_note_array', 'partitura.performance:adjust_offsets_w_sustain'])
    from ..rules import extra as _X5
    _X5.rule_sound_off_not_before_release(ctx)
    from ..rules import extra as _X4
    _X4.rule_ticks_round_once(ctx)
    _X4.rule_renumber_every_part_fully(ctx)
    from ..rules import extra as _X3
    _X3.rule_validators_accept_valid(ctx)
    w = world(ctx)
    prog = ctx.prog
    # ---- MUSTCALL
    ctx.rule("MUSTCALL", "setter: every path with len(self.notes) > 0 calls adjust_offsets_w_sustain(self.notes, self.controls, <new value>)")
    st = prog.func(f"{P}:PerformedPart.sustain_pedal_threshold.setter", "MUSTCALL")
    ctx.touch(st)
    selfn, val = st.params[0], st.params[1]
    cfg = w.inf.cfg(st)
    calls = [n for n in cfg.nodes if n.kind == "stmt" and isinstance(n.ast, ast.Expr) and isinstance(n.ast.value, ast.Call)
             and norm(n.ast.value.func) == "adjust_offsets_w_sustain"]
    ok = len(calls) == 1
    ctx.check(ok, "MUSTCALL", "setter calls adjust_offsets_w_sustain", func=st, construct="setter-no-recompute",
              msg="setting the threshold must recompute the sounding ends")
    if ok:
        c = calls[0].ast.value
        args = [norm(a) for a in c.args] + [norm(k.value) for k in c.keywords]
        stores = [n for n in own_nodes(st.node) if isinstance(n, ast.Assign) and norm(n.value) == val]
        stored = {norm(t) for a in stores for t in a.targets}
        ok_args = len(args) == 3 and args[0] == f"{selfn}.notes" and args[1] == f"{selfn}.controls" and (args[2] == val or args[2] in stored)
        ctx.check(ok_args, "MUSTCALL", "arguments are the part's notes, controls and the new value", func=st, node=c,
                  construct="setter-recompute-args", msg=f"adjust_offsets_w_sustain({', '.join(args)}) must receive "
                                                      f"{selfn}.notes, {selfn}.controls and the value just set")
        guards = [n for n in cfg.nodes if n.kind == "test" and norm(n.ast) in (f"len({selfn}.notes) > 0", f"{selfn}.notes", f"len({selfn}.notes)",
                                                                                f"len({selfn}.notes) != 0", f"0 < len({selfn}.notes)")]
        avoid = {calls[0]} | {m for g in guards for m, l in g.succ if l == "F"}
        escapes = cfg.paths_avoiding(cfg.entry, avoid, {cfg.exit})
        # the F edge may lead directly to exit
        direct = any(m is cfg.exit and l == "F" for g in guards for m, l in g.succ)
        ctx.check(not escapes or (direct and not cfg.paths_avoiding(cfg.entry, {calls[0]} | set(guards), {cfg.exit})), "MUSTCALL",
                  "recompute on every path with notes", func=st, construct="setter-path-without-recompute",
                  msg="some path through the setter with notes present skips the recomputation")
    # ---- INIT
    ctx.rule("INIT", "__init__ assigns sustain_pedal_threshold (through the property) after self.notes and self.controls on every path")
    init = prog.func(f"{P}:PerformedPart.__init__", "INIT")
    ctx.touch(init)
    icfg = w.inf.cfg(init)
    dom = icfg.dominators(include_exc=False)

    def store_nodes(attr):
        return [n for n in icfg.nodes if n.kind == "stmt" and isinstance(n.ast, ast.Assign) and any(norm(t) == f"self.{attr}" for t in n.ast.targets)]
    thr = store_nodes("sustain_pedal_threshold")
    ctx.check(len(thr) == 1, "INIT", "threshold assigned through the property", func=init, construct="init-threshold",
              msg="PerformedPart.__init__ must assign self.sustain_pedal_threshold (the property setter computes sound_off)")
    if thr:
        for attr in ("notes", "controls"):
            sn = store_nodes(attr)
            ok = bool(sn) and any(s in dom.get(thr[0], ()) for s in sn)
            ctx.check(ok, "INIT", f"self.{attr} bound before the threshold", func=init, node=thr[0].ast, construct=f"init-order:{attr}",
                      msg=f"the setter reads self.{attr}; it must be assigned on every path before self.sustain_pedal_threshold")
        ctx.check(norm(thr[0].ast.value) == "sustain_pedal_threshold", "INIT", "threshold is the constructor argument", func=init,
                  construct="init-threshold-value", msg="the constructor must install the requested threshold")
    # ---- ALLPATHS
    ctx.rule("ALLPATHS", "adjust_offsets_w_sustain: every exit is preceded by a loop over all notes that stores note['sound_off']")
    adj = prog.func(f"{P}:adjust_offsets_w_sustain", "ALLPATHS")
    ctx.touch(adj)
    acfg = w.inf.cfg(adj)
    adom = acfg.dominators(include_exc=False)
    notes_p = adj.params[0]
    writers = []
    for n in acfg.nodes:
        if n.kind == "for" and any(isinstance(x, ast.Name) and x.id == notes_p for x in ast.walk(n.ast.iter)):
            if any(isinstance(s, ast.Subscript) and isinstance(s.ctx, ast.Store) and isinstance(s.slice, ast.Constant) and s.slice.value == "sound_off"
                   for b in n.ast.body for s in ast.walk(b)):
                writers.append(n)
    ctx.check(len(writers) >= 1, "ALLPATHS", "a loop over the notes writes sound_off", func=adj, construct="no-sound_off-writer",
              msg="adjust_offsets_w_sustain must write sound_off for the notes")
    for p, l in acfg.exit.pred:
        ok = any(wn in adom.get(p, ()) or wn is p for wn in writers)
        ctx.check(ok, "ALLPATHS", f"exit via line {p.lineno}", func=adj, node=p.ast, construct=f"exit-without-sound_off:{p.kind}",
                  msg="an exit of adjust_offsets_w_sustain is not preceded by the loop that writes sound_off for every note")
    # ---- CMP / CC64
    ctx.rule("CMP", "the only comparison involving the threshold is `value > threshold`: at or below the threshold the pedal is up")
    thr_p = adj.params[2]
    cmps = [n for n in own_nodes(adj.node) if isinstance(n, ast.Compare) and any(isinstance(x, ast.Name) and x.id == thr_p for x in ast.walk(n))]
    ok = len(cmps) == 1 and len(cmps[0].ops) == 1 and (
        (isinstance(cmps[0].ops[0], ast.Gt) and norm(cmps[0].comparators[0]) == thr_p and "value" in norm(cmps[0].left)) or
        (isinstance(cmps[0].ops[0], ast.Lt) and norm(cmps[0].left) == thr_p and "value" in norm(cmps[0].comparators[0])))
    ctx.check(ok, "CMP", "pedal down iff value > threshold", func=adj, node=cmps[0] if cmps else None, construct="threshold-comparison",
              msg=f"comparison(s) with the threshold: {[norm(c) for c in cmps]}; the pedal must count as down only for value > threshold")
    ctx.rule("CC64", "the sustain pedal is controller number 64")
    nums = [n for n in own_nodes(adj.node) if isinstance(n, ast.Compare) and "number" in norm(n.left) and isinstance(n.comparators[0], ast.Constant)]
    ctx.check(len(nums) == 1 and nums[0].comparators[0].value == 64 and isinstance(nums[0].ops[0], ast.Eq), "CC64", "controls filtered by number == 64",
              func=adj, construct="sustain-controller", msg="sustain pedal events are control changes number 64")
    # ---- F4a note_array
    ctx.rule("F4a", "PerformedPart.note_array: as many dtype fields as values per row, and from_note_array reads only fields that exist")
    na = prog.func(f"{P}:PerformedPart.note_array", "F4a")
    ctx.touch(na)
    built = [n for n in own_nodes(na.node) if isinstance(n, ast.Call) and norm(n.func) in ("np.array", "numpy.array") and n.args and isinstance(n.args[0], ast.Name)
             and any(k.arg == "dtype" and isinstance(k.value, ast.Name) for k in n.keywords)]
    ctx.require(len(built) == 1, "F4a", na.qname, "np.array(<rows>, dtype=<fields>) not found")
    fvar = next(k.value.id for k in built[0].keywords if k.arg == "dtype")
    rvar = built[0].args[0].id
    fields = [n for n in own_nodes(na.node) if isinstance(n, ast.Assign) and norm(n.targets[0]) == fvar and isinstance(n.value, ast.List)]
    rows = [n for n in own_nodes(na.node) if isinstance(n, ast.Call) and norm(n.func) == f"{rvar}.append" and n.args and isinstance(n.args[0], ast.Tuple)]
    ctx.require(len(fields) == 1 and len(rows) == 1, "F4a", na.qname, "fields list / row tuple not found")
    names = [e.elts[0].value for e in fields[0].value.elts]
    k = len(rows[0].args[0].elts)
    ctx.check(len(names) == k, "F4a", f"{len(names)} fields / {k} values", func=na, node=rows[0], construct="note_array-arity",
              msg=f"note_array declares {len(names)} fields but appends rows of {k} values")
    fa = prog.func(f"{P}:PerformedPart.from_note_array", "F4a")
    ctx.touch(fa)
    read = set()
    for n in own_nodes(fa.node):
        if isinstance(n, ast.Subscript) and isinstance(n.slice, ast.Constant) and isinstance(n.slice.value, str) and isinstance(n.value, ast.Name) \
                and isinstance(n.ctx, ast.Load):
            read.add(n.slice.value)
    ctx.check(read <= set(names) and {"pitch", "onset_sec", "duration_sec", "velocity"} <= read, "F4a", f"from_note_array reads {sorted(read)}", func=fa,
              construct="from_note_array-fields", msg=f"from_note_array reads {sorted(read - set(names))} which note_array does not produce "
                                                    f"(or no longer reads the mandatory fields)")
    # ---- TRACKKEY
    ctx.rule("TRACKKEY", "sanitize_track_numbers: the map key and all three lookups are (part index, track) with the index from enumerate")
    sn = prog.func(f"{P}:Performance.sanitize_track_numbers", "TRACKKEY")
    ctx.touch(sn)
    keys = [n for n in own_nodes(sn.node) if isinstance(n, ast.Tuple) and len(n.elts) == 2 and isinstance(n.elts[1], ast.Call)
            and norm(n.elts[1].func).endswith(".get") and n.elts[1].args and isinstance(n.elts[1].args[0], ast.Constant) and n.elts[1].args[0].value == "track"]
    ctx.floor("TRACKKEY", "(index, track) tuples", len(keys), 2)
    for kx in keys:
        i = kx.elts[0]
        # i must be the first target of an enclosing enumerate
        p = kx
        bound = False
        while p is not None and p is not sn.node:
            for it, tgt in ([(p.iter, p.target)] if isinstance(p, ast.For) else
                            [(g.iter, g.target) for g in p.generators] if isinstance(p, (ast.ListComp, ast.GeneratorExp, ast.SetComp)) else []):
                if isinstance(it, ast.Call) and norm(it.func) == "enumerate" and isinstance(tgt, ast.Tuple) and norm(tgt.elts[0]) == norm(i):
                    bound = True
            p = getattr(p, "_parent", None)
        ctx.check(isinstance(i, ast.Name) and bound, "TRACKKEY", f"key {norm(kx)[:40]} at line {kx.lineno}", func=sn, node=kx,
                  construct=f"track-key-without-part-index:{kx.lineno and norm(kx.elts[1])[:20]}",
                  msg=f"`{norm(kx)}`: the first component must be the enumerate index of the performed part, otherwise equal "
                      f"track numbers of different parts are mixed")
    G.rule_F8a(ctx, [f"{P}:PerformedPart.note_array", f"{P}:adjust_offsets_w_sustain", f"{P}:PerformedPart.from_note_array"], "performance")
    G.rule_F7a(ctx, [f for f in prog.functions_in(P)])
    # key contract (evidence tier)
    acc = set()
    pn = prog.cls(f"{P}:PerformedNote")
    init = pn.methods["__init__"]
    for n in own_nodes(init.node):
        if isinstance(n, ast.Subscript) and isinstance(n.ctx, ast.Store) and isinstance(n.slice, ast.Constant):
            acc.add(n.slice.value)
        if isinstance(n, ast.Assign) and norm(n.targets[0]) == "self._accepted_keys" and isinstance(n.value, ast.List):
            acc |= {e.value for e in n.value.elts if isinstance(e, ast.Constant)}
    ctx.extra["PerformedNote_keys"] = sorted(acc)
