"""C01 — a part is a consistent time-ordered collection under any edit history."""
from ..rules import timeline as tl

EXPLANATION = (
    "Static analysis of the six short functions that maintain Part's timeline. Decides, for every input at once: "
    "(F2a) ownership of the timeline's private state — all stores in the package are classified against the owner set; "
    "(F2b) quarter-table writes refresh the cached map on every path; (F2c) every computed subscript of "
    "_points/_quarter_times/_quarter_durations is in range in every order-type cell of (index,len); (F2d) the executed "
    "prev/next stores of the point inserter and deleter equal the doubly-linked-list specification in every cell; "
    "(F2e) registries and back references are paired; (F2f) the negative-time raise dominates every path to the "
    "inserter; (F2g) queries read the registries the adders write, by the right key and direction; (F2h) new points "
    "are seeded from the quarter map and set_quarter_duration rewrites exactly the half-open slice up to the next change."
)

NOT_DECIDED = [
    "query results equal a reference model over arbitrary edit histories (run-time comparison over unbounded histories)",
    "strict monotonicity of point times as a consequence of searchsorted on a sorted array (holds under F2a; not re-proved)",
]


def run(ctx):
    from ..rules import round5 as _R5
    _R5.rule_init_chain(ctx)
    _R5.rule_identity_hash(ctx)
    tl.rule_F2a(ctx)
    tl.rule_F2b(ctx)
    tl.rule_F2c_F2d(ctx)
    tl.rule_F2e(ctx)
    tl.rule_F2f(ctx)
    tl.rule_F2g(ctx)
    tl.rule_F2h(ctx)
    tl.rule_F2i(ctx)
