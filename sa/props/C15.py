"""C15 — merging parts keeps every note at the same musical time in disjoint voices."""
import ast

from ..core.program import pos, norm, own_nodes
from ..core.world import world
from ..rules import generic as G
from ..rules import timeline as TL
from ..rules import extra as X
from ..rules.dispatch import find_chain, lift_chain

EXPLANATION = (
    "Static analysis of score.merge_parts and score.iter_parts. Decides: (RESC) start and end of every transferred element "
    "are both multiplied by the same per-part factor lcm/divisions; (F2a/F2b) the merged part gets its quarter duration "
    "through the Part constructor / owner API, not by writing the private tables; (OFFSET) in each reassign mode the "
    "voice/staff offset added depends on the part index only (sum over the preceding parts / per-part mapping) and a "
    "missing staff counts as 1; (DISCARD) the classes dropped from the second part on include the structural classes the "
    "documentation lists (Clef kept in staff modes); (F6-modes) the validated mode names are exactly the dispatched ones; "
    "(SINGLE) a single part is returned before anything is modified; (F6-flat) every branch of iter_parts' type dispatch "
    "is reachable (class-hierarchy-aware subsumption) and a Score is flattened through its parts."
    ' (FLAT-all) iter_parts yields every part it meets (no condition besides the isinstance dispatch).'
)
NOT_DECIDED = [
    "equality of the merged part's sounding notes with the score-level note array (run-time values)",
    "the docstring documents a mode 'both' that the code calls 'auto' (evidence only)",
]
S = "partitura.score"
DOC_STRUCTURAL = {"Barline", "Page", "System", "Clef", "Measure", "TimeSignature", "KeySignature"}


def run(ctx):
    from ..rules import round5 as _R5d
    _R5d.rule_parts_list_complete(ctx)
    from ..rules import round5 as _R5
    _R5.rule_identity_hash(ctx)
    prog = ctx.prog
    w = world(ctx)
    f = prog.func(f"{S}:merge_parts", "C15")
    ctx.touch(f)
    # ---- RESC (locals found by role: the call <merged>.add(E, start=S, end=En))
    ctx.rule("RESC", "start and end of each transferred element are its own start/end times multiplied by the same per-part factor "
                     "T[i] (i the part index), with T = [int(lcm / d) ...] and lcm = np.lcm.reduce(divisions)")
    defs = {}
    for n in own_nodes(f.node):
        if isinstance(n, ast.Assign) and len(n.targets) == 1 and isinstance(n.targets[0], ast.Name):
            defs.setdefault(n.targets[0].id, []).append(n.value)
    merged = [k for k, vs in defs.items() for v in vs if isinstance(v, ast.Call) and norm(v.func) == "Part"]
    ctx.require(len(merged) == 1, "RESC", f.qname, "merged part variable not found")
    mp = merged[0]
    adds = [c for c in own_nodes(f.node) if isinstance(c, ast.Call) and norm(c.func) == f"{mp}.add"]
    ok_add = len(adds) == 1 and adds[0].args and isinstance(adds[0].args[0], ast.Name) and \
        all(isinstance(k.value, ast.Name) for k in adds[0].keywords) and {k.arg for k in adds[0].keywords} == {"start", "end"}
    ctx.check(ok_add, "RESC", "elements added at the rescaled times", func=f, construct="rescale:add",
              msg="<merged>.add(e, start=<rescaled start>, end=<rescaled end>) expected")
    factor_tabs = set()
    if ok_add:
        ev = adds[0].args[0].id
        kws = {k.arg: k.value.id for k in adds[0].keywords}
        for var, attr in ((kws["start"], "start"), (kws["end"], "end")):
            vs = defs.get(var, [])
            ok = len(vs) == 1
            if ok:
                v = vs[0].body if isinstance(vs[0], ast.IfExp) else vs[0]
                v = X.expand_single_defs(v, defs, keep={ev})  # `e.start.t * time_multiplier` with `time_multiplier = T[i]`
                ok = isinstance(v, ast.BinOp) and isinstance(v.op, ast.Mult)
                if ok:
                    sides = {norm(v.left): v.left, norm(v.right): v.right}
                    tpart = [x for k, x in sides.items() if k != f"{ev}.{attr}.t"]
                    ok = f"{ev}.{attr}.t" in sides and len(tpart) == 1 and isinstance(tpart[0], ast.Subscript) and isinstance(tpart[0].value, ast.Name) \
                        and isinstance(tpart[0].slice, ast.Name)
                    if ok:
                        factor_tabs.add((tpart[0].value.id, tpart[0].slice.id))
            ctx.check(ok, "RESC", f"{attr} time x per-part factor", func=f, construct=f"rescale:new_{attr}",
                      msg=f"the {attr} position handed to <merged>.add must be e.{attr}.t times the per-part factor: positions and durations are "
                          f"rescaled to the lcm of the divisions")
    ctx.check(len(factor_tabs) == 1, "RESC", "same factor for start and end", func=f, construct="rescale:same-factor",
              msg=f"start and end must use the same factor table and index (found {sorted(factor_tabs)})")
    lcmv = None
    if len(factor_tabs) == 1:
        tab, idx = next(iter(factor_tabs))
        tm = defs.get(tab, [])
        ok = len(tm) == 1 and isinstance(tm[0], ast.ListComp) and isinstance(tm[0].elt, (ast.Call, ast.BinOp))
        if ok:
            e = tm[0].elt.args[0] if isinstance(tm[0].elt, ast.Call) and norm(tm[0].elt.func) == "int" and tm[0].elt.args else tm[0].elt
            ok = isinstance(e, ast.BinOp) and isinstance(e.op, (ast.Div, ast.FloorDiv)) and isinstance(e.left, ast.Name) and norm(e.right) == norm(tm[0].generators[0].target)
            if ok:
                lcmv = e.left.id
        ctx.check(ok, "RESC", "factors are lcm / divisions", func=f, construct="rescale:factors", msg="the factor table must be [int(lcm / d) for d in divisions]")
        lcm = defs.get(lcmv, []) if lcmv else []
        ctx.check(len(lcm) == 1 and norm(lcm[0]).startswith("np.lcm.reduce("), "RESC", "lcm over all parts' divisions", func=f, construct="rescale:lcm",
                  msg="lcm must be np.lcm.reduce over the parts' quarter durations")
    # ---- F2a / F2b: owner API
    TL.rule_F2a(ctx, only_funcs={f.qname})
    ctor = [c for c in own_nodes(f.node) if isinstance(c, ast.Call) and norm(c.func) == "Part"]
    kw = {k.arg: norm(k.value) for c in ctor for k in c.keywords}
    ctx.rule("QDUR", "the merged part is constructed with quarter_duration=lcm (owner API)")
    ctx.check(len(ctor) == 1 and lcmv is not None and kw.get("quarter_duration") == lcmv, "QDUR", "Part(..., quarter_duration=lcm)", func=f, construct="merged-quarter-duration",
              msg="the merged part must be created with the lcm as its quarter duration (every time point then carries it)")
    # ---- OFFSET
    ctx.rule("OFFSET", "voice offset = sum(maximum_voices[:p_ind]); staff offset = sum(maximum_staves[:p_ind]) with a missing staff counted as 1; "
                       "auto mode maps through per-part voice/staff mappings built from the preceding parts' staves")
    def offset_terms(attr):
        """expressions assigned / added to e.<attr>, with the guarding reassign literal"""
        out = []
        for n in own_nodes(f.node):
            tgt = val = None
            if isinstance(n, ast.Assign) and len(n.targets) == 1 and isinstance(n.targets[0], ast.Attribute) and n.targets[0].attr == attr \
                    and isinstance(n.targets[0].value, ast.Name):
                tgt, val = n.targets[0], n.value
            elif isinstance(n, ast.AugAssign) and isinstance(n.target, ast.Attribute) and n.target.attr == attr and isinstance(n.target.value, ast.Name) \
                    and isinstance(n.op, ast.Add):
                tgt, val = n.target, n.value
            if tgt is None:
                continue
            guard = None
            p = getattr(n, "_parent", None)
            while p is not None and p is not f.node:
                if isinstance(p, ast.If) and "reassign" in norm(p.test) and any(n is x for b in p.body for x in ast.walk(b)):
                    lits = [c.value for c in ast.walk(p.test) if isinstance(c, ast.Constant) and isinstance(c.value, str)]
                    if lits and guard is None:
                        guard = lits[0]
                p = getattr(p, "_parent", None)
            out.append((guard, X.expand_single_defs(val, defs)))
        return out

    part_index = {norm(l.target.elts[0]) for l in own_nodes(f.node) if isinstance(l, ast.For) and isinstance(l.iter, ast.Call) and norm(l.iter.func) == "enumerate"
                  and isinstance(l.target, ast.Tuple)}

    def has_prefix_sum(expr, table):
        for c in ast.walk(expr):
            if isinstance(c, ast.Call) and norm(c.func) == "sum" and c.args:
                a = c.args[0]
                if isinstance(a, ast.Subscript) and isinstance(a.value, ast.Name) and isinstance(a.slice, ast.Slice) and a.slice.lower is None \
                        and a.slice.upper is not None and norm(a.slice.upper) in part_index:
                    return True
        return False

    v_terms = [v for g, v in offset_terms("voice") if g == "voice"]
    s_terms = [v for g, v in offset_terms("staff") if g == "staff"]
    ctx.check(len(v_terms) == 1 and has_prefix_sum(v_terms[0], "maximum_voices"), "OFFSET", "voice mode offset", func=f, construct="offset:voice",
              msg="in voice mode e.voice must be shifted by sum(maximum_voices[:p_ind]) — the voices of the preceding parts only")
    ok_staff = len(s_terms) == 1 and has_prefix_sum(s_terms[0], "maximum_staves") and any(
        (isinstance(c, ast.IfExp) and isinstance(c.orelse, ast.Constant) and c.orelse.value == 1) or
        (isinstance(c, ast.BoolOp) and isinstance(c.op, ast.Or) and isinstance(c.values[-1], ast.Constant) and c.values[-1].value == 1)
        for c in ast.walk(s_terms[0]))
    ctx.check(ok_staff, "OFFSET", "staff mode offset, missing staff = 1", func=f, construct="offset:staff",
              msg="in staff mode e.staff (1 if missing) must be shifted by sum(maximum_staves[:p_ind])")
    a_v = [v for g, v in offset_terms("voice") if g == "auto"]
    a_s = [v for g, v in offset_terms("staff") if g == "auto"]
    mappings = {k for k, vs in defs.items() for v in vs if isinstance(v, ast.Call) and norm(v.func) == "dict" and v.args and isinstance(v.args[0], ast.Call)
                and norm(v.args[0].func) == "zip"}
    ok_auto = len(a_v) == 1 and len(a_s) == 1 and isinstance(a_v[0], ast.Subscript) and norm(a_v[0].value) in mappings \
        and isinstance(a_s[0], ast.Subscript) and norm(a_s[0].value) in mappings and norm(a_v[0].value) != norm(a_s[0].value)
    ctx.check(ok_auto, "OFFSET", "auto mode mappings", func=f, construct="offset:auto", msg="auto mode must renumber through voice_mapping / staff_mapping")
    X.rule_offset_table_is_max(ctx)
    X.rule_yield_unconditional(ctx)
    # ---- DISCARD
    ctx.rule("DISCARD", "el_to_discard (applied to all parts but the first) contains the structural classes the documentation lists; "
                        "Clef is kept in the staff modes (each part keeps its staves)")
    tuples = {}
    for n in own_nodes(f.node):
        if isinstance(n, ast.If) or True:
            pass
    for n in own_nodes(f.node):
        if isinstance(n, ast.Assign) and isinstance(n.targets[0], ast.Name) and isinstance(n.value, ast.Tuple) and len(n.value.elts) >= 5 \
                and all(isinstance(e, ast.Name) and e.id[:1].isupper() for e in n.value.elts):
            guard = norm(n._parent.test) if isinstance(getattr(n, "_parent", None), ast.If) else "?"
            tuples[guard] = {norm(e) for e in n.value.elts}
    ctx.check(len(tuples) == 2, "DISCARD", "one tuple per mode family", func=f, construct="discard:tuples", msg=f"discard tuples found under guards {sorted(tuples)}")
    for guard, classes in tuples.items():
        need = DOC_STRUCTURAL if "voice" in guard else DOC_STRUCTURAL - {"Clef"}
        ctx.check(need <= classes, "DISCARD", f"[{guard}] discards {sorted(need)}", func=f, construct=f"discard:{'voice' if 'voice' in guard else 'staff'}",
                  msg=f"under `{guard}` the classes {sorted(need - classes)} are not discarded from later parts: structural elements would be duplicated")
    use = [n for n in own_nodes(f.node) if isinstance(n, ast.If) and isinstance(n.test, ast.BoolOp) and isinstance(n.test.op, ast.Or)
           and any(norm(v) in {f"{i} == 0" for i in part_index} for v in n.test.values)
           and any(isinstance(v, ast.UnaryOp) and isinstance(v.op, ast.Not) and "isinstance" in norm(v) for v in n.test.values)]
    ctx.check(len(use) == 1, "DISCARD", "first part copied fully, later parts filtered", func=f, construct="discard:use",
              msg="the transfer must be guarded by `p_ind == 0 or not isinstance(e, el_to_discard)`")
    # ---- modes
    ctx.rule("F6-modes", "validated mode names == dispatched mode names")
    val = None
    for n in own_nodes(f.node):
        if isinstance(n, ast.If) and isinstance(n.test, ast.Compare) and norm(n.test.left) == "reassign" and isinstance(n.test.ops[0], ast.NotIn) \
                and any(isinstance(s, ast.Raise) for s in n.body):
            val = {e.value for e in n.test.comparators[0].elts}
    disp = set()
    for n in own_nodes(f.node):
        if isinstance(n, ast.Compare) and norm(n.left) == "reassign":
            c = n.comparators[0]
            if isinstance(n.ops[0], ast.Eq) and isinstance(c, ast.Constant):
                disp.add(c.value)
            elif isinstance(n.ops[0], ast.In) and isinstance(c, (ast.List, ast.Tuple)):
                disp |= {e.value for e in c.elts}
    ctx.check(val is not None and val == disp and len(val) == 3, "F6-modes", f"validator {sorted(val or [])} / dispatch {sorted(disp)}", func=f,
              construct="reassign-modes", msg=f"merge_parts validates {sorted(val or [])} but dispatches {sorted(disp)}")
    doc = ast.get_docstring(f.node) or ""
    if '"both"' in doc and "both" not in (val or set()):
        ctx.note("F6-modes", 'the docstring documents reassign="both"; the code accepts "auto"', f)
    # ---- SINGLE
    ctx.rule("SINGLE", "`if len(parts) == 1: return parts[0]` comes before any construction or modification")
    cfg = w.inf.cfg(f)
    single = [n for n in cfg.nodes if n.kind == "test" and norm(n.ast) == "len(parts) == 1"]
    ctx.check(len(single) == 1, "SINGLE", "single-part shortcut", func=f, construct="single:shortcut", msg="the single-part shortcut was not found")
    if single:
        dom = cfg.dominators(include_exc=False)
        first_effect = min((pos(n.ast) for n in cfg.nodes if n.ast is not None and any(
            (isinstance(x, ast.Attribute) and isinstance(x.ctx, ast.Store)) or (isinstance(x, ast.Call) and norm(x.func) in ("Part", f"{mp}.add"))
            for x in ast.walk(n.ast) if not isinstance(x, ast.Raise))), default=10 ** 9)
        ret_ok = any(isinstance(m.ast, ast.Return) and norm(m.ast.value) == "parts[0]" for m, l in single[0].succ if l == "T" and m.ast is not None)
        ctx.check(ret_ok and pos(single[0].ast) < first_effect, "SINGLE", "returned as is, before any effect", func=f, construct="single:order",
                  msg="a single part must be returned as is before the merged part is built or any element is modified")
    # ---- iter_parts
    ctx.rule("F6-flat", "iter_parts: no isinstance branch is subsumed by an earlier one; a Score is flattened through .parts, groups through .children")
    ip = prog.func(f"{S}:iter_parts", "F6-flat")
    ctx.touch(ip)
    chain = find_chain(ip, ip.params[0], 1)
    ctx.require(chain is not None, "F6-flat", ip.qname, "type dispatch not found")
    br = lift_chain(chain, ip.params[0])
    seen_neg = []  # classes excluded by earlier `not isinstance` branches taken
    score_cls = prog.cls(f"{S}:Score")
    reachable_score = None
    covered_all_nonlist = False
    for b in br:
        if b.kind != "isinstance":
            continue
        names = [norm(c) for c in b.classes]
        if b.negated and set(names) >= {"list", "tuple", "set"}:
            covered_all_nonlist = True  # everything that is not a list/tuple/set is caught here
            continue
        if "Score" in names:
            builtin_bases = any(isinstance(x, str) and x in ("list", "tuple", "set") for c in score_cls.mro for x in c.bases)
            reachable_score = not covered_all_nonlist or builtin_bases
    ctx.check(reachable_score is True, "F6-flat", "the Score branch is reachable", func=ip, node=chain, construct="unreachable-branch:Score",
              msg="`isinstance(partlist, Score)` is tested after `not isinstance(partlist, (list, tuple, set))`, which already catches every "
                  "Score: the branch is dead and iter_parts(score) iterates [score] and fails on score.children")
    src = norm(ip.node)
    ctx.check("partlist.parts" in src and ".children" in src, "F6-flat", "flattening sources", func=ip, construct="flatten-sources",
              msg="iter_parts must read Score.parts and PartGroup.children")
    G.rule_F7a(ctx, [f, ip])
    G.rule_F4d(ctx, [f, ip, prog.func("partitura.io:load_score_as_part")], "merge", floor=3)
    G.rule_F8a(ctx, [f.qname, ip.qname], "merge")
