"""C10 — signature, clef and measure maps return what is in force at the queried time."""
import ast

from ..core.program import norm
from ..core.world import world
from ..rules import generic as G
from ..rules import maps as M
from ..rules.dispatch import find_chain, lift_chain

EXPLANATION = (
    "Static analysis of the six map properties of Part. Decides: (F8a) every numpy/scipy name they reach exists in the "
    "installed library; (F7d) the measure tables are not indexed before the emptiness default is installed; "
    "(SIB-backfill) the three previous-value maps all back-fill the first element and the back-fill is reachable from "
    "the single-element branch; (SIB-interp) interpolator keyword agreement; (F4b) row width of each map vs. every "
    "unpacking/indexing site in the package; (F3) clef and mode code tables are mutually inverse / partition the same "
    "literal sets and the clef default is encodable."
    ' (NONE-test) the unnumbered-measure fallback of measure_number_map tests against None, not truthiness.'
)
NOT_DECIDED = [
    "values returned at arbitrary t (run-time arrays)", "pickup correction arithmetic of the first measure",
    "agreement of scalar and vector queries",
]

ENTRY = [f"partitura.score:Part.{m}" for m in ("time_signature_map", "key_signature_map", "clef_map", "measure_map",
                                               "measure_number_map", "metrical_position_map")]


def rule_codes(ctx):
    ctx.rule("F3-codes", "CLEF_TO_INT is injective and INT_TO_CLEF its inverse; clef_sign_to_int/clef_int_to_sign read "
                         "those tables; the clef default literal is a key; key_mode_to_int and key_int_to_mode partition "
                         "the same literal sets and decode(encode(x)) stays in x's class; unknown modes raise")
    w = world(ctx)
    fo = w.folder
    c2i = fo.const("partitura.utils.globals", "CLEF_TO_INT")
    i2c = fo.const("partitura.utils.globals", "INT_TO_CLEF")
    ctx.check(len(set(c2i.values())) == len(c2i), "F3-codes", "CLEF_TO_INT injective", where="partitura.utils.globals:CLEF_TO_INT",
              file="partitura/utils/globals.py", construct="CLEF_TO_INT:not-injective", msg="two clef signs share a code")
    ctx.check(all(i2c.get(v) == k for k, v in c2i.items()) and len(i2c) == len(c2i), "F3-codes", "INT_TO_CLEF inverse",
              where="partitura.utils.globals:INT_TO_CLEF", file="partitura/utils/globals.py",
              construct="INT_TO_CLEF:not-inverse", msg="INT_TO_CLEF is not the inverse of CLEF_TO_INT: clef codes do not decode to what was encoded")
    for fn, table in (("clef_sign_to_int", "CLEF_TO_INT"), ("clef_int_to_sign", "INT_TO_CLEF")):
        f = ctx.prog.func(f"partitura.utils.music:{fn}", "F3-codes")
        ctx.touch(f)
        rets = [n for n in ast.walk(f.node) if isinstance(n, ast.Return)]
        ok = len(rets) == 1 and isinstance(rets[0].value, ast.Subscript) and norm(rets[0].value.value) == table \
            and norm(rets[0].value.slice) == f.params[0]
        ctx.check(ok, "F3-codes", f"{fn} reads {table}", func=f, construct=f"{fn}:table",
                  msg=f"{fn} must return {table}[{f.params[0]}]")
    cm = ctx.prog.func("partitura.score:Part.clef_map", "F3-codes")
    lits = [n.args[0].value for n in ast.walk(cm.node) if isinstance(n, ast.Call) and norm(n.func) == "clef_sign_to_int"
            and n.args and isinstance(n.args[0], ast.Constant)]
    ctx.require(lits, "F3-codes", cm.qname, "default clef literal not found")
    for l in lits:
        ctx.check(l in c2i, "F3-codes", f"clef default {l!r} encodable", func=cm, construct=f"clef-default:{l}",
                  msg=f"the default clef {l!r} is not a key of CLEF_TO_INT (KeyError for every staff without a clef)")
    tabs = {}
    for fn in ("key_mode_to_int", "key_int_to_mode"):
        f = ctx.prog.func(f"partitura.utils.music:{fn}", "F3-codes")
        ctx.touch(f)
        chain = find_chain(f, f.params[0])
        ctx.require(chain is not None, "F3-codes", f.qname, "membership dispatch not recognised")
        br = lift_chain(chain, f.params[0], fo, f.module)
        rows = []
        for b in br:
            if b.kind == "in" and b.returns is not None:
                rows.append((frozenset(map(repr, b.values)), fo.expr(b.returns, f.module), b.values))
        has_else_raise = any(b.kind == "else" and b.raises for b in br)
        ctx.check(has_else_raise, "F3-codes", f"{fn}: unknown mode raises", func=f, construct=f"{fn}:no-raise",
                  msg=f"{fn} must reject unknown modes (else: raise)")
        tabs[fn] = rows
    a, b = tabs["key_mode_to_int"], tabs["key_int_to_mode"]
    ctx.check({r[0] for r in a} == {r[0] for r in b} and len(a) == 2, "F3-codes", "mode literal sets agree",
              where="partitura.utils.music:key_mode_to_int", file="partitura/utils/music.py", construct="mode-sets-differ",
              msg="key_mode_to_int and key_int_to_mode partition different literal sets")
    for (sa, ia, va) in a:
        for (sb, ib, vb) in b:
            if sa == sb:
                ctx.check(ia in va and ib in vb, "F3-codes", f"mode class {sorted(sa)} closed under encode/decode",
                          where="partitura.utils.music:key_mode_to_int", file="partitura/utils/music.py",
                          construct=f"mode-class-not-closed:{ia}",
                          msg=f"encoding a mode of class {sorted(sa)} gives {ia!r}/{ib!r}, which is not a member of the class: "
                              f"mode codes do not decode to what was encoded")


def run(ctx):
    from ..rules import arrays as _A4
    _A4.rule_F4a(ctx, 'partitura.utils.music:note_array_from_note_list', 'fields', 'note_info', 5)
    G.rule_F8a(ctx, ENTRY, "maps")
    M.rule_F7d_measure_maps(ctx)
    M.rule_backfill_siblings(ctx)
    M.rule_empty_2d(ctx)
    from ..rules import extra as X
    X.rule_number_none_test(ctx)
    # the metrical-position columns (rel_onset_div, tot_measure_div) are the map's values in division units: they follow the
    # lcm rescaling of the score-level note array like every other division column
    from ..rules import arrays as _A
    _A.rule_rescale_set(ctx, "partitura.utils.music:note_array_from_note_list", "partitura.utils.music:note_array_from_part_list",
                        only=("rel_onset_div", "tot_measure_div"))
    M.rule_interp_kwargs(ctx)
    M.rule_F4b(ctx)
    rule_codes(ctx)
    G.rule_F7a(ctx, [ctx.prog.func(q) for q in ENTRY])
