"""C05 — the note array is a faithful table of the score."""
import ast

from ..core.program import norm, own_nodes
from ..core.world import world
from ..rules import arrays as A
from ..rules import generic as G
from ..rules import maps as M

EXPLANATION = (
    "Static analysis of the note/rest array builders in utils/music.py. Decides: (F4a) dtype field list and row tuple "
    "agree group by group under identical guards in the two row builders; (F4b) every unpacking of a signature map has "
    "the map's row width; (F9c) all four builders sort by pitch and then stably by onset; (F4d) every call among the "
    "builders passes only keywords the callee accepts and all required ones; (RESCALE) every division-unit column is "
    "rescaled when parts with different divisions are combined; (TIE) part builders pass notes_tied / the row builder "
    "uses duration_tied; (ONSET) every optional-column map is evaluated at the note's own onset; (F8a) library names "
    "reachable from the builders exist."
    ' (LIMIT-sib) every limit_denominator(k) of the note-array -> score conversion uses one bound k.'
)
NOT_DECIDED = [
    "values of the columns (run-time)", "lcm arithmetic", "round trip array -> score -> array",
    "note_array_to_score: `all([..] and [..])` (F7i) is recorded as evidence only: given the preceding field check the "
    "truncated condition is equivalent",
]

MUSIC = "partitura.utils.music"
BUILDERS = [f"{MUSIC}:{n}" for n in ("note_array_from_note_list", "rest_array_from_rest_list",
                                     "note_array_from_part_list", "rest_array_from_part_list")]
FAMILY = [f"{MUSIC}:{n}" for n in ("note_array_from_part", "rest_array_from_part", "note_array_from_part_list",
                                   "rest_array_from_part_list", "ensure_notearray", "ensure_rest_array")] + \
         ["partitura.score:Part.note_array", "partitura.score:Part.rest_array", "partitura.score:Score.note_array",
          "partitura.score:PartGroup.note_array"]


def rule_tie_and_onset(ctx):
    ctx.rule("TIE", "one row per tie chain: the part-level builders pass part.notes_tied and the row builder computes the "
                    "duration from duration_tied")
    ctx.rule("ONSET", "every optional-column map in the row loop is evaluated at the row object's own onset (<obj>.start.t)")
    prog = ctx.prog
    nb = prog.func(f"{MUSIC}:note_array_from_part", "TIE")
    ctx.touch(nb)
    calls = [n for n in own_nodes(nb.node) if isinstance(n, ast.Call) and norm(n.func) == "note_array_from_note_list"]
    ctx.require(calls, "TIE", nb.qname, "call of note_array_from_note_list not found")
    for c in calls:
        arg = next((k.value for k in c.keywords if k.arg == "note_list"), c.args[0] if c.args else None)
        ctx.check(arg is not None and norm(arg).endswith(".notes_tied"), "TIE", f"{nb.qname}:note_list", func=nb, node=c,
                  construct="note_list-not-notes_tied",
                  msg=f"note_array_from_part passes `{norm(arg) if arg is not None else None}` as note_list; a tie chain must "
                      f"give one row, which needs part.notes_tied (chain heads only)")
    for q, loopvar_hint in ((f"{MUSIC}:note_array_from_note_list", "note_list"), (f"{MUSIC}:rest_array_from_rest_list", "rest_list")):
        f = prog.func(q, "TIE")
        ctx.touch(f)
        loops = [n for n in own_nodes(f.node) if isinstance(n, ast.For) and norm(n.iter) == loopvar_hint]
        ctx.require(len(loops) == 1, "TIE", q, "row loop not found")
        lp = loops[0]
        v = norm(lp.target)
        uses_tied = any(isinstance(n, ast.Attribute) and n.attr == "duration_tied" and norm(n.value) == v for n in ast.walk(lp))
        uses_plain = any(isinstance(n, ast.Attribute) and n.attr == "duration" and norm(n.value) == v for n in ast.walk(lp))
        ctx.check(uses_tied and not uses_plain, "TIE", f"{q}:duration_tied", func=f, node=lp, construct="row-duration-not-tied",
                  msg=f"the row duration must come from `{v}.duration_tied` (whole chain), not from the first note's own duration")
        n_calls = 0
        for n in ast.walk(lp):
            if isinstance(n, ast.Call) and isinstance(n.func, ast.Name) and n.func.id in \
                    ("key_signature_map", "time_signature_map", "metrical_position_map"):
                n_calls += 1
                ok = len(n.args) == 1 and norm(n.args[0]) == f"{v}.start.t"
                ctx.check(ok, "ONSET", f"{q}:{n.func.id}", func=f, node=n, construct=f"map-not-at-onset:{n.func.id}",
                          msg=f"`{norm(n)}`: the optional column must state what the score says at the note's onset "
                              f"({v}.start.t)")
        ctx.require(n_calls == 3, "ONSET", q, f"expected 3 map calls in the row loop, found {n_calls}")


def run(ctx):
    from ..rules import round6 as _R6
    _R6.rule_limit_denominator_agrees(ctx, ['partitura.musicanalysis.note_array_to_score:create_divs_from_beats'])
    from ..rules import round5 as _R5
    _R5.rule_common_divisions_lcm(ctx)
    from ..rules import extra as _X4
    _X4.rule_multiple_divisions_refused(ctx)
    from ..rules import extra as _X3
    _n = _X3.rule_beat_type_source(ctx, ['partitura.musicanalysis.note_array_to_score', 'partitura.utils.music'], 'C05')
    ctx.floor('BEAT-TYPE', 'conversions', _n, 2)
    prog = ctx.prog
    A.rule_F4a(ctx, f"{MUSIC}:note_array_from_note_list", "fields", "note_info", 10)
    A.rule_F4a(ctx, f"{MUSIC}:rest_array_from_rest_list", "fields", "rest_info", 9)
    M.rule_F4b(ctx, maps=("time_signature_map", "key_signature_map", "metrical_position_map"), floor=6)
    A.rule_F9c(ctx, BUILDERS)
    G.rule_F4d(ctx, [prog.func(q, "F4d") for q in FAMILY], "array builders", floor=12)
    A.rule_rescale_set(ctx, f"{MUSIC}:note_array_from_note_list", f"{MUSIC}:note_array_from_part_list")
    rule_tie_and_onset(ctx)
    G.rule_F8a(ctx, FAMILY + BUILDERS, "array builders")
    G.rule_F7a(ctx, [prog.func(q) for q in BUILDERS + FAMILY])
    nas = prog.func("partitura.musicanalysis.note_array_to_score:note_array_to_score", "F7i")
    ctx.touch(nas)
    for n in G.boolop_over_displays(nas):
        ctx.note("F7i", f"`{norm(n)[:90]}`: `and` between two list displays keeps only the second list; equivalent here "
                        f"because the preceding field check already guarantees the first", nas, n)
    G.rule_F4d(ctx, [nas], "note_array_to_score", floor=2)
