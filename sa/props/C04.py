"""C04 — score to MIDI to score preserves every note's timing and pitch exactly."""
from ..rules import generic as G
from ..rules import midi as M
from ..rules import extra as X

EXPLANATION = (
    "Static analysis of save_score_midi / map_to_track_channel / get_ppq and the importer's mode dispatch. Decides: "
    "(TAINT-velocity) the requested velocity reaches every note_on; (F10) the division->tick conversion rounds before "
    "int; (PPQ) the header's ticks_per_beat is the variable to_ppq multiplies by, defined from the lcm of all parts' "
    "divisions and only doubled, and every event time goes through to_ppq; (F6-modes) both mode dispatchers cover "
    "exactly 0..5 and the three pickup policies are dispatched with a raising else; (TIE-midi) tie chains are exported "
    "as one note; (F7a/F8a/F4d) flow, linkage and call conformance of the exporter."
)
NOT_DECIDED = [
    "multiset equality of notes after re-import (run-time)", "positions of meta events", "grouping recovered by the same "
    "mode on import (exporter mode 2 and importer mode 2 are documented as different)", "behaviour of create_part",
    "read-only-ness of the exporter is decided under C20",
]
EXP = "partitura.io.exportmidi"
ENTRY = [f"{EXP}:save_score_midi", f"{EXP}:map_to_track_channel", f"{EXP}:get_ppq", f"{EXP}:get_partgroup"]


def run(ctx):
    from ..rules import extra as _X4
    _X4.rule_ppq_over_all_divisions(ctx)
    M.rule_note_pairing(ctx)
    from ..rules import extra as _X3
    _X3.rule_single_rounding_offset(ctx)
    M.rule_velocity_taint(ctx)
    M.rule_F10(ctx, f"{EXP}:save_score_midi", "ppq", 1)
    M.rule_ppq_defuse(ctx)
    M.rule_modes(ctx)
    M.rule_tied_export(ctx)
    X.rule_tick_order(ctx)
    G.rule_F7a(ctx, [ctx.prog.func(q) for q in ENTRY])
    G.rule_F8a(ctx, ENTRY, "score midi export")
    G.rule_F4d(ctx, [ctx.prog.func(q) for q in ENTRY], "score midi export", floor=3)
    un = G.unused_parameters(ctx.prog.func(f"{EXP}:save_score_midi"))
    ctx.rule("F7e", "no documented parameter of save_score_midi is ignored")
    f = ctx.prog.func(f"{EXP}:save_score_midi")
    for p in f.all_params:
        ctx.check(p not in un, "F7e", f"{f.qname}:{p}", func=f, construct=f"unused-parameter:{p}",
                  msg=f"parameter `{p}` of save_score_midi is documented but never read")
