"""C06 — performance MIDI export and import preserve notes, controls and timing."""
from ..rules import generic as G
from ..rules import midi as M
from ..rules import extra as X

EXPLANATION = (
    "Static analysis of save_performance_midi / load_performance_midi / adjust_time. Decides: (F7a) every accepted input "
    "kind (Performance, performed part, list) binds the list of performed parts before it is read; (F7h) the tempo-change "
    "list collected across tracks is ordered before the first-later-entry scan; (CLOCK) the ppq/mpq of the tick formula "
    "are the ones written into the header, the importer hands the file's ppq to adjust_time and PerformedPart, all 7 tick "
    "formulas are 10**6*ppq*s/mpq; (F10) all 7 conversions round before int; (F5e-pairing) both readers pair by "
    "(channel, pitch) with the zero-velocity note-on rule; (ID-ORDER) the id sort key; (F6-kinds) every message kind the "
    "exporter writes is handled by the importer; (F8a) library names resolve."
    ' (TEMPO-first) the set_tempo message is written on the first emitted track, whatever its number.'
)
NOT_DECIDED = [
    "equality of the loaded performance with the saved one (run-time values)", "tick rounding at exactly .5",
    "default program insertion semantics", "remove_silence_from_performed_part",
]
ENTRY = ["partitura.io.exportmidi:save_performance_midi", "partitura.io.importmidi:load_performance_midi",
         "partitura.io.importmidi:adjust_time", "partitura.utils.music:seconds_to_midi_ticks",
         "partitura.utils.music:midi_ticks_to_seconds"]


def run(ctx):
    from ..rules import extra as _X4
    _X4.rule_validators_accept_valid(ctx)
    G.rule_F7a(ctx, [ctx.prog.func(q) for q in ENTRY])
    M.rule_F7h_tempo(ctx)
    X.rule_no_order_read_before_sort(ctx)
    X.rule_first_track_tempo(ctx)
    M.rule_clock_agreement(ctx)
    M.rule_F10(ctx, "partitura.io.exportmidi:save_performance_midi", "ppq", 7)
    M.rule_note_pairing(ctx)
    M.rule_id_order(ctx)
    M.rule_message_kinds(ctx)
    G.rule_F8a(ctx, ENTRY, "performance midi")
    G.rule_F4d(ctx, [ctx.prog.func(q) for q in ENTRY[:3]], "performance midi", floor=5)
