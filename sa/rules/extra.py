"""Further structural rules added after the first round of seeded changes (DESIGN §10).

Each is a necessary condition whose truth is visible in the shape of the code:
order-type equivalence of comparison-only predicates, must-pass-through of a
store, def-use provenance, sibling agreement, clamp-after-subtract order,
information-dropping format branches, order-dependent reads before ordering.
"""
from __future__ import annotations

import ast
import itertools
from typing import Callable, Dict, List, Optional, Sequence

from ..core.program import pos, AnalysisError, FuncInfo, own_nodes, own_statements, norm
from ..core.world import world


# ---------------------------------------------------------------- order types

def weak_orderings(names: Sequence[str]):
    """All assignments of small integers to `names` realising every weak order (ties allowed)."""
    n = len(names)
    seen = set()
    for ranks in itertools.product(range(n), repeat=n):
        # canonical form: dense ranks
        order = sorted(set(ranks))
        canon = tuple(order.index(r) for r in ranks)
        if canon in seen:
            continue
        seen.add(canon)
        yield dict(zip(names, canon))


def eval_cmp(expr, env) -> Optional[bool]:
    """Evaluate a boolean expression built from comparisons / and / or / not over names in env."""
    if isinstance(expr, ast.BoolOp):
        vals = [eval_cmp(v, env) for v in expr.values]
        if any(v is None for v in vals):
            return None
        return all(vals) if isinstance(expr.op, ast.And) else any(vals)
    if isinstance(expr, ast.UnaryOp) and isinstance(expr.op, ast.Not):
        v = eval_cmp(expr.operand, env)
        return None if v is None else not v
    if isinstance(expr, ast.Compare):
        items = [expr.left] + list(expr.comparators)
        vals = []
        for it in items:
            k = norm(it)
            if k not in env:
                return None
            vals.append(env[k])
        for op, a, b in zip(expr.ops, vals, vals[1:]):
            ok = {ast.Lt: a < b, ast.LtE: a <= b, ast.Gt: a > b, ast.GtE: a >= b, ast.Eq: a == b, ast.NotEq: a != b}.get(type(op))
            if ok is None:
                return None
            if not ok:
                return False
        return True
    return None


def rule_overlap_predicate(ctx, qname: str, rule="ORDTYPE"):
    """find_free_voice: the span test must be equivalent, on every order type of
    (start, end, vstart, vend) with start < end and vstart < vend, to interval intersection."""
    ctx.rule(rule, "a predicate that touches its operands only through comparisons is checked on every order type of the operands "
                   "(finite) against its specification: the voice-span test of find_free_voice is true exactly when "
                   "[start, end) and [vstart, vend) intersect")
    f = ctx.prog.func(qname, rule)
    ctx.touch(f)
    tests = [n for n in own_nodes(f.node) if isinstance(n, ast.If)]
    cand = None
    for t in tests:
        names = {norm(x) for x in ast.walk(t.test) if isinstance(x, ast.Name)}
        if len(names) == 4 and all(isinstance(c, (ast.Compare, ast.BoolOp, ast.UnaryOp, ast.Name, ast.Load, ast.And, ast.Or, ast.Not, ast.cmpop)) for c in ast.walk(t.test)):
            cand = t
    ctx.require(cand is not None, rule, qname, "span test over four names not found")
    params = [p for p in f.params]
    s, e = params[1], params[2]
    loop = [n for n in own_nodes(f.node) if isinstance(n, ast.For) and isinstance(n.target, ast.Tuple) and len(n.target.elts) == 3]
    ctx.require(loop, rule, qname, "loop over (vstart, vend, voice) not found")
    vs, ve = norm(loop[0].target.elts[0]), norm(loop[0].target.elts[1])
    bad = []
    n_types = 0
    for env in weak_orderings([s, e, vs, ve]):
        if not (env[s] < env[e] and env[vs] < env[ve]):
            continue
        n_types += 1
        got = eval_cmp(cand.test, env)
        if got is None:
            raise AnalysisError(rule, qname, "span test is not a pure comparison predicate")
        want = max(env[s], env[vs]) < min(env[e], env[ve])
        if got != want:
            bad.append((dict(env), got, want))
    ctx.extra.setdefault("order_types_checked", {})[qname] = n_types
    ctx.check(not bad, rule, f"{f.name}: `{norm(cand.test)}` == intervals intersect", func=f, node=cand, construct="span-overlap-predicate",
              msg=f"`{norm(cand.test)}` differs from 'the spans intersect' on {len(bad)} of {n_types} order types, e.g. "
                  f"{bad[0][0] if bad else ''} -> {bad[0][1] if bad else ''} (expected {bad[0][2] if bad else ''}): two notes that overlap in "
                  f"time can be put into the same voice and are written back to back without <backup>")


# ------------------------------------------------------------ replace_refs

def rule_replace_refs(ctx):
    rule = "REFSET"
    ctx.rule(rule, "ReplaceRefMixin.replace_refs: for a non-list reference every path through the loop body re-assigns the attribute "
                   "(to the mapped object or None); for a list reference the attribute is re-assigned to the rebuilt list — no "
                   "reference to an object outside o_map survives")
    w = world(ctx)
    f = ctx.prog.func("partitura.utils.generic:ReplaceRefMixin.replace_refs", rule)
    ctx.touch(f)
    cfg = w.inf.cfg(f)
    loops = [n for n in cfg.nodes if n.kind == "for" and "_ref_attrs" in norm(n.ast.iter)]
    ctx.require(len(loops) == 1, rule, f.qname, "loop over _ref_attrs not found")
    head = loops[0]
    setters = {n for n in cfg.nodes if n.kind == "stmt" and any(isinstance(c, ast.Call) and norm(c.func) == "setattr" and len(c.args) == 3
                                                                 and norm(c.args[0]) == f.params[0] for c in ast.walk(n.ast))}
    ctx.require(setters, rule, f.qname, "no setattr(self, attr, ...)")
    # the `o is None` branch needs no store: avoid its T successor
    got = [norm(n.targets[0]) for n in own_nodes(f.node) if isinstance(n, ast.Assign) and isinstance(n.value, ast.Call) and norm(n.value.func) == "getattr"
           and len(n.targets) == 1]
    none_tests = [n for n in cfg.nodes if n.kind == "test" and any(norm(n.ast) in (f"{v} is None", f"{v} == None") for v in got)]
    skip = {m for t in none_tests for m, l in t.succ if l == "T"}
    body_entry = [m for m, l in head.succ if l == "T"]
    ctx.require(body_entry, rule, f.qname, "loop body not found")
    # is there a path from the body entry back to the loop head avoiding every setter and the None branch?
    escapes = cfg.paths_avoiding(head, setters | skip, {head})
    ctx.check(not escapes, rule, "every non-None reference is re-assigned", func=f, construct="reference-kept",
              msg="some path through replace_refs leaves an attribute pointing at its old object (not in o_map): a copied object then keeps "
                  "a reference to an object of the *original* part — references between copied objects must stay inside the copy")


# --------------------------------------------------------------- def-use helpers

def local_defs(f: FuncInfo) -> Dict[str, List[ast.AST]]:
    out: Dict[str, List[ast.AST]] = {}
    for n in own_nodes(f.node):
        if isinstance(n, ast.Assign) and len(n.targets) == 1 and isinstance(n.targets[0], ast.Name):
            out.setdefault(n.targets[0].id, []).append(n.value)
        elif isinstance(n, ast.AugAssign) and isinstance(n.target, ast.Name):
            out.setdefault(n.target.id, []).append(n.value)
    return out


def depends_on(expr, defs, depth=4) -> set:
    """Names (and dotted attribute texts) the expression transitively reads through single-assignment locals."""
    seen = set()
    todo = [(expr, 0)]
    while todo:
        e, d = todo.pop()
        for x in ast.walk(e):
            if isinstance(x, ast.Name) and isinstance(x.ctx, ast.Load):
                if x.id not in seen:
                    seen.add(x.id)
                    if d < depth:
                        for v in defs.get(x.id, []):
                            todo.append((v, d + 1))
            elif isinstance(x, ast.Attribute):
                seen.add(norm(x))
    return seen


def resolve_alias(expr, defs):
    """Follow `x = <expr>` for names with exactly one definition."""
    k = 0
    while isinstance(expr, ast.Name) and len(defs.get(expr.id, [])) == 1 and k < 5:
        expr = defs[expr.id][0]
        k += 1
    return expr


def rule_pickup_source(ctx):
    rule = "PICKUP-src"
    ctx.rule(rule, "the first measure's actual duration used for pickup detection is measured on the map itself: its definition "
                   "depends on the cumulative array y (through an interpolator over x, y) and on both ends of the first measure")
    f = ctx.prog.func("partitura.score:Part._time_interpolator", rule)
    defs = local_defs(f)
    # by role: the value subtracted from the cumulative array under `if actual < normal`
    shift = [n for n in own_nodes(f.node) if isinstance(n, ast.AugAssign) and isinstance(n.target, ast.Name) and isinstance(n.op, ast.Sub)
             and isinstance(n.value, ast.Name) and isinstance(getattr(n, "_parent", None), ast.If)]
    if len(shift) != 1:
        return  # the PICKUP rule reports the missing shift
    yv, adv = shift[0].target.id, shift[0].value.id
    # definitions of the subtracted value: `None` placeholders (a helper's "no pickup" result) do not count, aliases are followed
    def real_defs(name, seen=()):
        out = []
        for v in defs.get(name, []):
            if v is shift[0].value or (isinstance(v, ast.Constant) and v.value is None):
                continue
            if isinstance(v, ast.Name) and v.id not in seen and v.id in defs:
                out.extend(real_defs(v.id, seen + (name,)))
            else:
                out.append(v)
        return out
    ad = real_defs(adv)
    ctx.require(len(ad) == 1, rule, f.qname, "definition of the actual first-measure duration not found")
    mvars = [k for k, vs in defs.items() for v in vs if "iter_starting(Measure)" in norm(v)]
    ctx.require(len(mvars) == 1, rule, f.qname, "first-measure variable not found")
    mv = mvars[0]
    dep = depends_on(ad[0], defs)
    ok = yv in dep and f"{mv}.start.t" in dep and f"{mv}.end.t" in dep
    ctx.check(ok, rule, "actual duration = map(measure end) - map(measure start)", func=f, node=ad[0], construct="pickup-not-measured-on-map",
              msg=f"`{adv} = {norm(ad[0])[:80]}` does not depend on the cumulative map `{yv}` evaluated at both ends of the first measure: a "
                  f"division or signature change inside the first measure is ignored, the pickup is mis-detected and zero lands elsewhere")


# --------------------------------------------------------------- C06: order-dependent read

def rule_no_order_read_before_sort(ctx):
    rule = "F7h-read"
    ctx.rule(rule, "inside the per-track loop that appends to the cross-track tempo list, the list is not read by position "
                   "(L[-1], L[0], ...): its order is not tick order until it is sorted after the loop")
    f = ctx.prog.func("partitura.io.importmidi:load_performance_midi", rule)
    loops = [n for n in own_nodes(f.node) if isinstance(n, ast.For) and isinstance(getattr(n, "_parent", None), ast.FunctionDef)]
    hits = []
    lists = set()
    for loop in loops:
        for n in ast.walk(loop):
            if isinstance(n, ast.Call) and isinstance(n.func, ast.Attribute) and n.func.attr == "append" and isinstance(n.func.value, ast.Name) \
                    and n.args and isinstance(n.args[0], ast.Tuple) and "tick" in norm(n.args[0].elts[0]):
                lists.add((n.func.value.id, loop))
    ctx.require(lists, rule, f.qname, "cross-track accumulation not found")
    for lst, loop in lists:
        for n in ast.walk(loop):
            if isinstance(n, ast.Subscript) and isinstance(n.ctx, ast.Load) and norm(n.value) == lst and not isinstance(n.slice, ast.Slice):
                hits.append(n)
        ctx.check(not hits, rule, f"{lst} not read by position while being collected", func=f, node=hits[0] if hits else None,
                  construct=f"positional-read-before-sort:{lst}",
                  msg=f"`{norm(hits[0]) if hits else ''}` reads `{lst}` by position inside the per-track loop; entries of earlier tracks are in the "
                      f"list in track order, not tick order, so 'the last entry' is not the tempo in force — a genuine change in a later "
                      f"track can be dropped")


# --------------------------------------------------------------- C04: per-tick order

def rule_tick_order(ctx):
    rule = "ORDER-midi"
    ctx.rule(rule, "save_score_midi: each note's note_on is filed before its note_off, and the track writer emits the events of a "
                   "tick in stored order (no re-sorting of the per-tick list) — a zero-length note must come out as on, off")
    f = ctx.prog.func("partitura.io.exportmidi:save_score_midi", rule)
    on = off = None
    for n in own_nodes(f.node):
        if isinstance(n, ast.Call) and norm(n.func).endswith("Message") and n.args and isinstance(n.args[0], ast.Constant):
            if n.args[0].value == "note_on":
                on = n
            elif n.args[0].value == "note_off":
                off = n
    ctx.check(on is not None and off is not None and pos(on) < pos(off), rule, "note_on filed before note_off", func=f,
              construct="on-off-order", msg="the note_on event must be appended before the note_off event of the same note")
    writer = [n for n in own_nodes(f.node) if isinstance(n, ast.For) and norm(n.iter).startswith("sorted(") and "keys()" in norm(n.iter)]
    ctx.require(writer, rule, f.qname, "track-writing loop not found")
    lp = writer[-1]
    inner = [n for n in ast.walk(lp) if isinstance(n, ast.For) and n is not lp]
    ok = False
    detail = ""
    for i in inner:
        src = i.iter
        defs = [a.value for a in ast.walk(lp) if isinstance(a, ast.Assign) and len(a.targets) == 1 and norm(a.targets[0]) == norm(src)]
        v = defs[0] if len(defs) == 1 else src
        detail = norm(v)
        if isinstance(v, ast.Subscript) and isinstance(v.slice, ast.Name):
            ok = True
    ctx.check(ok, rule, "events of a tick written in stored order", func=f, node=lp, construct="tick-events-reordered",
              msg=f"the events of one tick are taken from `{detail}` instead of the stored list itself: re-ordering them (e.g. note_off first) "
                  f"turns a zero-length note (grace note) into off, on — the reader drops the orphan note_off and never closes the note_on")


# --------------------------------------------------------------- C07: format branches

def rule_fraction_str(ctx):
    rule = "FMT-drop"
    ctx.rule(rule, "FractionalSymbolicDuration._str: a branch that omits a field from the text is taken only when that field has the "
                   "value the parser assumes for an absent field (denominator 1, tuple_div None)")
    f = ctx.prog.func("partitura.io.matchfile_utils:FractionalSymbolicDuration._str", rule)
    ctx.touch(f)
    params = [p for p in f.all_params if p not in ("self",)]
    fields = [p for p in params if p in ("numerator", "denominator", "tuple_div")]
    ctx.require(len(fields) == 3, rule, f.qname, "parameters numerator/denominator/tuple_div expected")
    absent_value = {"denominator": ("denominator == 1", "1 == denominator"), "tuple_div": ("tuple_div is None", "tuple_div == None")}
    rets = [n for n in own_nodes(f.node) if isinstance(n, ast.Return) and n.value is not None]
    ctx.require(len(rets) >= 3, rule, f.qname, "three format branches expected")
    for r in rets:
        used = {x.id for x in ast.walk(r.value) if isinstance(x, ast.Name) and x.id in fields}
        conds = _path_conditions(r, f.node)
        for fld in fields:
            if fld in used or fld == "numerator":
                continue
            ok = any(c in conds for c in absent_value[fld])
            ctx.check(ok, rule, f"`{norm(r.value)[:40]}` omits {fld} only when it is absent-valued", func=f, node=r,
                      construct=f"field-dropped:{fld}",
                      msg=f"the branch returning `{norm(r.value)[:50]}` leaves `{fld}` out of the text without a guard `{absent_value[fld][0]}` "
                          f"(path conditions: {sorted(conds) or 'none'}): e.g. 2/1/3 is written as `2` and parses back as 2/1 — the value does "
                          f"not survive a string round trip")


def _path_conditions(node, root) -> set:
    """Atomic conditions (normalised text, 'not (..)' for negations) that hold whenever `node` executes:
    enclosing if/else branches plus the negation of earlier sibling `if c: return/raise` guards."""
    conds = set()

    def add(test, positive):
        if positive:
            if isinstance(test, ast.BoolOp) and isinstance(test.op, ast.And):
                for v in test.values:
                    add(v, True)
            else:
                conds.add(norm(test))
        else:
            if isinstance(test, ast.BoolOp) and isinstance(test.op, ast.Or):
                for v in test.values:
                    add(v, False)
            elif isinstance(test, ast.UnaryOp) and isinstance(test.op, ast.Not):
                add(test.operand, True)
            elif isinstance(test, ast.Compare) and len(test.ops) == 1 and isinstance(test.ops[0], ast.IsNot):
                conds.add(f"{norm(test.left)} is {norm(test.comparators[0])}")
            elif isinstance(test, ast.Compare) and len(test.ops) == 1 and isinstance(test.ops[0], ast.Is):
                conds.add(f"{norm(test.left)} is not {norm(test.comparators[0])}")
            else:
                conds.add(f"not ({norm(test)})")
    child = node
    p = getattr(node, "_parent", None)
    while p is not None:
        if isinstance(p, ast.If):
            add(p.test, any(child is s for s in p.body))
        # earlier siblings that leave the function
        for fld in ("body", "orelse"):
            blk = getattr(p, fld, None)
            if isinstance(blk, list) and any(child is s for s in blk):
                for s in blk:
                    if s is child:
                        break
                    if isinstance(s, ast.If) and not s.orelse and s.body and isinstance(s.body[-1], (ast.Return, ast.Raise, ast.Continue, ast.Break)):
                        add(s.test, False)
        if p is root:
            break
        child = p
        p = getattr(p, "_parent", None)
    return conds


# --------------------------------------------------------------- C08: sibling dedupe

def rule_signature_dedupe_siblings(ctx):
    rule = "SIB-dedupe"
    ctx.rule(rule, "MatchFile.time_signatures and MatchFile.key_signatures drop only *consecutive* repetitions: the keep-test compares "
                   "the candidate's value with the last kept entry, identically in both twins")
    shapes = {}
    for name in ("time_signatures", "key_signatures"):
        f = ctx.prog.func(f"partitura.io.matchfile_base:MatchFile.{name}", rule)
        ctx.touch(f)
        app = [n for n in own_nodes(f.node) if isinstance(n, ast.If) and any(isinstance(c, ast.Call) and norm(c.func).endswith(".append") for s in n.body for c in ast.walk(s))
               and any(isinstance(p, ast.For) for p in _anc(n, f.node))]
        ctx.require(len(app) == 1, rule, f.qname, "keep-test not found")
        t = app[0].test
        kept = next(norm(c.func.value) for s in app[0].body for c in ast.walk(s) if isinstance(c, ast.Call) and norm(c.func).endswith(".append"))
        loopvar = norm(next(p for p in _anc(app[0], f.node) if isinstance(p, ast.For)).target)
        ok = isinstance(t, ast.Compare) and len(t.ops) == 1 and isinstance(t.ops[0], ast.NotEq) and \
            {norm(t.left), norm(t.comparators[0])} == {f"{loopvar}[2]", f"{kept}[-1][2]"}
        shapes[name] = ok
        ctx.check(ok, rule, f"{name}: keep iff value != last kept value", func=f, node=app[0], construct=f"dedupe-shape:{name}",
                  msg=f"{name} keeps an entry under `{norm(t)}`; only consecutive repetitions may be dropped (compare with `{kept}[-1][2]`): a "
                      f"signature that returns after a different one (A-B-A) must be kept")


def _anc(node, stop):
    out = []
    p = getattr(node, "_parent", None)
    while p is not None and p is not stop:
        out.append(p)
        p = getattr(p, "_parent", None)
    return out


# --------------------------------------------------------------- C11: divisions at span start

def rule_divs_at_span_start(ctx):
    rule = "DIVS-at-start"
    ctx.rule(rule, "tie_notes: every estimate_symbolic_duration(<A.t - B.t>, D) uses for D the divisions in force at the start of the "
                   "span, i.e. D is `<B>.quarter` for the very point B whose time is subtracted (local aliases resolved)")
    f = ctx.prog.func("partitura.score:tie_notes", rule)
    defs = local_defs(f)
    n = 0
    for c in own_nodes(f.node):
        if isinstance(c, ast.Call) and norm(c.func) == "estimate_symbolic_duration" and len(c.args) >= 2:
            dur = resolve_alias(c.args[0], defs)
            div = resolve_alias(c.args[1], defs)
            if not (isinstance(dur, ast.BinOp) and isinstance(dur.op, ast.Sub)):
                continue
            start = resolve_alias(dur.right, defs)
            if not (isinstance(start, ast.Attribute) and start.attr == "t" and isinstance(div, ast.Attribute) and div.attr == "quarter"):
                continue
            n += 1
            ctx.check(norm(start.value) == norm(div.value), rule, f"{norm(c)[:60]}", func=f, node=c, construct=f"divisions-of-other-point:{norm(start.value)}",
                      msg=f"`{norm(c)[:90]}`: the span starts at `{norm(start.value)}` but the divisions are taken from `{norm(div.value)}`: when "
                          f"the divisions change at that barline the symbolic duration no longer evaluates to the note's numeric duration")
    ctx.floor(rule, "estimate_symbolic_duration(span, divisions) calls in tie_notes", n, 2)


# --------------------------------------------------------------- C13: clamp after subtraction

def rule_min_one_frame(ctx):
    rule = "CLAMP"
    ctx.rule(rule, "_make_pianoroll: the offset column used to fill cells is lower-bounded by onset + 1 *after* the note-separation "
                   "frame is subtracted (never less than one frame)")
    f = ctx.prog.func("partitura.utils.music:_make_pianoroll", rule)
    # by role: onset frames = round(time_div * onset).astype(int); offset frames = <onset frames> + <duration frames>
    defs = local_defs(f)
    offs = [k for k, vs in defs.items() for v in vs if isinstance(v, ast.BinOp) and isinstance(v.op, ast.Add) and isinstance(v.left, ast.Name)
            and ((isinstance(v.right, ast.Name) and any("clip" in norm(d) for d in defs.get(v.right.id, [])))
                 or (isinstance(v.right, ast.Call) and "clip" in norm(v.right.func)))]
    ctx.require(len(offs) == 1, rule, f.qname, "offset-frame variable not found")
    off = offs[0]
    on = next(v.left.id for v in defs[off] if isinstance(v, ast.BinOp) and isinstance(v.op, ast.Add))
    stmts = [s_ for s_ in own_statements(f.node.body) if isinstance(s_, ast.Assign) and len(s_.targets) == 1 and norm(s_.targets[0]) == off]
    last = stmts[-1]
    v = last.value

    def clamps(e):
        return isinstance(e, ast.Call) and ((norm(e.func) in ("np.maximum", "numpy.maximum") and any(norm(a) in (f"{on} + 1", f"1 + {on}") for a in e.args))
                                            or (norm(e.func) in ("np.clip", "numpy.clip") and any(k.arg == "a_min" for k in e.keywords)))
    subtracts = any(isinstance(b, ast.BinOp) and isinstance(b.op, ast.Sub) and off in norm(b.left) for s_ in stmts for b in ast.walk(s_.value))
    ok = clamps(v) or not subtracts
    ctx.check(ok, rule, "offset >= onset + 1 after the separation frame", func=f, node=last, construct="offset-unclamped-after-subtraction",
              msg=f"the last definition `{norm(last)[:80]}` subtracts the separation frame without re-imposing offset >= onset + 1: a note of one "
                  f"frame fills no cell at all with note_separation=True")


# --------------------------------------------------------------- C15: highest voice

def rule_offset_table_is_max(ctx):
    rule = "OFFSET-src"
    ctx.rule(rule, "merge_parts: the per-part table summed for the voice (staff) offset holds the *highest* voice (staff) number of "
                   "each part — max(...) over the part's distinct numbers — not their count")
    f = ctx.prog.func("partitura.score:merge_parts", rule)
    defs = local_defs(f)
    # by role: the tables T used as sum(T[:p_ind]) in the offset terms
    tabs = set()
    for c in own_nodes(f.node):
        if isinstance(c, ast.Call) and norm(c.func) == "sum" and c.args and isinstance(c.args[0], ast.Subscript) and isinstance(c.args[0].slice, ast.Slice) \
                and isinstance(c.args[0].value, ast.Name) and c.args[0].slice.lower is None:
            tabs.add(c.args[0].value.id)
    tabs = {t for t in tabs if any(isinstance(d, ast.ListComp) and not (isinstance(d.elt, ast.Call) and norm(d.elt.func) == "len" and False) for d in defs.get(t, []))}
    ctx.require(len(tabs) >= 2, rule, f.qname, f"offset tables not found: {tabs}")
    for tab in sorted(tabs):
        d = defs.get(tab, [])
        ctx.require(len(d) == 1 and isinstance(d[0], ast.ListComp), rule, f.qname, f"definition of {tab} not found")
        elt = d[0].elt
        var = norm(d[0].generators[0].target)
        src_ok = any(isinstance(x, ast.Call) and norm(x.func) in ("np.unique", "numpy.unique") for k in [norm(d[0].generators[0].iter)] for dd in defs.get(k, []) for x in ast.walk(dd))
        if not src_ok:
            continue  # not a table of distinct voice/staff numbers (e.g. the auto-mode staff counts)
        ok = isinstance(elt, ast.Call) and norm(elt.func) == "max" and elt.args and norm(elt.args[0]) == var
        ctx.check(ok, rule, f"{tab} = [max(numbers of the part) ...]", func=f, node=d[0], construct=f"offset-table-not-max:{tab}",
                  msg=f"`{tab} = {norm(d[0])[:70]}`: the offset of a later part must exceed the highest number used by the earlier parts; a count "
                      f"(len) is too small when numbers have gaps or do not start at 1, so notes of different parts share a voice")


# --------------------------------------------------------------- C19: truncated quotient scaled

def rule_truncated_quotient(ctx, modnames: Sequence[str]):
    rule = "F10-trunc"
    ctx.rule(rule, "no duration/position in divisions (an expression over ppq/divs) is computed by truncating a quotient and "
                   "multiplying the truncated value afterwards (int(ppq * a / b) * c): the truncation error is multiplied; the whole "
                   "product must be formed before int()")
    n = 0
    for m in modnames:
        for f in ctx.prog.functions_in(m):
            if "#" in f.qname:
                continue
            n += 1
            defs = local_defs(f)

            def truncated(e):
                e = resolve_alias(e, defs)
                return isinstance(e, ast.Call) and isinstance(e.func, ast.Name) and e.func.id == "int" and e.args and \
                    any(isinstance(b, ast.BinOp) and isinstance(b.op, ast.Div) for b in ast.walk(e.args[0])) and \
                    any(isinstance(x, ast.Name) and any(k in x.id.lower() for k in ("ppq", "divs", "quarter")) for x in ast.walk(e.args[0])) and \
                    not (isinstance(e.args[0], ast.Call) and norm(e.args[0].func) in ("round", "np.round"))
            for b in own_nodes(f.node):
                if isinstance(b, ast.BinOp) and isinstance(b.op, ast.Mult) and (truncated(b.left) or truncated(b.right)):
                    other = b.right if truncated(b.left) else b.left
                    if isinstance(other, ast.Constant):
                        continue
                    ctx.check(False, rule, f"{f.qname}:{norm(b)[:50]}", func=f, node=b, construct=f"truncated-quotient-scaled:{norm(b)[:40]}",
                              msg=f"`{norm(b)[:80]}` multiplies an already truncated quotient: e.g. int(ppq*4/beat_type)*beats is 0 for 6/8 at ppq 1 "
                                  f"where int(ppq*4*beats/beat_type) is 3 — the measure rest gets the wrong length")
    ctx.ok(rule, f"{n} functions scanned")


# =====================================================================================
# rules added after round 2 of the seeded changes
# =====================================================================================

def rule_tie_key(ctx):
    rule = "TIE-key"
    ctx.rule(rule, "MusicXML import pairs tie start/stop by pitch only (the exporter writes ties regardless of voice and may move a "
                   "chord member to another voice): the pairing key is ('tie', <pitch>) with no further component")
    f = ctx.prog.func("partitura.io.importmusicxml:_handle_note", rule)
    keys = [n for n in own_nodes(f.node) if isinstance(n, ast.Assign) and isinstance(n.value, ast.Tuple) and n.value.elts
            and isinstance(n.value.elts[0], ast.Constant) and n.value.elts[0].value == "tie"]
    ctx.require(len(keys) == 1, rule, f.qname, "tie pairing key not found")
    t = keys[0].value
    defs = local_defs(f)
    reads, consts = set(), set()
    todo, k = list(t.elts[1:]), 0
    while todo and k < 60:
        x = todo.pop()
        k += 1
        recv = set()  # names only used as the object an attribute is read from: the attribute is what matters
        for c in ast.walk(x):
            if isinstance(c, ast.Attribute):
                reads.add(c.attr)
                if isinstance(c.value, ast.Name):
                    recv.add(id(c.value))
            elif isinstance(c, ast.Call) and norm(c.func) == "getattr" and len(c.args) >= 2 and isinstance(c.args[1], ast.Constant):
                consts.add(c.args[1].value)
                if isinstance(c.args[0], ast.Name):
                    recv.add(id(c.args[0]))
            elif isinstance(c, ast.Constant) and isinstance(c.value, str) and isinstance(getattr(c, "_parent", None), (ast.Call, ast.Subscript)):
                consts.add(c.value)
        for c in ast.walk(x):
            if isinstance(c, ast.Name) and isinstance(c.ctx, ast.Load) and id(c) not in recv:
                reads.add(c.id)
                todo.extend(defs.get(c.id, []))
    last = {r.split(".")[-1] for r in reads}
    extra = sorted((last | consts) & {"voice", "staff"})
    by_pitch = bool((last | consts) & {"midi_pitch", "step", "octave", "pitch"})
    ok = by_pitch and not extra
    ctx.check(ok, rule, f"tie key {norm(t)[:60]}", func=f, node=keys[0], construct="tie-key-components",
              msg=f"ties are paired under `{norm(t)[:80]}`; MusicXML pairs tie start and stop by pitch, and the exporter may write the two notes in "
                  f"different voices: any extra component (voice, staff) silently drops such ties on re-import")


def rule_first_track_tempo(ctx):
    rule = "TEMPO-first"
    ctx.rule(rule, "save_performance_midi announces the tempo used for every tick computation on the *first emitted* track: the guard "
                   "of the set_tempo append tests the enumerate position, not the track number")
    f = ctx.prog.func("partitura.io.exportmidi:save_performance_midi", rule)
    st = [n for n in own_nodes(f.node) if isinstance(n, ast.Call) and norm(n.func).endswith("MetaMessage") and n.args
          and isinstance(n.args[0], ast.Constant) and n.args[0].value == "set_tempo"]
    ctx.require(len(st) == 1, rule, f.qname, "set_tempo message not found")
    guard = loop = None
    p = getattr(st[0], "_parent", None)
    while p is not None and p is not f.node:
        if isinstance(p, ast.If) and guard is None:
            guard = p
        if isinstance(p, ast.For) and loop is None:
            loop = p
        p = getattr(p, "_parent", None)
    ctx.require(loop is not None, rule, f.qname, "the set_tempo message is not written inside the loop over the tracks")
    counter = trackno = None
    if isinstance(loop.iter, ast.Call) and norm(loop.iter.func) == "enumerate" and isinstance(loop.target, ast.Tuple) and len(loop.target.elts) == 2:
        counter, trackno = norm(loop.target.elts[0]), norm(loop.target.elts[1])
    elif isinstance(loop.target, ast.Name):
        trackno = loop.target.id
    if guard is None:
        ok, why = False, "set_tempo is written on every track"
    else:
        names = {x.id for x in ast.walk(guard.test) if isinstance(x, ast.Name)}
        if counter is not None and counter in names and trackno not in names:
            ok, why = True, ""
        elif trackno in names and (counter is None or counter not in names):
            ok, why = False, f"the guard `{norm(guard.test)}` tests the track number"
        else:
            raise AnalysisError(rule, f.qname, f"guard `{norm(guard.test)}` of the set_tempo message not understood")
    ctx.check(ok, rule, "set_tempo on the first emitted track", func=f, node=st[0], construct="tempo-guard-not-positional",
              msg=f"{why}: when no track is numbered 0 no set_tempo is written, the reader assumes 120 bpm and every time comes back scaled by "
                  f"500000/mpq")


def rule_from_instance_rounding(ctx):
    rule = "F10-conv"
    ctx.rule(rule, "pre-1.0 -> 1.0.0 conversion: an attribute that some pre-1.0 version declares as float (tick times with two decimals) "
                   "is rounded before int() in every from_instance")
    fo = world(ctx).folder
    floats = set()
    from ..core.constfold import SymRef
    v0 = "partitura.io.matchlines_v0"
    for name in ctx.prog.module(v0).defs:
        v = fo.try_const(v0, name)
        stack = [v]
        while stack:
            d = stack.pop()
            if isinstance(d, dict):
                for k, x in d.items():
                    if isinstance(x, tuple) and len(x) == 3 and isinstance(x[2], SymRef) and x[2].qname == "float" and isinstance(k, str):
                        floats.add(k)
                    elif isinstance(x, dict):
                        stack.append(x)
    ctx.require(floats, rule, v0, "no float-typed fields found in the v0 tables")
    ctx.extra["v0_float_fields"] = sorted(floats)
    n = 0
    for f in ctx.prog.functions_in("partitura.io.matchlines_v1"):
        if f.name != "from_instance":
            continue
        ctx.touch(f)
        inst = f.params[1] if len(f.params) > 1 else "instance"
        for c in own_nodes(f.node):
            if isinstance(c, ast.Call) and isinstance(c.func, ast.Name) and c.func.id == "int" and len(c.args) == 1:
                a = c.args[0]
                inner = a.args[0] if isinstance(a, ast.Call) and norm(a.func) in ("np.round", "round", "np.rint", "numpy.round", "np.around") and a.args else a
                if isinstance(a, ast.BinOp) and isinstance(a.op, ast.Add) and any(isinstance(x, ast.Constant) and x.value == 0.5 for x in (a.left, a.right)):
                    inner = a.left if isinstance(a.right, ast.Constant) else a.right
                attrs = {x.attr for x in ast.walk(inner) if isinstance(x, ast.Attribute) and isinstance(x.value, ast.Name)}
                hit = attrs & floats
                if not hit:
                    continue
                n += 1
                ctx.check(inner is not a, rule, f"{f.qname}: {norm(c)[:50]}", func=f, node=c, construct=f"truncated-conversion:{sorted(hit)[0]}",
                          msg=f"`{norm(c)}` truncates `{sorted(hit)[0]}`, which pre-1.0 versions store as a float tick value (e.g. 39060.75): the "
                              f"converted line is more than half a tick off — conversion must keep the times (round to the nearest tick)")
    ctx.floor(rule, "int() conversions of float-typed fields in from_instance", n, 2)


def rule_tick_provenance(ctx):
    rule = "TICK-src"
    ctx.rule(rule, "every tick written into a pedal or performed-note line by matchfile_from_alignment is computed by "
                   "seconds_to_midi_ticks(<seconds>, mpq, ppq) with the header's clock (directly, through single-definition locals or a "
                   "local wrapper); no tick value stored in the input (a `*tick*` key or attribute) flows into it")
    f = ctx.prog.func("partitura.io.exportmatch:matchfile_from_alignment", rule)
    defs = local_defs(f)
    wrappers = set()  # local lambdas / defs that return the converter with the header clock
    for n in ast.walk(f.node):
        body = None
        if isinstance(n, ast.Assign) and isinstance(n.value, ast.Lambda) and isinstance(n.targets[0], ast.Name):
            name, body = n.targets[0].id, n.value.body
        elif isinstance(n, ast.FunctionDef) and n is not f.node and len(n.body) == 1 and isinstance(n.body[0], ast.Return):
            name, body = n.name, n.body[0].value
        if body is not None and _is_converter_call(body, f, set()):
            wrappers.add(name)
    n = 0
    for c in own_nodes(f.node):
        if not (isinstance(c, ast.Call) and norm(c.func) in ("MatchSustainPedal", "MatchSoftPedal", "MatchNote")):
            continue
        for k in c.keywords:
            if k.arg not in ("time", "onset", "offset"):
                continue
            n += 1
            v = resolve_alias(k.value, defs)
            # strip int()/max()/round() wrappers
            core = v
            while isinstance(core, ast.Call) and norm(core.func) in ("int", "round", "np.round", "max") and core.args and not _is_converter_call(core, f, wrappers):
                core = resolve_alias(core.args[0], defs)
            stored = sorted({x.value for x in ast.walk(v) if isinstance(x, ast.Constant) and isinstance(x.value, str) and "tick" in x.value.lower()} |
                            {x.attr for x in ast.walk(v) if isinstance(x, ast.Attribute) and "tick" in x.attr.lower()})
            if stored:
                ok, why = False, f"reads the stored tick value {stored}"
            elif _is_converter_call(core, f, wrappers):
                ok, why = True, ""
            else:
                raise AnalysisError(rule, f.qname, f"`{k.arg}={norm(k.value)}` of {norm(c.func)}: origin `{norm(v)[:80]}` not understood")
            ctx.check(ok, rule, f"{norm(c.func)}({k.arg}=...)", func=f, node=c, construct=f"tick-not-from-converter:{norm(c.func)}.{k.arg}",
                      msg=f"`{k.arg}={norm(k.value)}` resolves to `{norm(v)[:80]}`, which {why}: ticks taken from "
                          f"elsewhere (e.g. the source file's own tick count) are in another clock than the one written into the header")
    ctx.floor(rule, "tick arguments of line constructors", n, 4)


def _is_converter_call(e, f, wrappers) -> bool:
    if not isinstance(e, ast.Call):
        return False
    if isinstance(e.func, ast.Name) and e.func.id in wrappers:
        return True
    if norm(e.func).split(".")[-1] != "seconds_to_midi_ticks":
        return False
    kw = {k.arg: norm(k.value) for k in e.keywords}
    pos = [norm(a) for a in e.args[1:]]
    clock = set(kw.get(x) for x in ("mpq", "ppq") if x in kw) | set(pos)
    return len(clock) == 2 and all(c in f.all_params for c in clock)


def rule_map_scope(ctx):
    rule = "MAP-scope"
    ctx.rule(rule, "create_variant_part starts a new object map for every visited segment: the map's initialisation is inside the loop "
                   "over the segments (references leaving a segment must become None, not resolve to an earlier visit's copy)")
    f = ctx.prog.func("partitura.score:ScoreVariant.create_variant_part", rule)
    seg_loops = [n for n in own_nodes(f.node) if isinstance(n, ast.For) and norm(n.iter).endswith(".segments")]
    ctx.require(len(seg_loops) == 1, rule, f.qname, "loop over the segments not found")
    lp = seg_loops[0]
    maps = set()
    for n in ast.walk(lp):
        if isinstance(n, ast.Assign) and isinstance(n.targets[0], ast.Subscript) and isinstance(n.targets[0].value, ast.Name) \
                and isinstance(n.value, ast.Name) and any(isinstance(a, ast.Assign) and norm(a.targets[0]) == n.value.id and isinstance(a.value, ast.Call)
                                                          and norm(a.value.func) == "copy" for a in ast.walk(lp)):
            maps.add(n.targets[0].value.id)
    ctx.require(len(maps) == 1, rule, f.qname, "object map not identified")
    m = next(iter(maps))
    inits = [a for a in own_nodes(f.node) if isinstance(a, ast.Assign) and norm(a.targets[0]) == m and isinstance(a.value, (ast.Dict, ast.Call))]
    inside = [a for a in inits if any(a is x for x in ast.walk(lp))]
    cleared = any(isinstance(c, ast.Call) and norm(c.func) == f"{m}.clear" for b in lp.body for c in ast.walk(b))
    ctx.check(len(inits) >= 1 and (len(inside) >= 1 or cleared), rule, f"`{m}` initialised per segment", func=f, node=inits[0] if inits else None,
              construct="object-map-hoisted",
              msg=f"the object map `{m}` is created outside the loop over the segments: a tie/slur that leaves a segment then resolves to the copy made "
                  f"during an *earlier* visit instead of None, linking notes of different visits")


def rule_number_none_test(ctx):
    rule = "NONE-test"
    ctx.rule(rule, "measure_number_map: the fallback for unnumbered measures tests the number against None, not its truthiness "
                   "(a pickup measure numbered 0 is a numbered measure)")
    f = ctx.prog.func("partitura.score:Part.measure_number_map", rule)
    comps = [n for n in own_nodes(f.node) if isinstance(n, ast.ListComp) and isinstance(n.elt, (ast.List, ast.Tuple)) and len(n.elt.elts) == 3]
    ctx.require(len(comps) == 1, rule, f.qname, "measure table comprehension not found")
    e = comps[0].elt.elts[2]
    uses_number = any(isinstance(x, ast.Attribute) and x.attr == "number" for x in ast.walk(e))
    none_cmp = any(isinstance(c, ast.Compare) and any(isinstance(k, ast.Constant) and k.value is None for k in c.comparators) for c in ast.walk(e))
    truthy = any(isinstance(b, ast.BoolOp) and isinstance(b.op, ast.Or) for b in ast.walk(e)) or \
        (isinstance(e, ast.IfExp) and isinstance(e.test, ast.Attribute))
    ctx.check(uses_number and (none_cmp or not isinstance(e, (ast.IfExp, ast.BoolOp))) and not truthy, rule, f"number column `{norm(e)[:50]}`", func=f, node=e,
              construct="number-fallback-on-truthiness",
              msg=f"`{norm(e)[:80]}` replaces a measure number by the previous one whenever it is falsy: measure 0 (kern pickup, 'bar 0' convention) is a "
                  f"valid number and must be reported as such")


def rule_yield_unconditional(ctx):
    rule = "FLAT-all"
    ctx.rule(rule, "iter_parts yields every Part it meets: the yield under isinstance(el, Part) has no further condition, and the "
                   "recursive results are yielded unconditionally")
    f = ctx.prog.func("partitura.score:iter_parts", rule)
    ys = [n for n in own_nodes(f.node) if isinstance(n, (ast.Yield, ast.YieldFrom))]
    ctx.require(len(ys) >= 2, rule, f.qname, "yields not found")
    for y in ys:
        conds = _path_conditions(y, f.node)
        extra = {c for c in conds if not c.startswith("isinstance(") and not c.startswith("not (isinstance(")}
        ctx.check(not extra, rule, f"`{norm(y)[:30]}` unconditional", func=f, node=y, construct="conditional-yield",
                  msg=f"`{norm(y)}` is only executed under {sorted(extra)}: some parts of the input are silently dropped before merging / scoring "
                      f"(e.g. parts of separately loaded files that share an id)")


def rule_identity_shortcut(ctx):
    rule = "P1-only"
    ctx.rule(rule, "_transpose_note_inplace skips only the perfect unison: the no-op guard is keyed on the interval class (quality and "
                   "number), not on the number of semitones (INTERVAL_TO_SEMITONES is not injective: d2 also has 0 semitones)")
    fo = world(ctx).folder
    i2s = fo.const("partitura.utils.globals", "INTERVAL_TO_SEMITONES")
    zero = sorted(k for k, v in i2s.items() if v == 0)
    f = ctx.prog.func("partitura.utils.music:_transpose_note_inplace", rule)
    skips = [n for n in own_nodes(f.node) if isinstance(n, ast.If) and n.body and all(isinstance(s, (ast.Pass, ast.Return)) for s in n.body)]
    ctx.require(len(skips) == 1, rule, f.qname, "no-op guard not found")
    t = skips[0].test
    attrs = {x.attr for x in ast.walk(t) if isinstance(x, ast.Attribute)}
    ok = "semitones" not in attrs and not any(isinstance(c, ast.Call) and "semitone" in norm(c.func).lower() for c in ast.walk(t))
    ctx.check(ok or len(zero) == 1, rule, f"no-op guard `{norm(t)[:50]}`", func=f, node=skips[0], construct="identity-by-semitones",
              msg=f"the no-op guard `{norm(t)}` is not keyed on the interval class P1; intervals with 0 semitones are {zero}: a diminished second must still "
                  f"move the note one staff step")


def rule_groupby_sorted(ctx, modnames):
    rule = "GROUPBY"
    ctx.rule(rule, "itertools.groupby only merges *consecutive* equal keys: every use is on data sorted by the same key (sorted(..., key=k) "
                   "or a preceding .sort(key=k)); grouping of notes by (onset, duration) must be global")
    n = 0
    for m in modnames:
        for f in ctx.prog.functions_in(m):
            for c in own_nodes(f.node):
                if isinstance(c, ast.Call) and norm(c.func) in ("groupby", "itertools.groupby") and c.args:
                    n += 1
                    key = next((k.value for k in c.keywords if k.arg == "key"), c.args[1] if len(c.args) > 1 else None)
                    src = c.args[0]
                    defs = local_defs(f)
                    src0 = src
                    src = resolve_alias(src, defs)

                    def same_key(call):
                        return (key is None and not any(k.arg == "key" for k in call.keywords)) or \
                            any(k.arg == "key" and key is not None and norm(k.value) == norm(key) for k in call.keywords)
                    ok = isinstance(src, ast.Call) and norm(src.func) == "sorted" and same_key(src)
                    if not ok and isinstance(src0, ast.Name):
                        ok = any(isinstance(x, ast.Call) and norm(x.func) == f"{src0.id}.sort" and same_key(x) and pos(x) < pos(c) for x in own_nodes(f.node))
                    ctx.check(ok, rule, f"{f.qname}: {norm(c)[:50]}", func=f, node=c, construct=f"groupby-unsorted:{f.name}",
                              msg=f"`{norm(c)[:80]}` groups consecutive rows only; its input is not sorted by the same key, so equal keys on non-adjacent "
                                  f"rows end up in different groups (chord notes with identical onset and duration get different voices)")
    ctx.ok(rule, f"{n} groupby call(s) in {len(modnames)} module(s)")


def rule_comask(ctx):
    rule = "F9a-mask"
    ctx.rule(rule, "get_time_maps_from_alignment: the arrays sliced from the matched-index table are parallel; if one of them is "
                   "filtered/re-indexed in place, every other one that is used afterwards is filtered by the same index")
    f = ctx.prog.func("partitura.musicanalysis.performance_codec:get_time_maps_from_alignment", rule)
    stmts = [s for s in own_statements(f.node.body)]
    group = {}
    for s in stmts:
        if isinstance(s, ast.Assign) and isinstance(s.targets[0], ast.Name) and isinstance(s.value, ast.Subscript) and isinstance(s.value.value, ast.Subscript) \
                and "[:, " in norm(s.value.value.slice) and s.targets[0].id not in group:
            group[s.targets[0].id] = pos(s)
    ctx.require(len(group) >= 3, rule, f.qname, f"parallel arrays not found: {sorted(group)}")
    refilters = {}
    for s in stmts:
        if isinstance(s, ast.Assign) and isinstance(s.targets[0], ast.Name) and s.targets[0].id in group and pos(s) > group[s.targets[0].id] \
                and isinstance(s.value, ast.Subscript) and norm(s.value.value) == s.targets[0].id:
            refilters.setdefault(s.targets[0].id, []).append((max(pos(x) for x in ast.walk(s)), norm(s.value.slice), s))
    if not refilters:
        ctx.ok(rule, f"{sorted(group)}: none is filtered in place")
        return
    for name, lst in refilters.items():
        line, idx, node = lst[0]
        for other in group:
            if other == name:
                continue
            used_later = any(isinstance(x, ast.Name) and x.id == other and isinstance(x.ctx, ast.Load) and pos(x) > line for x in ast.walk(f.node))
            same = any(i2 == idx for (_, i2, _) in refilters.get(other, []))
            # the mask itself may be computed from `other`
            in_mask = other in idx
            ctx.check(not used_later or same or (in_mask and not any(isinstance(x, ast.Subscript) and norm(x.value) == other and pos(x) > line for x in ast.walk(f.node))),
                      rule, f"{other} co-filtered with {name}", func=f, node=node, construct=f"parallel-array-out-of-step:{other}",
                      msg=f"`{norm(node)}` filters `{name}` but `{other}` (sliced from the same matched-index table) is used afterwards unfiltered: indices "
                          f"computed on `{name}` then pick the wrong elements of `{other}` — each score onset is paired with the wrong performed notes")


def rule_per_iteration_staff(ctx):
    rule = "ITER-local"
    ctx.rule(rule, "MEI chords: the staff given to each note is computed per note (assigned on every path of the loop body); a name that "
                   "lives outside the loop and is only conditionally overwritten inside would carry one note's @staff over to the next")
    f = ctx.prog.func("partitura.io.importmei:MeiParser._handle_chord", rule)
    loops = [n for n in own_nodes(f.node) if isinstance(n, ast.For)]
    n = 0
    for lp in loops:
        for c in ast.walk(lp):
            if isinstance(c, ast.Call) and norm(c.func) in ("score.Note", "score.GraceNote"):
                kw = next((k.value for k in c.keywords if k.arg == "staff"), None)
                if not isinstance(kw, ast.Name):
                    continue
                n += 1
                name = kw.id
                body_assigns = [a for a in ast.walk(lp) if isinstance(a, ast.Assign) and any(norm(t) == name for t in a.targets)]
                # definitely assigned in the iteration: an unconditional assignment, or both branches of one if/else
                definite = False
                for a in body_assigns:
                    p = getattr(a, "_parent", None)
                    if p is lp:
                        definite = True
                    elif isinstance(p, ast.If) and getattr(p, "_parent", None) is lp and p.orelse:
                        in_body = any(isinstance(x, ast.Assign) and any(norm(t) == name for t in x.targets) for x in p.body)
                        in_else = any(isinstance(x, ast.Assign) and any(norm(t) == name for t in x.targets) for x in p.orelse)
                        definite = definite or (in_body and in_else)
                outer = name in f.all_params or any(isinstance(a, ast.Assign) and any(norm(t) == name for t in a.targets) and not any(a is x for x in ast.walk(lp))
                                                    for a in own_nodes(f.node))
                ctx.check(definite or not (outer and body_assigns), rule, f"staff={name} per note", func=f, node=c, construct="loop-carried-staff",
                          msg=f"`staff={name}`: `{name}` comes from outside the loop and is overwritten only when a note has its own @staff, so that value "
                              f"leaks to every later note of the chord (they load on the wrong staff)")
    ctx.floor(rule, "note constructors in the chord loop", n, 1)


def _block_paths(block, classify, prefix=None):
    """All structured paths through a statement block without inner loops: lists of events, each path tagged with
    how it ends ('fall', 'continue', 'break', 'return'). `classify(stmt)` returns the events of a simple statement."""
    paths = [(list(prefix or []), "fall")]
    for s in block:
        nxt = []
        for ev, end in paths:
            if end != "fall":
                nxt.append((ev, end))
                continue
            if isinstance(s, ast.If):
                for sub in (s.body, s.orelse):
                    nxt.extend(_block_paths(sub, classify, ev + classify(s.test)))
            elif isinstance(s, ast.Continue):
                nxt.append((ev, "continue"))
            elif isinstance(s, ast.Break):
                nxt.append((ev, "break"))
            elif isinstance(s, (ast.Return, ast.Raise)):
                nxt.append((ev, "return"))
            elif isinstance(s, (ast.For, ast.While, ast.Try, ast.With)):
                nxt.append((ev + [("opaque", s)], end))
            else:
                nxt.append((ev + classify(s), end))
        paths = nxt
    return paths


def rule_counter_consecutive(ctx):
    rule = "COUNTER"
    ctx.rule(rule, "add_measures numbers consecutively: along every path through one round of the measure loop the numbers handed out "
                   "are counter, counter+1, ... without gap or repeat, and the counter ends the round at the next free number "
                   "(offset analysis of the one counter variable over all structured paths)")
    f = ctx.prog.func("partitura.score:add_measures", rule)
    ctor = [c for c in own_nodes(f.node) if isinstance(c, ast.Call) and norm(c.func) == "Measure" and any(k.arg == "number" for k in c.keywords)]
    ctx.require(len(ctor) >= 1, rule, f.qname, "Measure(number=...) not found")
    numexprs = [next(k.value for k in c.keywords if k.arg == "number") for c in ctor]
    ctx.require(all(isinstance(e, ast.Name) for e in numexprs) and len({e.id for e in numexprs}) == 1, rule, f.qname, "measure number is not one plain counter variable")
    cnt = numexprs[0].id
    loop = None
    p = getattr(ctor[0], "_parent", None)
    while p is not None and p is not f.node:
        if isinstance(p, (ast.While, ast.For)) and loop is None:
            loop = p
        p = getattr(p, "_parent", None)
    ctx.require(loop is not None, rule, f.qname, "measure loop not found")

    def offset(e):
        if isinstance(e, ast.Name) and e.id == cnt:
            return 0
        if isinstance(e, ast.BinOp) and isinstance(e.op, ast.Add):
            for a, b in ((e.left, e.right), (e.right, e.left)):
                if isinstance(a, ast.Name) and a.id == cnt and isinstance(b, ast.Constant) and isinstance(b.value, int):
                    return b.value
        return None

    def classify(s):
        ev = []
        if isinstance(s, ast.AugAssign) and norm(s.target) == cnt:
            if isinstance(s.op, ast.Add) and isinstance(s.value, ast.Constant) and isinstance(s.value.value, int):
                return [("inc", s.value.value, s)]
            return [("opaque", s)]
        if isinstance(s, ast.Assign) and any(norm(t) == cnt for t in s.targets):
            o = offset(s.value)
            return [("inc", o, s)] if o is not None else [("opaque", s)]
        for n in ast.walk(s):
            if isinstance(n, ast.Call):
                for k in n.keywords:
                    if k.arg == "number":
                        ev.append(("use", offset(k.value), n))
        if isinstance(s, ast.Assign) and any(isinstance(t, ast.Attribute) and t.attr == "number" for t in s.targets):
            ev.append(("use", offset(s.value), s))
        return ev
    paths = _block_paths(loop.body, classify)
    ctx.require(len(paths) >= 3, rule, f.qname, f"only {len(paths)} path(s) through the measure loop")
    n = 0
    for ev, end in paths:
        if end not in ("fall", "continue"):
            continue
        n += 1
        cur, nxt_free, bad = 0, 0, None
        for e in ev:
            if e[0] == "opaque":
                if any(isinstance(x, ast.Name) and x.id == cnt and isinstance(x.ctx, ast.Store) for x in ast.walk(e[1])):
                    raise AnalysisError(rule, f.qname, f"`{norm(e[1])[:50]}` changes the counter in a way the offset analysis cannot follow")
            elif e[0] == "inc":
                cur += e[1]
            elif e[0] == "use":
                if e[1] is None:
                    bad = f"a measure number is not `{cnt}` + constant"
                elif cur + e[1] != nxt_free:
                    bad = f"the {nxt_free + 1}. number handed out in the round is {cnt}+{cur + e[1]} (expected {cnt}+{nxt_free})"
                else:
                    nxt_free += 1
            if bad:
                break
        if not bad and cur != nxt_free:
            bad = f"{nxt_free} number(s) handed out but the counter advances by {cur}"
        desc = "/".join(("use+%d" % (e[1],) if e[0] == "use" and e[1] is not None else e[0] + (str(e[1]) if e[0] == "inc" else "")) for e in ev if e[0] in ("use", "inc"))
        ctx.check(not bad, rule, f"path {n} ({desc or 'no numbering'}; ends with {end})", func=f, node=loop, construct=f"numbering-gap:{nxt_free}-numbers-counter+{cur}",
                  msg=f"along the path [{desc}] through the measure loop {bad}: measure numbers are no longer consecutive")


def rule_every_round_passes(ctx, qname, loop_role, must_role, label, why):
    """must-pass-through inside a loop: every path from the loop head back to the loop head goes through `must`."""
    rule = "ROUND-all"
    ctx.rule(rule, "must-pass-through per loop round: every path from the loop head round to the loop head passes the named step "
                   "(no early `continue` before it)")
    f = ctx.prog.func(qname, rule)
    loop = loop_role(f)
    must = must_role(f, loop)
    ctx.require(loop is not None and must is not None, rule, qname, f"{label}: loop / step not found")
    cfg = world(ctx).inf.cfg(f)
    head = cfg.node_of(loop)
    mnode = cfg.node_of(must)
    ctx.require(head is not None and mnode is not None, rule, qname, f"{label}: CFG nodes not found")
    # only body successors of the head
    class _S:  # a start whose successors are the loop-body edge(s) only
        pass
    st = _S()
    st.succ = [(m, l) for m, l in head.succ if l == "T"]
    ctx.require(st.succ, rule, qname, f"{label}: loop body edge not found")
    bad = cfg.paths_avoiding(st, {mnode}, {head})
    ctx.check(not bad, rule, label, func=f, node=loop, construct=f"round-skips:{label}", msg=why)


# =====================================================================================
# rules added after round 3 of the seeded changes
# =====================================================================================

def rule_validators_accept_valid(ctx):
    rule = "VALID-dom"
    ctx.rule(rule, "PerformedNote validators never reject a valid value: on every order type of (0, value, the stored counterpart) with "
                   "0 <= value and counterpart <= value the raising test is false (comparison-only predicates, finite check)")
    ci = ctx.prog.cls("partitura.performance:PerformedNote", rule)
    n = 0
    for name, ms in sorted(ci.all_methods.items()):
        if not name.startswith("_validate_"):
            continue
        f = ms[-1]
        ctx.touch(f)
        if len(f.params) < 2:
            continue
        val = f.params[1]
        for t in own_nodes(f.node):
            if not (isinstance(t, ast.If) and any(isinstance(x, ast.Raise) for x in t.body)):
                continue
            atoms = set()
            for c in ast.walk(t.test):
                if isinstance(c, ast.Compare):
                    for it in [c.left] + list(c.comparators):
                        atoms.add(norm(it))
            if val not in atoms or not all(isinstance(c, (ast.Compare, ast.BoolOp, ast.UnaryOp, ast.boolop, ast.unaryop, ast.cmpop, ast.expr_context, ast.Name, ast.Constant,
                                                           ast.Subscript, ast.Attribute, ast.Call)) for c in ast.walk(t.test)):
                continue
            if any(isinstance(c, ast.Constant) and isinstance(c.value, (int, float)) and c.value != 0 for c in ast.walk(t.test)):
                continue  # upper bounds (velocity, pitch): another specification
            others = sorted(a for a in atoms if a not in (val, "0"))
            names = ["0", val] + others
            n += 1
            bad = None
            for env in weak_orderings(names):
                if not (env["0"] <= env[val] and all(env["0"] <= env[o] <= env[val] for o in others)):
                    continue
                r = eval_cmp(t.test, env)
                if r:
                    bad = env
                    break
            ctx.check(bad is None, rule, f"{f.qname}: `{norm(t.test)[:50]}`", func=f, node=t, construct=f"rejects-valid:{name}",
                      msg=f"`{norm(t.test)}` raises for the valid case {bad}: (ranks; equal rank = equal value) — e.g. a zero-length note at time 0 has "
                          f"note_on == note_off == 0, which the property requires to be accepted")
    ctx.floor(rule, "raising tests of PerformedNote validators", n, 6)


def rule_jump_recorded_after_reset(ctx):
    rule = "RESET-rec"
    ctx.rule(rule, "Path.make_copy_with_jump_to: whenever the used-jump lists are reset (first leap), the jump just taken is recorded "
                   "again afterwards on every path to the return (must-follow on the CFG) — otherwise the same da capo / dal segno is "
                   "taken a second time")
    f = ctx.prog.func("partitura.score:Path.make_copy_with_jump_to", rule)
    cfg = world(ctx).inf.cfg(f)
    resets, records = [], []
    for s in own_statements(f.node.body):
        if isinstance(s, ast.Assign) and isinstance(s.targets[0], ast.Subscript) and norm(s.targets[0].value).endswith(".used_segment_jumps") \
                and ((isinstance(s.value, ast.Call) and norm(s.value.func) == "list" and not s.value.args) or (isinstance(s.value, ast.List) and not s.value.elts)):
            resets.append(s)
        if isinstance(s, ast.Expr) and isinstance(s.value, ast.Call) and isinstance(s.value.func, ast.Attribute) and s.value.func.attr == "append" \
                and isinstance(s.value.func.value, ast.Subscript) and norm(s.value.func.value.value).endswith(".used_segment_jumps") \
                and s.value.args and isinstance(s.value.args[0], ast.Name) and s.value.args[0].id in f.params:
            records.append(s)
    ctx.require(resets and records, rule, f.qname, f"reset ({len(resets)}) / record ({len(records)}) statements not found")
    rec_nodes = {cfg.node_of(r) for r in records}
    for r in resets:
        bad = cfg.paths_avoiding(cfg.node_of(r), rec_nodes, {cfg.exit})
        ctx.check(not bad, rule, f"`{norm(r)[:50]}` is followed by the record", func=f, node=r, construct="reset-without-record",
                  msg=f"after `{norm(r)[:60]}` some path returns without `used_segment_jumps[..].append({records[0].value.args[0].id})`: the leap that triggered the reset "
                      f"is forgotten and is taken again when the playback reaches the mark the second time")


def rule_total_processing_order(ctx):
    rule = "TOTAL-ord"
    ctx.rule(rule, "ps13s1 processes the notes in a total order that does not depend on the input row order: the permutation is built from "
                   "the pitch column *and* the onset column, the onset sort being stable")
    f = ctx.prog.func("partitura.musicanalysis.pitch_spelling:ps13s1", rule)
    defs = local_defs(f)
    # by role: the permutation whose argsort is used to restore the input order
    inv = [v for vs in defs.values() for v in vs if isinstance(v, ast.Call) and isinstance(v.func, ast.Attribute) and v.func.attr == "argsort"
           and isinstance(v.func.value, ast.Name) and not v.args]
    perm = None
    for v in inv:
        nm = v.func.value.id
        if any(isinstance(s, ast.Subscript) and isinstance(s.slice, ast.Name) and s.slice.id == nm for s in ast.walk(f.node)):
            perm = nm
    ctx.require(perm is not None, rule, f.qname, "processing permutation not found")
    todo, seen, consts, names, stable, argsorts = [ast.Name(id=perm, ctx=ast.Load())], set(), set(), set(), False, 0
    while todo:
        e = todo.pop()
        for x in ast.walk(e):
            if isinstance(x, ast.Name) and x.id not in seen:
                seen.add(x.id)
                names.add(x.id)
                todo.extend(defs.get(x.id, []))
            if isinstance(x, ast.Constant) and isinstance(x.value, str):
                consts.add(x.value)
            if isinstance(x, ast.Call) and norm(x.func).endswith("argsort"):
                argsorts += 1
                if any(k.arg == "kind" and isinstance(k.value, ast.Constant) and k.value.value in ("mergesort", "stable") for k in x.keywords):
                    stable = True
            if isinstance(x, ast.Call) and norm(x.func).endswith("lexsort"):
                argsorts += 2
                stable = True
                consts.add("pitch") if "pitch" in norm(x) else None
    unit = next((n for n in names if any(isinstance(t, ast.Tuple) and any(isinstance(el, ast.Name) and el.id == n for el in t.elts)
                                         for a in ast.walk(f.node) if isinstance(a, ast.Assign) for t in a.targets)), None)
    ok = "pitch" in consts and unit is not None and stable and argsorts >= 2
    ctx.check(ok, rule, f"order of `{perm}`", func=f, construct="row-order-dependent",
              msg=f"the processing order `{perm}` is built from columns {sorted(consts)} with {argsorts} sort(s), stable={stable}: without the pitch key "
                  f"notes with equal onset keep their *input* order, so the spelling of a chord depends on the order of the rows")


def rule_shared_divisions_lcm(ctx):
    rule = "DIVS-lcm"
    ctx.rule(rule, "load_kern: when a spine joins an existing part, the part's divisions become a common multiple of the spine's and "
                   "the part's current divisions (np.lcm), so that every duration of both stays an integer")
    f = ctx.prog.func("partitura.io.importkern:load_kern", rule)
    calls = [c for c in own_nodes(f.node) if isinstance(c, ast.Call) and isinstance(c.func, ast.Attribute) and c.func.attr == "set_quarter_duration" and len(c.args) == 2]
    ctx.require(len(calls) >= 1, rule, f.qname, "set_quarter_duration call not found")
    for c in calls:
        x = c.args[1]
        stmt = c
        while not isinstance(stmt, ast.stmt):
            stmt = stmt._parent
        d = None
        if isinstance(x, ast.Name):
            cur = stmt
            while d is None and cur is not None and cur is not f.node:
                par = getattr(cur, "_parent", None)
                for fld in ("body", "orelse"):
                    b = getattr(par, fld, None)
                    if isinstance(b, list) and any(cur is s for s in b):
                        for s in b[:next(i for i, y in enumerate(b) if y is cur)]:
                            if isinstance(s, ast.Assign) and any(norm(t) == x.id for t in s.targets):
                                d = s.value
                cur = par
        else:
            d = x
        if d is None:
            raise AnalysisError(rule, f.qname, f"definition of `{norm(x)}` before `{norm(c)[:40]}` not found in its block")
        fn = norm(d.func) if isinstance(d, ast.Call) else ""
        recv = norm(c.func.value)
        if fn in ("np.lcm.reduce", "np.lcm", "numpy.lcm", "math.lcm", "lcm"):
            ok = any(isinstance(n, ast.Attribute) and "quarter_duration" in n.attr for n in ast.walk(d))
            why = "the lcm does not combine the part's current divisions with the spine's"
        elif fn in ("max", "min", "np.max", "np.maximum"):
            ok, why = False, f"`{fn}` of the two divisions is not a common multiple (triplets against sixteenths: 12 and 4 fit, 3 and 4 do not)"
        else:
            raise AnalysisError(rule, f.qname, f"`{norm(d)[:60]}` not understood as a combination of divisions")
        ctx.check(ok, rule, f"`{norm(c)[:40]}` gets a common multiple", func=f, node=c, construct="shared-divisions-not-lcm",
                  msg=f"`{norm(x)} = {norm(d)[:70]}`: {why}; durations that do not fit are silently rounded by the element parser")


def rule_single_rounding_offset(ctx):
    rule = "F10-pre"
    ctx.rule(rule, "score MIDI export rounds once: every quantity subtracted from / added to the quarter position inside "
                   "int(round(ppq * (...))) is itself free of truncation (no //, int(), floor, round in its definitions)")
    f = ctx.prog.func("partitura.io.exportmidi:save_score_midi", rule)
    conv = [n for n in ast.walk(f.node) if isinstance(n, ast.FunctionDef) and n is not f.node and
            any(isinstance(c, ast.Call) and norm(c.func) in ("np.round", "round", "np.rint", "np.around", "numpy.round", "int") for c in ast.walk(n))]
    ctx.require(len(conv) >= 1, rule, f.qname, "nested tick conversion not found")
    defs = local_defs(f)
    n = 0
    for cv in conv:
        params = {a.arg for a in cv.args.args}
        free = {x.id for x in ast.walk(cv) if isinstance(x, ast.Name) and isinstance(x.ctx, ast.Load) and x.id not in params and x.id in defs}
        for name in sorted(free):
            todo, seen = list(defs[name]), {name}
            while todo:
                d = todo.pop()
                n += 1
                bad = [x for x in ast.walk(d) if (isinstance(x, ast.BinOp) and isinstance(x.op, ast.FloorDiv)) or
                       (isinstance(x, ast.Call) and norm(x.func) in ("int", "round", "np.round", "np.floor", "np.ceil", "math.floor", "math.ceil", "np.rint"))]
                ctx.check(not bad, rule, f"`{name}` <- `{norm(d)[:40]}`", func=f, node=d, construct=f"pre-truncated:{name}",
                          msg=f"`{norm(d)[:70]}` (flows into `{name}`, used inside the tick conversion `{cv.name}`) truncates before the final rounding: "
                              f"a bar of 3/8 is 1.5 quarters, `//` makes it 1 and every tick is half a quarter early")
                for x in ast.walk(d):
                    if isinstance(x, ast.Name) and x.id in defs and x.id not in seen and len(defs[x.id]) <= 3:
                        seen.add(x.id)
                        todo.extend(v for v in defs[x.id] if not isinstance(v, ast.Call) or norm(v.func) not in ("qm",))
    ctx.floor(rule, "definitions flowing into the tick conversion", n, 2)


def rule_beat_type_source(ctx, scope, label):
    rule = "BEAT-TYPE"
    ctx.rule(rule, "quarters per beat is 4 / <beat type>: the operand of every `4 / x` or `x / 4` conversion derives from a denominator "
                   "source (`beat_type`, 'ts_beat_type'), never only from a numerator source (`beats`, 'ts_beats')")
    NUM = {"ts_beats", "beats", "musical_beats", "ts_mus_beats"}
    DEN = {"ts_beat_type", "beat_type"}
    n = 0
    fs = []
    for x in scope:
        fs.extend(ctx.prog.functions_in(x) if isinstance(x, str) else [x])
    for f in fs:
        defs = local_defs(f)
        for c in own_nodes(f.node):
            if not (isinstance(c, ast.BinOp) and isinstance(c.op, ast.Div)):
                continue
            four = lambda e: isinstance(e, ast.Constant) and e.value in (4, 4.0)
            other = c.right if four(c.left) else (c.left if four(c.right) else None)
            if other is None:
                continue
            src, todo, seen = set(), [other], set()

            def visit(e):
                # the *selected* column / attribute is the source; the table or object it is selected from is not
                if isinstance(e, ast.Attribute):
                    src.add(e.attr)
                    return
                if isinstance(e, ast.Subscript) and isinstance(e.slice, ast.Constant) and isinstance(e.slice.value, str):
                    src.add(e.slice.value)
                    return
                if isinstance(e, ast.Name):
                    if e.id not in seen:
                        seen.add(e.id)
                        if e.id in f.all_params:
                            src.add(e.id)
                        todo.extend(defs.get(e.id, []))
                    return
                if isinstance(e, ast.Call):
                    for a in list(e.args) + [k.value for k in e.keywords]:
                        visit(a)
                    if isinstance(e.func, ast.Attribute):
                        visit(e.func.value)
                    return
                for ch in ast.iter_child_nodes(e):
                    visit(ch)
            while todo:
                visit(todo.pop())
            if not (src & (NUM | DEN)):
                continue
            n += 1
            ctx.check(bool(src & DEN) or not (src & NUM), rule, f"{f.qname}: `{norm(c)[:40]}`", func=f, node=c, construct=f"numerator-as-beat-type:{f.name}",
                      msg=f"`{norm(c)[:60]}` converts with `{norm(other)[:30]}`, which derives from {sorted(src & NUM)} only: the number of beats per bar is not the beat "
                          f"unit (3/4 would be treated like 3/3)")
    ctx.ok(rule, f"{label}: {n} conversion(s) with a recognised time-signature source")
    return n


# =====================================================================================
# rules added after round 4 of the seeded changes
# =====================================================================================

def rule_group_stack_top(ctx):
    rule = "STACK-top"
    ctx.rule(rule, "MusicXML part groups are closed like a stack: the loop that closes groups stops when the wanted group is the *top* "
                   "of the stack (a membership test would leave inner groups open)")
    outer = ctx.prog.func("partitura.io.exportmusicxml:save_musicxml", rule)
    n = 0
    for fn in [x for x in ast.walk(outer.node) if isinstance(x, ast.FunctionDef) and x is not outer.node]:
        for w in ast.walk(fn):
            if not (isinstance(w, ast.While) and isinstance(w.test, ast.Name)):
                continue
            stack = w.test.id
            pops = any(isinstance(c, ast.Call) and norm(c.func) == f"{stack}.pop" for c in ast.walk(w))
            brk = [i for i in ast.walk(w) if isinstance(i, ast.If) and any(isinstance(b, ast.Break) for b in i.body)]
            if not (pops and brk):
                continue
            n += 1
            t = brk[0].test
            top = any(isinstance(s, ast.Subscript) and norm(s.value) == stack and norm(s.slice) in ("-1", "len(%s) - 1" % stack) for s in ast.walk(t))
            member = any(isinstance(c, ast.Compare) and any(isinstance(o, (ast.In, ast.NotIn)) for o in c.ops) and any(norm(x) == stack for x in c.comparators)
                         for c in ast.walk(t))
            ctx.check(top and not member, rule, f"{fn.name}: `{norm(t)[:40]}`", func=outer, node=brk[0], construct="group-closing-not-stack-top",
                      msg=f"the loop that pops `{stack}` stops on `{norm(t)}`: it must compare with the top of the stack (`{stack}[-1]`), otherwise a nested "
                          f"group that should be closed stays open and later parts end up inside it")
    ctx.floor(rule, "group closing loops", n, 1)


def rule_position_updates_maxtime(ctx):
    rule = "MAXTIME"
    ctx.rule(rule, "importmusicxml._handle_measure: every branch that moves the cursor (`position`) also folds it into the measure's "
                   "maximal time, which places the closing barline and the next measure")
    f = ctx.prog.func("partitura.io.importmusicxml:_handle_measure", rule)
    # by role: the name returned first / passed as the end to part.add(measure, ..)
    rets = [r for r in own_nodes(f.node) if isinstance(r, ast.Return) and isinstance(r.value, ast.Tuple) and r.value.elts and isinstance(r.value.elts[0], ast.Name)]
    ctx.require(rets, rule, f.qname, "returned maximal time not found")
    mx = rets[0].value.elts[0].id
    upd = [s for s in own_nodes(f.node) if isinstance(s, ast.Assign) and norm(s.targets[0]) == mx and isinstance(s.value, ast.Call) and norm(s.value.func) == "max"]
    ctx.require(len(upd) >= 2, rule, f.qname, "max updates not found")
    pos = next((norm(a) for a in upd[0].value.args if norm(a) != mx), None)
    ctx.require(pos is not None, rule, f.qname, "cursor variable not found")
    n = 0
    for s in own_nodes(f.node):
        moves = (isinstance(s, ast.AugAssign) and norm(s.target) == pos) or \
                (isinstance(s, ast.Assign) and any(norm(x) == pos for t in s.targets for x in ([t] + (list(t.elts) if isinstance(t, ast.Tuple) else []))))
        if not moves:
            continue
        blk = None
        par = getattr(s, "_parent", None)
        for fld in ("body", "orelse"):
            b = getattr(par, fld, None)
            if isinstance(b, list) and any(s is x for x in b):
                blk = b
        if blk is None or not any(isinstance(p, (ast.For, ast.While)) for p in _anc(s, f.node)):
            continue
        # an element that is skipped (`continue` closes one of the enclosing blocks) only keeps the cursor in step with the file
        skipped, c0 = False, s
        while c0 is not None and c0 is not f.node and not isinstance(c0, (ast.For, ast.While)):
            pp = getattr(c0, "_parent", None)
            for fld in ("body", "orelse"):
                b = getattr(pp, fld, None)
                if isinstance(b, list) and any(c0 is x for x in b) and isinstance(b[-1], ast.Continue):
                    skipped = True
            c0 = pp
        if skipped:
            continue
        n += 1
        after = blk[next(i for i, x in enumerate(blk) if x is s) + 1:]
        cur, ok = par, any(u in after for u in upd)
        # the update may also follow the enclosing if-block of the move
        while not ok and cur is not None and cur is not f.node and not isinstance(cur, (ast.For, ast.While)):
            pp = getattr(cur, "_parent", None)
            for fld in ("body", "orelse"):
                b = getattr(pp, fld, None)
                if isinstance(b, list) and any(cur is x for x in b):
                    ok = any(u in b[next(i for i, x in enumerate(b) if x is cur) + 1:] for u in upd)
            cur = pp
        ctx.check(ok, rule, f"`{norm(s)[:40]}` followed by the max update", func=f, node=s, construct=f"cursor-move-without-maxtime:{norm(s)[:25]}",
                  msg=f"`{norm(s)[:60]}` moves the cursor but `{mx} = max({mx}, {pos})` does not follow in that branch: a <forward>/<note> that ends the "
                      f"longest voice no longer extends the measure, so the right barline and everything after it is placed too early")
    ctx.floor(rule, "cursor moves in the element loop", n, 3)


def rule_ppq_over_all_divisions(ctx):
    rule = "PPQ-all"
    ctx.rule(rule, "get_ppq takes the lcm over *every* divisions value of every part (all rows of quarter_durations()), not one per part")
    f = ctx.prog.func("partitura.io.exportmidi:get_ppq", rule)
    subs = [s for s in ast.walk(f.node) if isinstance(s, ast.Subscript) and isinstance(s.value, ast.Call) and norm(s.value.func).endswith("quarter_durations")]
    ctx.require(len(subs) >= 1, rule, f.qname, "quarter_durations() column not found")
    for s in subs:
        sl = s.slice
        ok = isinstance(sl, ast.Tuple) and len(sl.elts) == 2 and isinstance(sl.elts[0], ast.Slice) and sl.elts[0].lower is None and sl.elts[0].upper is None
        ctx.check(ok, rule, f"`{norm(s)[:50]}`", func=f, node=s, construct="ppq-from-first-divisions-only",
                  msg=f"`{norm(s)[:60]}` selects {'one row' if not ok else 'all rows'} of the part's divisions table: a part whose divisions change (2 then 3) is "
                      f"exported with a ppq that cannot represent the later section")
        # the column must reach the lcm whole: no max()/min()/single element taken from it first
        par = getattr(s, "_parent", None)
        reduced = None
        if isinstance(par, ast.Attribute) and par.value is s and par.attr in ("max", "min", "mean", "item", "sum", "prod"):
            reduced = f".{par.attr}()"
        elif isinstance(par, ast.Subscript) and par.value is s:
            reduced = "one element"
        elif isinstance(par, ast.Call) and s in par.args and norm(par.func) in ("max", "min", "np.max", "np.min", "numpy.max", "numpy.min", "np.amax", "np.amin"):
            reduced = f"{norm(par.func)}()"
        ctx.check(reduced is None, rule, f"`{norm(s)[:50]}` whole", func=f, node=s, construct="ppq-from-reduced-divisions",
                  msg=f"the divisions column of a part is reduced with {reduced} before the lcm: a part whose divisions change to values that do not "
                      f"divide one another (4 then 6) gets a ppq that cannot represent both sections")
    lcm = any(isinstance(c, ast.Call) and norm(c.func) in ("np.lcm.reduce", "numpy.lcm.reduce") for c in ast.walk(f.node))
    ctx.check(lcm, rule, "lcm over the divisions", func=f, construct="ppq-not-lcm", msg="get_ppq must reduce the divisions with np.lcm")


def rule_multiple_divisions_refused(ctx):
    rule = "DIVS-single"
    ctx.rule(rule, "note_array_from_part: the divs_pq column is one number per part — a part with several divisions is refused (raise), "
                   "never silently reported with its first value")
    f = ctx.prog.func("partitura.utils.music:note_array_from_part", rule)
    tests = [i for i in own_nodes(f.node) if isinstance(i, ast.If) and any(isinstance(c, ast.Call) and norm(c.func) == "len" for c in ast.walk(i.test))
             and any(isinstance(c, ast.Constant) and c.value == 1 for c in ast.walk(i.test)) and "quarter" in norm(i.test)]
    ctx.require(len(tests) == 1, rule, f.qname, "single-divisions test not found")
    i = tests[0]
    raises = any(isinstance(x, ast.Raise) for b in i.body for x in ast.walk(b))
    ctx.check(raises, rule, f"`{norm(i.test)[:40]}` raises", func=f, node=i, construct="multiple-divisions-not-refused",
              msg=f"under `{norm(i.test)}` the function no longer raises: a part whose divisions change gets the *first* value as divs_pq for all its notes "
                  f"and the score-level rescaling then uses that wrong scalar")


def rule_sibling_formatters(ctx):
    rule = "SIB-fmt"
    ctx.rule(rule, "the key / time signature formatters of matchfile_utils are siblings: within one family every formatter sets the same "
                   "attributes on the value it formats (a formatter that forgets one inherits whatever the previous use left behind)")
    fam = {}
    for f in ctx.prog.functions_in("partitura.io.matchfile_utils"):
        if f.cls is None and f.name.startswith(("format_key_signature", "format_time_signature")) and f.params:
            ann = f.node.args.args[0].annotation
            key = norm(ann) if ann is not None else ("format_key_signature" if f.name.startswith("format_key_signature") else "format_time_signature")
            attrs = sorted({t.attr for t in ast.walk(f.node) if isinstance(t, ast.Attribute) and isinstance(t.ctx, ast.Store)
                            and isinstance(t.value, ast.Name) and t.value.id == f.params[0]})
            fam.setdefault(key, []).append((f, attrs))
    n = 0
    for key, lst in fam.items():
        union = sorted({a for _, attrs in lst for a in attrs})
        for f, attrs in lst:
            n += 1
            ctx.touch(f)
            ctx.check(attrs == union, rule, f"{f.name}: sets {attrs}", func=f, construct=f"formatter-misses:{','.join(sorted(set(union) - set(attrs)))}",
                      msg=f"{f.name} sets {attrs} on the value but its siblings set {union}: the missing attribute keeps the state of the last formatter "
                          f"that touched the same object, so the written text depends on what was done before")
    ctx.floor(rule, "signature formatters", n, 6)


def rule_ids_over_all_notes(ctx):
    rule = "IDS-all"
    ctx.rule(rule, "update_note_ids_after_unfolding renames every note: it iterates the part's `notes` (tie continuations included), "
                   "not the tied heads only")
    f = ctx.prog.func("partitura.utils.music:update_note_ids_after_unfolding", rule)
    loops = [l for l in own_statements(f.node.body) if isinstance(l, ast.For) and isinstance(l.iter, ast.Attribute) and isinstance(l.iter.value, ast.Name)
             and l.iter.value.id == f.params[0]]
    ctx.require(len(loops) >= 1, rule, f.qname, "loop over the part's notes not found")
    ctx.check(loops[0].iter.attr == "notes", rule, f"iterates `{norm(loops[0].iter)}`", func=f, node=loops[0], construct="ids-not-over-all-notes",
              msg=f"the id table is built from `{norm(loops[0].iter)}`: notes that are not in it (tie continuations under `notes_tied`) keep their bare id in every "
                  f"visit, so ids are no longer unique after unfolding")


def rule_destinations_deduplicated(ctx):
    rule = "DEDUP"
    ctx.rule(rule, "add_segments: the plain jump destinations of a segment (neither volta nor navigation entries) are de-duplicated "
                   "before they are ordered — Path reads that list positionally")
    f = ctx.prog.func("partitura.score:add_segments", rule)
    defs = local_defs(f)
    # by role: the collection filled with the destinations that pass a `"Navigation" not in dest` filter —
    # a comprehension with that filter, or `.append(dest)` / `.add(dest)` under that condition
    cands = set()
    for n, vs in defs.items():
        for v in vs:
            if isinstance(v, ast.ListComp) and any(isinstance(c, ast.Compare) and isinstance(c.ops[0], ast.NotIn) and "Navigation" in norm(c)
                                                   for i_ in v.generators[0].ifs for c in ast.walk(i_)):
                cands.add(n)
    for c in own_nodes(f.node):
        if isinstance(c, ast.Call) and isinstance(c.func, ast.Attribute) and c.func.attr in ("append", "add") and isinstance(c.func.value, ast.Name) and c.args:
            conds = _path_conditions(c, f.node)
            if any("Navigation" in k and " not in " in k for k in conds):
                cands.add(c.func.value.id)
    ctx.require(len(cands) == 1, rule, f.qname, f"plain destination collection not identified ({sorted(cands)})")
    name = next(iter(cands))

    def is_set_expr(v):
        return any((isinstance(c, ast.Call) and norm(c.func) in ("set", "frozenset", "dict.fromkeys", "np.unique")) or isinstance(c, (ast.Set, ast.SetComp)) for c in ast.walk(v))
    dedup = any(is_set_expr(v) for v in defs.get(name, []))
    # `a, b, c = set(), [], []`
    for s_ in own_nodes(f.node):
        if isinstance(s_, ast.Assign) and isinstance(s_.targets[0], ast.Tuple) and isinstance(s_.value, ast.Tuple) and len(s_.targets[0].elts) == len(s_.value.elts):
            for t, v in zip(s_.targets[0].elts, s_.value.elts):
                if norm(t) == name and is_set_expr(v):
                    dedup = True
    ctx.check(dedup, rule, f"`{name}` is de-duplicated", func=f, construct="destinations-not-deduplicated",
              msg=f"`{name}` is no longer de-duplicated: a barline carrying two marks puts the same forward link into Segment.to twice and the unfolding, which "
                  f"consumes that list by position, skips a repeat")


def rule_tie_group_dissolved_completely(ctx):
    rule = "TIE-all"
    ctx.rule(rule, "sanitize_part dissolves a wrong tie group as a whole: the loop that clears tie_next / tie_prev runs over the earlier "
                   "notes, the note itself and the later notes")
    f = ctx.prog.func("partitura.score:sanitize_part", rule)
    loops = [l for l in own_nodes(f.node) if isinstance(l, ast.For) and
             {t.attr for s in l.body if isinstance(s, ast.Assign) for t in s.targets if isinstance(t, ast.Attribute) and isinstance(s.value, ast.Constant) and s.value.value is None}
             >= {"tie_next", "tie_prev"}]
    ctx.require(len(loops) == 1, rule, f.qname, "link-clearing loop not found")
    it = resolve_alias(loops[0].iter, local_defs(f))
    attrs = {a.attr for a in ast.walk(it) if isinstance(a, ast.Attribute)}
    has_self = any(isinstance(e, ast.List) and len(e.elts) == 1 and isinstance(e.elts[0], ast.Name) for e in ast.walk(it))
    ok = {"tie_prev_notes", "tie_next_notes"} <= attrs and has_self
    ctx.check(ok, rule, f"clears `{norm(it)[:50]}`", func=f, node=loops[0], construct="tie-group-partly-dissolved",
              msg=f"the links are cleared on `{norm(it)[:60]}` only: the remaining note(s) of the group keep a one-sided tie (a.tie_next is b while b.tie_prev is None) — "
                  f"a non-contiguous chain survives sanitising")


def rule_accidentals_repeat(ctx):
    rule = "ACC-repeat"
    ctx.rule(rule, "pitch_spelling_to_note_name writes |alter| accidental signs (string repetition by the alteration) for sharps and flats "
                   "beyond the double ones: a fixed string loses triple accidentals")
    f = ctx.prog.func("partitura.utils.music:pitch_spelling_to_note_name", rule)
    al = f.params[1]
    reps = [b for b in ast.walk(f.node) if isinstance(b, ast.BinOp) and isinstance(b.op, ast.Mult) and
            any(isinstance(x, ast.Constant) and isinstance(x.value, str) for x in (b.left, b.right)) and any(isinstance(n, ast.Name) and n.id == al for n in ast.walk(b))]
    signs = sorted({x.value for b in reps for x in (b.left, b.right) if isinstance(x, ast.Constant)})
    ctx.check(len(signs) >= 2, rule, f"repeated signs {signs}", func=f, construct="accidental-not-repeated",
              msg=f"only {signs} are repeated by the alteration: alter = +/-3 (inside the property's range) is written with a fixed sign and comes back as another pitch")


def rule_unison_shortcut_in_transpose_note(ctx):
    rule = "P1-only"
    f = ctx.prog.func("partitura.utils.music:transpose_note", rule)
    ctx.touch(f)
    step_p, alter_p = f.params[0], f.params[1]
    defs = local_defs(f)
    for i in own_nodes(f.node):
        if not isinstance(i, ast.If):
            continue
        rets = [r for r in i.body if isinstance(r, ast.Return) and isinstance(r.value, ast.Tuple) and len(r.value.elts) == 2]
        for r in rets:
            a, b = (resolve_alias(x, defs) for x in r.value.elts)
            unchanged = alter_p in norm(b) and not any(isinstance(x, ast.BinOp) for x in ast.walk(b)) and step_p in norm(a) and not any(isinstance(x, ast.Subscript) for x in ast.walk(a))
            if not unchanged:
                continue
            attrs = {x.attr for x in ast.walk(i.test) if isinstance(x, ast.Attribute)}
            ok = "quality" in attrs or any(isinstance(c, ast.Constant) and c.value == "P1" for c in ast.walk(i.test))
            ctx.check(ok, rule, f"transpose_note shortcut `{norm(i.test)[:40]}`", func=f, node=i, construct="identity-by-number-only",
                      msg=f"transpose_note returns its input unchanged under `{norm(i.test)}`, which does not look at the interval's quality: an augmented or "
                          f"diminished unison (A1, d1) must still change the alteration")


PS13_INIT_MORPH = [0, 1, 1, 2, 2, 3, 4, 4, 5, 5, 6, 6]
PS13_MORPH_INT = [0, 1, 1, 2, 2, 3, 3, 4, 5, 5, 6, 6]


def rule_ps13_tables(ctx):
    rule = "F3-ps13"
    ctx.rule(rule, "compute_morph_array uses the two tables of the ps13 algorithm (Meredith 2006): the morph of the first note comes from "
                   "the initial-morph table [0,1,1,2,2,3,4,4,5,5,6,6], the morphs of the chroma intervals from [0,1,1,2,2,3,3,4,5,5,6,6]")
    f = ctx.prog.func("partitura.musicanalysis.pitch_spelling:compute_morph_array", rule)
    defs = local_defs(f)
    tabs = {}
    for name, vs in defs.items():
        for v in vs:
            if isinstance(v, ast.Call) and norm(v.func) in ("np.array", "numpy.array") and v.args and isinstance(v.args[0], ast.List) and \
                    all(isinstance(e, ast.Constant) and isinstance(e.value, int) for e in v.args[0].elts) and len(v.args[0].elts) == 12:
                tabs[name] = [e.value for e in v.args[0].elts]
    ctx.require(tabs, rule, f.qname, "no 12-entry integer table found")
    # by role: m0 = T[c0] with c0 = <chroma array>[0]
    first = [v for vs in defs.values() for v in vs if isinstance(v, ast.Subscript) and isinstance(v.value, ast.Name) and v.value.id in tabs and isinstance(v.slice, ast.Name)
             and any(isinstance(d, ast.Subscript) and isinstance(d.slice, ast.Constant) and d.slice.value == 0 for d in defs.get(v.slice.id, []))]
    ctx.require(len(first) == 1, rule, f.qname, "initial morph lookup not found")
    ctx.check(tabs[first[0].value.id] == PS13_INIT_MORPH, rule, "initial-morph table", func=f, node=first[0], construct="ps13-init-morph-table",
              msg=f"the first note's morph is read from {tabs[first[0].value.id]}, the algorithm's initial-morph table is {PS13_INIT_MORPH}")
    ctx.check(PS13_MORPH_INT in tabs.values(), rule, "interval-morph table", func=f, construct="ps13-morph-int-table",
              msg=f"no table equals the algorithm's interval-morph table {PS13_MORPH_INT} (found {sorted(tabs.values())})")


def rule_ticks_round_once(ctx):
    rule = "F10-ticks"
    ctx.rule(rule, "seconds_to_midi_ticks = round(1e6 * ppq * seconds / mpq): the only int conversions are applied to the rounded value, "
                   "and nothing that flows into the rounded expression is truncated first (no intermediate integer rate)")
    f = ctx.prog.func("partitura.utils.music:seconds_to_midi_ticks", rule)
    defs = local_defs(f)
    rounds = [n for n in ast.walk(f.node) if isinstance(n, ast.Call) and norm(n.func) in ("np.round", "round", "np.rint", "np.around")]
    ctx.require(rounds, rule, f.qname, "rounding call not found")
    rounded_names = {norm(t) for a in ast.walk(f.node) if isinstance(a, ast.Assign) and a.value in rounds for t in a.targets}
    for i in [n for n in ast.walk(f.node) if isinstance(n, ast.Call) and (norm(n.func) == "int" or norm(n.func).endswith(".astype"))]:
        on_rounded = any((isinstance(x, ast.Name) and x.id in rounded_names) or x in rounds for x in ast.walk(i))
        ctx.check(on_rounded, rule, f"`{norm(i)[:40]}` converts the rounded value", func=f, node=i, construct="int-of-unrounded",
                  msg=f"`{norm(i)[:60]}` converts something other than the rounded tick value to int: an intermediate integer (e.g. ticks per second) drops a "
                      f"fraction that grows with the time (ppq=100, mpq=750000: 3.0 s -> 399 instead of 400)")
    for r in rounds:
        todo, seen = [r.args[0]] if r.args else [], set()
        while todo:
            e = todo.pop()
            for x in ast.walk(e):
                if isinstance(x, ast.Name) and x.id in defs and x.id not in seen:
                    seen.add(x.id)
                    todo.extend(defs[x.id])
                bad = (isinstance(x, ast.BinOp) and isinstance(x.op, ast.FloorDiv)) or \
                      (isinstance(x, ast.Call) and norm(x.func) in ("int", "np.floor", "np.ceil", "math.floor", "math.ceil", "np.trunc"))
                ctx.check(not bad, rule, f"inside the rounded expression: `{norm(x)[:30]}`", func=f, node=x, construct="truncated-before-rounding",
                          msg=f"`{norm(x)[:60]}` truncates a quantity that flows into the rounded tick value") if bad else None
    ctx.ok(rule, "seconds_to_midi_ticks: single rounding")


def rule_renumber_every_part_fully(ctx):
    q = "partitura.performance:Performance.sanitize_track_numbers"
    f = ctx.prog.func(q, "ROUND-all")

    def part_loop(fi):
        return next((l for l in own_statements(fi.node.body) if isinstance(l, ast.For) and isinstance(l.iter, ast.Call) and norm(l.iter.func) == "enumerate"
                     and any(isinstance(s, ast.For) for s in l.body)), None)
    lp = part_loop(f)
    ctx.require(lp is not None, "ROUND-all", q, "loop over the parts not found")
    inner = [s for s in lp.body if isinstance(s, ast.For) and any(isinstance(t, ast.Subscript) and isinstance(t.ctx, ast.Store) for t in ast.walk(s))]
    # the collections the renumbering loops range over: `for n in ppart.notes`, or one loop over chain(ppart.notes, ppart.controls, ..)
    attrs = set()
    for s in inner:
        it = s.iter
        parts = list(it.args) if isinstance(it, ast.Call) and norm(it.func).split(".")[-1] == "chain" else [it]
        attrs |= {a.attr for a in parts if isinstance(a, ast.Attribute)}
    ctx.require({"notes", "controls", "programs"} <= attrs, "ROUND-all", q, f"renumbering loops cover {sorted(attrs)} (notes, controls, programs expected)")
    for s in inner:
        rule_every_round_passes(ctx, q, part_loop, lambda fi, l, s=s: s, f"every part renumbers `{norm(s.iter)[:20]}`",
                                f"some path through the loop over the parts skips the renumbering of `{norm(s.iter)}`: that part keeps its old track numbers "
                                f"there, which collide with the numbers handed to another part")


def rule_info_attribute_normalised(ctx):
    rule = "ATTR-norm"
    ctx.rule(rule, "MatchInfo.from_instance: the attribute name recorded in the 1.0.0 line is the normalised one — the same value that "
                   "selects the line's format in the version table (an old spelling would be written in a form the 1.0.0 parser rejects)")
    f = ctx.prog.func("partitura.io.matchlines_v1:MatchInfo.from_instance", rule)
    defs = local_defs(f)
    tabs = [n for n, vs in defs.items() for v in vs if isinstance(v, ast.Subscript) and "INFO_LINE" in norm(v.value)]
    ctx.require(len(tabs) == 1, rule, f.qname, "version table lookup not found")
    look = [s for s in ast.walk(f.node) if isinstance(s, ast.Subscript) and isinstance(s.ctx, ast.Load) and isinstance(s.value, ast.Name) and s.value.id == tabs[0]]
    ctx.require(len(look) >= 1, rule, f.qname, "format lookup not found")
    key = norm(look[0].slice)
    ctor = [c for c in own_nodes(f.node) if isinstance(c, ast.Call) and isinstance(c.func, ast.Name) and c.func.id == f.params[0]]
    ctx.require(len(ctor) == 1, rule, f.qname, "constructor call not found")
    kw = next((k.value for k in ctor[0].keywords if k.arg == "attribute"), None)
    ctx.require(kw is not None, rule, f.qname, "attribute= not found")
    ctx.check(norm(kw) == key, rule, f"attribute={norm(kw)[:30]}", func=f, node=ctor[0], construct="attribute-not-normalised",
              msg=f"the line is built with `attribute={norm(kw)}` but its format was selected with `{key}`: a historical spelling (`midiFilename`) is "
                  f"carried into the 1.0.0 line, written with the wrong quoting and lost when the file is read again")


def rule_sound_off_not_before_release(ctx):
    rule = "SOUND-ge"
    ctx.rule(rule, "adjust_offsets_w_sustain never lowers a sounding end below the release: every min() applied to the sounding-end "
                   "array takes its other operand from strikes selected by a comparison with the releases (`>= release`), or the "
                   "result is clamped from below by the releases")
    f = ctx.prog.func("partitura.performance:adjust_offsets_w_sustain", rule)
    defs = local_defs(f)
    # by role: the array written into note["sound_off"]
    out = None
    for lp in own_nodes(f.node):
        if isinstance(lp, ast.For) and isinstance(lp.iter, ast.Call) and norm(lp.iter.func) == "zip" and \
                any(isinstance(t, ast.Subscript) and isinstance(t.slice, ast.Constant) and t.slice.value == "sound_off" and isinstance(t.ctx, ast.Store) for t in ast.walk(lp)):
            out = next((a.id for a in lp.iter.args if isinstance(a, ast.Name) and any(isinstance(v, ast.Call) and "fromiter" in norm(v.func) for v in defs.get(a.id, []))), None)
    ctx.require(out is not None, rule, f.qname, "sounding-end array not found")
    release_copies = {n for n, vs in defs.items() for v in vs if isinstance(v, ast.Call) and norm(v.func) == f"{out}.copy"}
    n = 0
    for s in own_nodes(f.node):
        if not (isinstance(s, ast.Assign) and isinstance(s.targets[0], ast.Subscript) and norm(s.targets[0].value) == out):
            continue
        mins = [c for c in ast.walk(s.value) if isinstance(c, ast.Call) and norm(c.func) in ("min", "np.minimum", "numpy.minimum")]
        if not mins:
            continue
        n += 1
        clamped = any(isinstance(c, ast.Call) and norm(c.func) in ("max", "np.maximum") and any(any(isinstance(x, ast.Name) and x.id in release_copies for x in ast.walk(a)) for a in c.args)
                      for c in ast.walk(s.value))
        selected = False
        for m in mins:
            for a in m.args:
                todo, seen = [a], set()
                while todo:
                    e = todo.pop()
                    for x in ast.walk(e):
                        if isinstance(x, ast.Compare) and isinstance(x.ops[0], (ast.LtE, ast.Lt, ast.GtE, ast.Gt)) and \
                                any(isinstance(y, ast.Name) and y.id in release_copies for y in ast.walk(x)):
                            selected = True
                        if isinstance(x, ast.Name) and x.id in defs and x.id not in seen and x.id != out:
                            seen.add(x.id)
                            todo.extend(defs[x.id])
        ctx.check(clamped or selected, rule, f"`{norm(s)[:50]}`", func=f, node=s, construct="sound-off-below-release",
                  msg=f"`{norm(s)[:80]}` lowers the sounding end to the next strike of the pitch whatever its time: a strike *before* the note's own release "
                      f"(overlapping notes of one pitch) gives sound_off < note_off and PerformedPart raises")
    ctx.floor(rule, "min() updates of the sounding-end array", n, 1)


def _linear(e, atoms):
    """coefficients of a +/- combination of atomic terms (normalised text) and an integer constant; None if not linear"""
    if isinstance(e, ast.BinOp) and isinstance(e.op, (ast.Add, ast.Sub)):
        a, b = _linear(e.left, atoms), _linear(e.right, atoms)
        if a is None or b is None:
            return None
        sgn = 1 if isinstance(e.op, ast.Add) else -1
        out = dict(a)
        for k, v in b.items():
            out[k] = out.get(k, 0) + sgn * v
        return out
    if isinstance(e, ast.UnaryOp) and isinstance(e.op, ast.USub):
        a = _linear(e.operand, atoms)
        return None if a is None else {k: -v for k, v in a.items()}
    if isinstance(e, ast.Constant) and isinstance(e.value, int):
        return {"1": e.value}
    return {norm(e): 1}


def rule_transpose_direction_mirror(ctx):
    rule = "DIR-mirror"
    ctx.rule(rule, "_transpose_note_inplace: the new alteration is linear in (old alteration, interval semitones, semitones between the "
                   "natural steps); the old alteration enters with +1 in both directions and the other two terms change sign between "
                   "'up' and 'down'; the natural-step distance is a true modulo of natural pitch classes (no alteration folded in)")
    f = ctx.prog.func("partitura.utils.music:_transpose_note_inplace", rule)
    defs = local_defs(f)

    def dist_of(e, block):
        """('dist', a, b) when e is (a - b) % 12, directly or through a name defined so (in this branch first)"""
        if isinstance(e, ast.Name):
            local = [s.value for s in block if isinstance(s, ast.Assign) and any(norm(t) == e.id for t in s.targets)]
            cands = local or defs.get(e.id, [])
            if len(cands) == 1:
                e = cands[0]
        if isinstance(e, ast.BinOp) and isinstance(e.op, ast.Mod) and isinstance(e.right, ast.Constant) and e.right.value == 12 \
                and isinstance(e.left, ast.BinOp) and isinstance(e.left.op, ast.Sub):
            return ("dist", norm(e.left.left), norm(e.left.right))
        return None

    def linear(e, block):
        d = dist_of(e, block)
        if d is not None:
            return {d: 1}
        if isinstance(e, ast.BinOp) and isinstance(e.op, (ast.Add, ast.Sub)):
            a, b = linear(e.left, block), linear(e.right, block)
            if a is None or b is None:
                return None
            sgn = 1 if isinstance(e.op, ast.Add) else -1
            out = dict(a)
            for k, v in b.items():
                out[k] = out.get(k, 0) + sgn * v
            return out
        if isinstance(e, ast.UnaryOp) and isinstance(e.op, ast.USub):
            a = linear(e.operand, block)
            return None if a is None else {k: -v for k, v in a.items()}
        if isinstance(e, ast.Constant) and isinstance(e.value, int):
            return {"1": e.value}
        return {norm(e): 1}
    branches = [i for i in own_nodes(f.node) if isinstance(i, ast.If) and i.orelse
                and all(any(isinstance(t, ast.Attribute) and t.attr == "alter" and isinstance(t.ctx, ast.Store) for s in blk for t in ast.walk(s)) for blk in (i.body, i.orelse))]
    ok = len(branches) == 1
    why = "the alteration is not assigned separately for the two directions (same formula for 'up' and 'down')"
    if ok:
        forms = []
        for blk in (branches[0].body, branches[0].orelse):
            st = [s for s in blk if isinstance(s, ast.Assign) and any(isinstance(t, ast.Attribute) and t.attr == "alter" for t in s.targets)]
            forms.append(linear(st[-1].value, blk) if st else None)
        ok = all(x is not None for x in forms)
        if ok:
            a, b = forms
            da = [k for k in a if isinstance(k, tuple)]
            db = [k for k in b if isinstance(k, tuple)]
            pa = {k: v for k, v in a.items() if not isinstance(k, tuple)}
            pb = {k: v for k, v in b.items() if not isinstance(k, tuple)}
            why = f"one direction: {a}, the other: {b} — expected old alteration (+1 in both), semitones and natural-step distance with opposite signs"
            ok = len(da) == 1 and len(db) == 1 and set(pa) == set(pb) and len(pa) == 2 and all(abs(v) == 1 for v in list(a.values()) + list(b.values()))
            if ok:
                same = [k for k in pa if pa[k] == pb[k]]
                opp = [k for k in pa if pa[k] == -pb[k]]
                ok = len(same) == 1 and pa[same[0]] == 1 and len(opp) == 1 and a[da[0]] == -b[db[0]] and a[da[0]] == -pa[opp[0]]
                if ok:
                    ok = da[0][1] == db[0][2] and da[0][2] == db[0][1]
                    why = f"the two natural-step distances {da[0][1:]} and {db[0][1:]} are not mirror images of each other"
                    if ok:
                        for nm in da[0][1:]:
                            for v in defs.get(nm, []):
                                if any(isinstance(x, ast.Name) and x.id == same[0] for x in ast.walk(v)) or \
                                        any(isinstance(x, ast.Attribute) and x.attr == "alter" for x in ast.walk(v)):
                                    ok, why = False, f"`{nm}` folds the old alteration into the pitch class that is then reduced modulo 12 (E## + dd2 wraps an octave)"
    ctx.check(ok, rule, "alteration arithmetic mirrored between directions", func=f, construct="direction-not-mirrored",
              msg=f"_transpose_note_inplace: {why}: transposing down (or from a note whose alteration crosses the next natural step) gives the wrong alteration")


def rule_case_sensitive_callee(ctx, scope, label):
    """g(<x>.upper()) / g(<x>.lower()) where g decides on letters of the other case: those branches are dead from this call"""
    rule = "CASE-fold"
    ctx.rule(rule, "a name is not case-folded as a whole before it is handed to a function that tells its alternatives by letter case: "
                   "if the callee tests `'m' in name` / `name.count('b')`, no caller passes `<expr>.upper()`")
    inf = world(ctx).inf
    n = 0
    fs = []
    for x in scope:
        fs.extend(ctx.prog.functions_in(x) if isinstance(x, str) else [x])
    for f in fs:
        for c in own_nodes(f.node):
            if not (isinstance(c, ast.Call) and c.args):
                continue
            a = c.args[0]
            if not (isinstance(a, ast.Call) and isinstance(a.func, ast.Attribute) and a.func.attr in ("upper", "lower") and not a.args):
                continue
            tg = [t for t in inf.callee(f, c) if t[0] == "func"]
            if len(tg) != 1:
                continue
            g = tg[0][1]
            if not g.params:
                continue
            p0 = g.params[0]
            lits = set()
            for x in ast.walk(g.node):
                if isinstance(x, ast.Compare) and len(x.ops) == 1 and isinstance(x.ops[0], (ast.In, ast.NotIn)) and isinstance(x.left, ast.Constant) \
                        and isinstance(x.left.value, str) and norm(x.comparators[0]) == p0:
                    lits.add(x.left.value)
                if isinstance(x, ast.Call) and isinstance(x.func, ast.Attribute) and x.func.attr in ("count", "startswith", "endswith", "find") \
                        and norm(x.func.value) == p0 and x.args and isinstance(x.args[0], ast.Constant) and isinstance(x.args[0].value, str):
                    lits.add(x.args[0].value)
            n += 1
            lost = sorted(l for l in lits if l.isalpha() and (l.islower() if a.func.attr == "upper" else l.isupper()))
            ctx.check(not lost, rule, f"{f.qname}: `{norm(c)[:50]}`", func=f, node=c, construct=f"case-folded-argument:{g.name}",
                      msg=f"`{norm(c)[:70]}` passes a name folded to {a.func.attr} case to {g.name}, which recognises {lost} by case: those alternatives can never be "
                          f"taken from here (flat and minor key names are read as natural major keys)")
    ctx.ok(rule, f"{label}: {n} call(s) with a case-folded first argument")


def rule_keyname_pattern_guard(ctx):
    rule = "F5-keyname"
    ctx.rule(rule, "MatchKeySignature._parse_key_signature: the groups of the older-format pattern are interpreted only when the mode "
                   "group is a mode word — the 1.0.0 names written by fifths_mode_to_key_name ('Am', 'Bb', 'F#m') also match that "
                   "pattern, with the 'm' or 'b' in the mode group")
    f = ctx.prog.func("partitura.io.matchfile_utils:MatchKeySignature._parse_key_signature", rule)
    tests = [i for i in own_nodes(f.node) if isinstance(i, ast.If) and any(isinstance(c, ast.Compare) and any(isinstance(k, ast.Constant) and k.value is None for k in c.comparators)
                                                                             for c in ast.walk(i.test))]
    ctx.require(len(tests) >= 1, rule, f.qname, "pattern-match test not found")
    t = tests[0].test
    words = {c.value.lower() for c in ast.walk(t) if isinstance(c, ast.Constant) and isinstance(c.value, str)}
    ok = {"min", "maj"} <= words or {"minor", "major"} <= words
    ctx.check(ok, rule, f"`{norm(t)[:50]}`", func=f, node=tests[0], construct="old-pattern-unguarded",
              msg=f"the branch for the older key-signature formats is taken whenever the pattern matches (`{norm(t)[:60]}`): 'Am' matches with mode group 'm' and is read "
                  f"as A major, 'Bb' with mode group 'b' as B major")


def rule_tuplet_ratio_rounded(ctx):
    rule = "F10-tuplet"
    ctx.rule(rule, "estimate_symbolic_duration: the number of actual notes of a guessed tuplet is a float quotient that the search loop "
                   "has brought within eps of a whole number — it is converted with round (never ceil / floor / int alone), and the "
                   "loop measures the distance to the nearest whole number (not `% 1`, which a value just below a whole number fails)")
    f = ctx.prog.func("partitura.utils.music:estimate_symbolic_duration", rule)
    defs = local_defs(f)
    vals = [v for d in ast.walk(f.node) if isinstance(d, ast.Dict) for k, v in zip(d.keys, d.values) if isinstance(k, ast.Constant) and k.value == "actual_notes"]
    ctx.require(len(vals) >= 1, rule, f.qname, "actual_notes entry not found")
    for v in vals:
        e = resolve_alias(v, defs)
        calls = {norm(c.func) for c in ast.walk(e) if isinstance(c, ast.Call)}
        trunc = calls & {"math.ceil", "np.ceil", "math.floor", "np.floor", "math.trunc"}
        rounded = bool(calls & {"round", "np.round", "np.rint"})
        bare_int = isinstance(e, ast.Call) and norm(e.func) == "int" and not rounded
        ctx.check(rounded and not trunc and not bare_int, rule, f"actual_notes = `{norm(e)[:40]}`", func=f, node=v, construct="tuplet-ratio-not-rounded",
                  msg=f"`{norm(e)[:70]}` turns the float quotient into the number of actual notes with {sorted(trunc) or 'int()'}: 28.000000000000004 becomes 29 and the "
                      f"symbolic duration no longer evaluates to the note's duration")
    loops = [w for w in own_nodes(f.node) if isinstance(w, ast.While) and any(isinstance(c, ast.AugAssign) for c in ast.walk(w))]
    for w in loops:
        mod1 = any(isinstance(b, ast.BinOp) and isinstance(b.op, ast.Mod) and isinstance(b.right, ast.Constant) and b.right.value == 1 for b in ast.walk(w.test))
        ctx.check(not mod1, rule, f"search loop test `{norm(w.test)[:40]}`", func=f, node=w, construct="tuplet-search-modulo-one",
                  msg=f"`{norm(w.test)[:60]}` accepts a quotient only slightly *above* a whole number; one slightly below (27.999999) keeps the search going to a "
                      f"needlessly large ratio")


def expand_single_defs(expr, defs, depth=3, keep=()):
    """copy of `expr` in which every local that has exactly one definition is replaced by that definition (recursively):
    `e.start.t * time_multiplier` with `time_multiplier = T[i]` reads `e.start.t * T[i]` — hoisting a sub-expression into a
    named local does not change what a rule sees"""
    import copy as _copy

    class _E(ast.NodeTransformer):
        def __init__(self, d):
            self.d = d

        def visit_Subscript(self, n):
            # the table that is indexed keeps its name (it identifies the table); the index is expanded
            if isinstance(n.value, ast.Name):
                n.slice = self.visit(n.slice)
                return n
            return self.generic_visit(n)

        def visit_Name(self, n):
            if isinstance(n.ctx, ast.Load) and n.id not in keep and len(defs.get(n.id, [])) == 1 and self.d > 0:
                v = defs[n.id][0]
                if not isinstance(v, (ast.ListComp, ast.DictComp, ast.SetComp, ast.GeneratorExp, ast.Lambda, ast.Dict, ast.List)):
                    return _E(self.d - 1).visit(_copy.deepcopy(v))
            return n
    return _E(depth).visit(_copy.deepcopy(expr))
