"""Generic rule families shared by several properties (F4b-d, F7, F8)."""
from __future__ import annotations

import ast
import importlib
from typing import Dict, Iterable, List, Optional, Set

from ..core.cfg import CFG, definitely_unassigned_loads, local_names
from ..core.program import AnalysisError, FuncInfo, own_nodes, norm
from ..core.types import definite
from ..core.world import world

# ------------------------------------------------------------------------ F8a

_EXT_ROOTS = {"numpy", "scipy", "mido", "lxml"}
_ext_cache: Dict[str, bool] = {}


def _ext_exists(dotted: str) -> Optional[bool]:
    """Does the dotted name resolve in the *installed* third-party distribution?
    (link-time name resolution; partitura itself is never imported)"""
    if dotted in _ext_cache:
        return _ext_cache[dotted]
    parts = dotted.split(".")
    obj = None
    res = None
    try:
        obj = importlib.import_module(parts[0])
    except Exception:
        _ext_cache[dotted] = None
        return None
    res = True
    for i, a in enumerate(parts[1:], 1):
        if hasattr(obj, a):
            obj = getattr(obj, a)
            continue
        try:
            obj = importlib.import_module(".".join(parts[: i + 1]))
        except Exception:
            res = False
            break
    _ext_cache[dotted] = res
    return res


def external_attr_sites(ctx, funcs: Iterable[FuncInfo]):
    """Attribute chains rooted at an alias of numpy/scipy/mido/lxml inside funcs."""
    prog = ctx.prog
    for f in funcs:
        for n in own_nodes(f.node):
            if not isinstance(n, ast.Attribute):
                continue
            if isinstance(getattr(n, "_parent", None), ast.Attribute):
                continue  # only maximal chains
            # find the longest prefix that is a module-rooted chain
            chain = []
            cur = n
            while isinstance(cur, ast.Attribute):
                chain.append(cur.attr)
                cur = cur.value
            if not isinstance(cur, ast.Name):
                continue
            # local variable shadowing?
            r = prog.resolve_name(f.module, cur.id)
            if r is None or r[0] != "ext":
                continue
            if cur.id in local_names(f.node) or cur.id in f.all_params:
                continue
            root = r[1]
            if root.split(".")[0] not in _EXT_ROOTS:
                continue
            chain.reverse()
            # resolve progressively: stop at the first non-module object (its attributes are values)
            dotted = root
            for a in chain:
                dotted2 = dotted + "." + a
                ex = _ext_exists(dotted2)
                if ex is None:
                    break
                if ex is False:
                    yield f, n, dotted2
                    break
                dotted = dotted2
                try:
                    mod = importlib.import_module(dotted.split(".")[0])
                    obj = mod
                    for b in dotted.split(".")[1:]:
                        obj = getattr(obj, b)
                    import types as _t
                    if not isinstance(obj, _t.ModuleType):
                        break
                except Exception:
                    break


def rule_F8a(ctx, entry_qnames: List[str], label: str, max_depth=None):
    """No function reachable from the entry points references a name that the
    installed numpy/scipy/mido/lxml does not define."""
    ctx.rule("F8a", "every attribute chain rooted at numpy/scipy/mido/lxml in functions reachable from the property's "
                    "entry points resolves in the installed distribution (link-time name resolution)")
    w = world(ctx)
    for q in entry_qnames:
        ctx.prog.func(q, "F8a")
    reach = w.cg.reachable(entry_qnames, weak=False, max_depth=max_depth)
    funcs = [ctx.prog.functions[q] for q in reach if q in ctx.prog.functions]
    # nested functions of reachable functions are reachable too
    nested = [f for f in ctx.prog.functions.values() if f.parent is not None and f.parent.qname in reach and f.qname not in reach]
    for f in nested:
        reach[f.qname] = reach[f.parent.qname] + (f.qname,)
    funcs += nested
    ctx.touch(*funcs)
    bad = list(external_attr_sites(ctx, funcs))
    n_sites = 0
    for f in funcs:
        for n in own_nodes(f.node):
            if isinstance(n, ast.Attribute) and isinstance(n.value, ast.Name) and n.value.id in ("np", "numpy", "scipy", "mido", "etree"):
                n_sites += 1
    ctx.extra.setdefault("F8a", {})[label] = {"reachable_functions": len(funcs), "external_attribute_sites": n_sites}
    seen = set()
    for f, n, dotted in bad:
        key = (f.qname, dotted)
        if key in seen:
            continue
        seen.add(key)
        path = [q.split(":")[1] for q in reach.get(f.qname, ())]
        ctx.check(False, "F8a", f"{label}:{f.qname}:{dotted}", func=f, node=n, construct=f"unresolved-external:{dotted}",
                  msg=f"`{norm(n)}` does not exist in the installed {dotted.split('.')[0]} "
                      f"(AttributeError whenever this line runs)", path=path)
    if not bad:
        ctx.ok("F8a", f"{label}: {n_sites} external attribute sites in {len(funcs)} reachable functions resolve")
    return bad


# ------------------------------------------------------------------------ F7a

def rule_F7a(ctx, funcs: Iterable[FuncInfo]):
    ctx.rule("F7a", "no local variable is read where it is unassigned on every path from the function entry")
    for f in funcs:
        ctx.touch(f)
        cfg = world(ctx).inf.cfg(f)
        hits = definitely_unassigned_loads(cfg, local_names(f.node), set(f.all_params))
        names = {}
        for n, name in hits:
            names.setdefault(name.id, name)
        if not names:
            ctx.ok("F7a", f"{f.qname}: every local is assigned on some path before each read")
        for nm, node in names.items():
            ctx.check(False, "F7a", f"{f.qname}:{nm}", func=f, node=node, construct=f"definitely-unbound:{nm}",
                      msg=f"local `{nm}` is read at line {node.lineno} but no assignment reaches it on any path "
                          f"(UnboundLocalError whenever this branch runs)")


# ------------------------------------------------------------------------ F7b

def no_effect_statements(f: FuncInfo):
    for n in own_nodes(f.node):
        if isinstance(n, ast.Expr) and not isinstance(n.value, (ast.Constant, ast.Call, ast.Await, ast.Yield, ast.YieldFrom)):
            has_call = any(isinstance(x, (ast.Call, ast.Await, ast.Yield, ast.YieldFrom, ast.NamedExpr)) for x in ast.walk(n.value))
            if not has_call:
                yield n


# ------------------------------------------------------------------------ F7c

def loop_var_after_loop(f: FuncInfo):
    """(loop, name, use) for loop targets read after a loop without `break`, where the
    name is not reassigned between the loop and the use."""
    out = []
    body_lists = []

    def collect(stmts):
        body_lists.append(stmts)
        for s in stmts:
            for fld in ("body", "orelse", "finalbody"):
                b = getattr(s, fld, None)
                if b and not isinstance(s, (ast.FunctionDef, ast.AsyncFunctionDef, ast.ClassDef)):
                    collect(b)
            for h in getattr(s, "handlers", []) or []:
                collect(h.body)

    collect(f.node.body)
    for stmts in body_lists:
        for i, s in enumerate(stmts):
            if not isinstance(s, ast.For):
                continue
            has_break = any(isinstance(x, ast.Break) for b in s.body for x in ast.walk(b))
            if has_break:
                continue
            targets = {n.id for n in ast.walk(s.target) if isinstance(n, ast.Name)}
            live = set(targets)
            for later in stmts[i + 1:]:
                if not live:
                    break
                # uses in this statement (before any rebinding inside it)
                stores = set()
                for x in ast.walk(later):
                    if isinstance(x, ast.Name) and isinstance(x.ctx, ast.Store):
                        stores.add(x.id)
                if isinstance(later, ast.For):
                    # the iterable is evaluated first
                    for x in ast.walk(later.iter):
                        if isinstance(x, ast.Name) and isinstance(x.ctx, ast.Load) and x.id in live:
                            out.append((s, x.id, x))
                    # names that the later loop never rebinds are still the stale value inside its body
                    for b in later.body + later.orelse:
                        for x in ast.walk(b):
                            if isinstance(x, ast.Name) and isinstance(x.ctx, ast.Load) and x.id in live and x.id not in stores:
                                out.append((s, x.id, x))
                    live -= stores
                    continue
                for x in ast.walk(later):
                    if isinstance(x, ast.Name) and isinstance(x.ctx, ast.Load) and x.id in live and x.id not in stores:
                        out.append((s, x.id, x))
                live -= stores
    return out


# ------------------------------------------------------------------------ F7e

def unused_parameters(f: FuncInfo) -> List[str]:
    body = f.node.body
    # stubs
    real = [s for s in body if not (isinstance(s, ast.Expr) and isinstance(s.value, ast.Constant))]
    if not real or all(isinstance(s, (ast.Pass, ast.Raise)) for s in real):
        return []
    # a function whose straight-line body ends in `raise` (not implemented / not allowed) takes its parameters for the signature only
    if isinstance(real[-1], ast.Raise) and not any(isinstance(x, (ast.Return, ast.Yield, ast.YieldFrom)) for x in ast.walk(f.node)):
        return []
    used = {n.id for n in ast.walk(f.node) if isinstance(n, ast.Name) and isinstance(n.ctx, (ast.Load, ast.Del))}
    # locals()/vars() would use everything
    if any(isinstance(n, ast.Call) and isinstance(n.func, ast.Name) and n.func.id in ("locals", "vars") for n in ast.walk(f.node)):
        return []
    out = []
    for p in f.all_params:
        if p in ("self", "cls") or p.startswith("_"):
            continue
        a = f.node.args
        if (a.vararg and a.vararg.arg == p) or (a.kwarg and a.kwarg.arg == p):
            continue
        if p not in used:
            out.append(p)
    return out


# ------------------------------------------------------------------------ F7g

def except_or_sites(f: FuncInfo):
    for n in own_nodes(f.node):
        if isinstance(n, ast.ExceptHandler) and isinstance(n.type, ast.BoolOp):
            yield n


# ------------------------------------------------------------------------ F7i

def boolop_over_displays(f: FuncInfo):
    for n in own_nodes(f.node):
        if isinstance(n, ast.BoolOp) and all(isinstance(v, (ast.List, ast.Tuple, ast.Set, ast.Dict, ast.ListComp)) for v in n.values):
            yield n


# ------------------------------------------------------------------------ F4d

def _decorator_aliases(f: FuncInfo) -> Dict[str, str]:
    """deprecated_alias(old=new) / deprecated_parameter('x') add accepted keywords."""
    out = {}
    for d in getattr(f.node, "decorator_list", []):
        if isinstance(d, ast.Call) and norm(d.func).endswith("deprecated_alias"):
            for k in d.keywords:
                if k.arg and isinstance(k.value, ast.Constant):
                    out[k.arg] = k.value.value
        if isinstance(d, ast.Call) and norm(d.func).endswith("deprecated_parameter"):
            for a in d.args:
                if isinstance(a, ast.Constant):
                    out[a.value] = None
    return out


def call_conformance(ctx, f: FuncInfo, call: ast.Call):
    """Check one call against its (uniquely resolved, non-weak) repo callee.
    Returns list of (kind, detail) problems; [] if fine or not resolvable."""
    w = world(ctx)
    tg = w.inf.callee(f, call)
    if len(tg) != 1 or tg[0][0] not in ("func", "ctor"):
        return None
    kind, g, recv = tg[0]
    if kind == "ctor":
        ci = g
        g = ci.lookup("__init__")
        if g is None:
            return None
        skip = 1
    else:
        skip = 0
        if g.cls is not None and not g.is_static:
            if recv is not None or g.is_classmethod:
                skip = 1
            else:
                # unbound access Class.method(obj, ...) -> no skipping
                skip = 0
    a = g.node.args
    # decorated callee with unknown decorators: skip (wrappers may change the signature)
    decos = g.decorators
    known = {"property", "staticmethod", "classmethod", "deprecated_alias", "deprecated_parameter"}
    if any(d.split(".")[-1] not in known for d in decos):
        return None
    pos = [x.arg for x in a.posonlyargs + a.args][skip:]
    kwonly = [x.arg for x in a.kwonlyargs]
    n_defaults = len(a.defaults)
    required_pos = pos[: len(pos) - n_defaults] if n_defaults <= len(pos) else []
    required_kw = [x.arg for x, d in zip(a.kwonlyargs, a.kw_defaults) if d is None]
    aliases = _decorator_aliases(g)
    problems = []
    if any(isinstance(x, ast.Starred) for x in call.args) or any(k.arg is None for k in call.keywords):
        star = True
    else:
        star = False
    npos = len([x for x in call.args if not isinstance(x, ast.Starred)])
    if npos > len(pos) and a.vararg is None:
        problems.append(("too-many-positionals", f"{npos} positional arguments, callee takes {len(pos)}"))
    given = set(pos[:npos])
    for k in call.keywords:
        if k.arg is None:
            continue
        name = k.arg
        if name in aliases:
            name = aliases[name] or name
            given.add(name)
            continue
        if name in pos or name in kwonly:
            if name in given and name in pos[:npos]:
                problems.append(("duplicate-argument", f"`{name}` given positionally and by keyword"))
            given.add(name)
        elif a.kwarg is None:
            problems.append(("unknown-keyword", f"`{name}=` is not a parameter of {g.qname.split(':')[1]}"
                                                f"({', '.join(pos + kwonly)})"))
    if not star:
        for r in required_pos:
            if r not in given:
                problems.append(("missing-argument", f"required parameter `{r}` of {g.qname.split(':')[1]} is not passed"))
        for r in required_kw:
            if r not in given:
                problems.append(("missing-argument", f"required keyword-only parameter `{r}` is not passed"))
    return g, problems


def rule_F4d(ctx, funcs: Iterable[FuncInfo], label: str, floor: int = 1):
    ctx.rule("F4d", "every call resolved to a repo function/method passes only parameters the callee accepts, "
                    "no more positionals than it takes, and all required ones (deprecated_alias/parameter modelled)")
    n = 0
    for f in funcs:
        ctx.touch(f)
        for c in own_nodes(f.node):
            if not isinstance(c, ast.Call):
                continue
            r = call_conformance(ctx, f, c)
            if r is None:
                continue
            g, problems = r
            n += 1
            if not problems:
                ctx.ok("F4d", f"{f.qname}:{c.lineno}->{g.qname.split(':')[1]}")
            for kind, detail in problems:
                tag = detail.split("`")[1] if "`" in detail else kind
                ctx.check(False, "F4d", f"{f.qname}->{g.qname.split(':')[1]}:{kind}", func=f, node=c,
                          construct=f"{kind}:{g.qname.split(':')[1]}:{tag}",
                          msg=f"call `{norm(c)[:80]}`: {detail} (TypeError on every execution of this call)")
    ctx.floor("F4d", f"{label}: resolved repo call sites", n, floor)


# ------------------------------------------------------------------------ F8b rank

def rank_of(expr, env: Dict[str, int]) -> Optional[int]:
    """0: scalar, 1: array of rank>=1, None: unknown."""
    if isinstance(expr, ast.Name):
        return env.get(expr.id)
    if isinstance(expr, ast.Constant):
        return 0 if isinstance(expr.value, (int, float)) else None
    if isinstance(expr, ast.Subscript):
        base = expr.value
        # np.where(cond)[0] -> rank 1 index array
        if isinstance(base, ast.Call) and norm(base.func) in ("np.where", "numpy.where", "np.nonzero") and len(base.args) == 1 \
                and isinstance(expr.slice, ast.Constant) and isinstance(expr.slice.value, int):
            return 1
        rb = rank_of(base, env)
        if rb == 1:
            sl = expr.slice
            if isinstance(sl, ast.Constant) and isinstance(sl.value, int):
                return None  # could be rank-2; unknown
            if isinstance(sl, (ast.Compare, ast.Slice)):
                return 1
            rs = rank_of(sl, env)
            if rs == 1:
                return 1
        return None
    if isinstance(expr, ast.BinOp):
        l, r = rank_of(expr.left, env), rank_of(expr.right, env)
        if l == 1 or r == 1:
            return 1
        if l == 0 and r == 0:
            return 0
        return None
    if isinstance(expr, ast.Call):
        fn = norm(expr.func)
        if fn in ("np.unique", "np.argsort", "np.arange", "np.nonzero", "np.flatnonzero", "np.sort", "np.diff", "np.cumsum"):
            return 1
        if fn in ("np.mean", "np.max", "np.min", "np.sum", "len", "int", "float") or fn.endswith(".item") \
                or fn.endswith(".max") or fn.endswith(".min") or fn.endswith(".sum") or fn.endswith(".mean"):
            if any(k.arg == "axis" for k in expr.keywords):
                return None
            return 0
        return None
    return None


def scalar_conversion_of_array(f: FuncInfo):
    """int(v)/float(v) where, on some CFG path, v is definitely an array of rank >= 1
    (TypeError under numpy >= 2).  Forward dataflow over the statement CFG; the value per
    name is the set of ranks it may have ({0}, {1}, {None}=unknown, unions at joins); a
    conversion is reported when 1 is among the ranks reaching it."""
    from ..core.cfg import CFG, stores_of
    cfg = CFG(f.node)
    IN = {n.id: None for n in cfg.nodes}
    IN[cfg.entry.id] = {}
    work = [cfg.entry]

    def rank_set(expr, env):
        # evaluate with every combination collapsed: a name contributes 1 if 1 is possible
        env1 = {k: (1 if 1 in v else (0 if v == {0} else None)) for k, v in env.items()}
        return rank_of(expr, {k: v for k, v in env1.items() if v is not None})

    def transfer(n, env):
        a = n.ast
        if n.kind == "stmt" and isinstance(a, ast.Assign):
            r = rank_set(a.value, env)
            env2 = dict(env)
            for t in a.targets:
                for x in ast.walk(t):
                    if isinstance(x, ast.Name) and isinstance(x.ctx, ast.Store):
                        env2.pop(x.id, None)
                if isinstance(t, ast.Name):
                    env2[t.id] = {r}
            return env2
        st = stores_of(n)
        if st:
            env2 = dict(env)
            for nm in st:
                env2[nm] = {None}
            return env2
        return env

    steps = 0
    while work and steps < 5000:
        steps += 1
        n = work.pop()
        env = IN[n.id]
        out = transfer(n, env)
        for m, l in n.succ:
            old = IN[m.id]
            if old is None:
                IN[m.id] = out
                work.append(m)
            else:
                merged = dict(old)
                ch = False
                for k in set(old) | set(out):
                    v = old.get(k, {None}) | out.get(k, {None})
                    if v != old.get(k):
                        merged[k] = v
                        ch = True
                if ch:
                    IN[m.id] = merged
                    work.append(m)
    hits = []
    for n in cfg.nodes:
        env = IN[n.id]
        if env is None or n.ast is None or n.kind not in ("stmt", "test", "for"):
            continue
        root = n.ast.iter if n.kind == "for" else n.ast
        for c in ast.walk(root):
            if isinstance(c, (ast.FunctionDef, ast.Lambda)):
                continue
            if isinstance(c, ast.Call) and isinstance(c.func, ast.Name) and c.func.id in ("int", "float") and len(c.args) == 1:
                if rank_set(c.args[0], env) == 1:
                    hits.append(c)
    return hits


# ------------------------------------------------------------------------ F4e

def narrowed_missing_attributes(ctx, f: FuncInfo):
    """(node, var, attr, classes) for attribute reads `x.a` inside `if isinstance(x, C)` where no
    class of C (nor any subclass) defines `a` in any way."""
    inf = world(ctx).inf
    prog = ctx.prog
    out = []
    for n in own_nodes(f.node):
        if not isinstance(n, ast.If):
            continue
        t = n.test
        if not (isinstance(t, ast.Call) and isinstance(t.func, ast.Name) and t.func.id == "isinstance" and len(t.args) == 2
                and isinstance(t.args[0], ast.Name)):
            continue
        var = t.args[0].id
        elts = t.args[1].elts if isinstance(t.args[1], ast.Tuple) else [t.args[1]]
        classes = []
        for e in elts:
            r = prog.resolve_expr(f.module, e)
            if r and r[0] == "class":
                classes.append(r[1])
            else:
                classes = None
                break
        if not classes:
            continue
        # stop at the first rebinding of var in the body
        rebound = False
        for s in n.body:
            for x in ast.walk(s):
                if isinstance(x, ast.Name) and x.id == var and isinstance(x.ctx, ast.Store):
                    rebound = True
            if rebound:
                break
            for x in ast.walk(s):
                if isinstance(x, ast.Attribute) and isinstance(x.value, ast.Name) and x.value.id == var \
                        and isinstance(x.ctx, ast.Load):
                    missing = []
                    for c in classes:
                        if any(isinstance(b, str) for cc in c.mro for b in cc.bases if b not in ("object",)):
                            missing = []
                            break  # external base: attributes unknown
                        fam = [c] + c.all_subclasses()
                        if any(_dynamic_attrs(k2) for k in fam for k2 in k.mro):
                            missing = []
                            break  # setattr(self, name, ..)/__getattr__: attributes not enumerable
                        if not any(inf._has_attr(k, x.attr) for k in fam):
                            missing.append(c)
                    if missing and len(missing) == len(classes):
                        out.append((x, var, x.attr, classes))
    return out


def _dynamic_attrs(ci) -> bool:
    for ms in ci.all_methods.values():
        for m in ms:
            if m.name in ("__getattr__", "__getattribute__"):
                return True
            for n in own_nodes(m.node):
                if isinstance(n, ast.Call) and isinstance(n.func, ast.Name) and n.func.id == "setattr" and len(n.args) >= 2:
                    # re-assigning an attribute that is read from the same object first is not creation
                    obj, name = norm(n.args[0]), norm(n.args[1])
                    reads = any(isinstance(g, ast.Call) and isinstance(g.func, ast.Name) and g.func.id == "getattr"
                                and len(g.args) >= 2 and norm(g.args[0]) == obj and norm(g.args[1]) == name
                                for g in own_nodes(m.node))
                    if not reads:
                        return True
                if isinstance(n, ast.Attribute) and n.attr == "__dict__" and isinstance(n.ctx, ast.Load) \
                        and isinstance(getattr(n, "_parent", None), ast.Attribute) and n._parent.attr == "update":
                    return True
    return False


def rule_F4e(ctx, funcs: Iterable[FuncInfo], label: str):
    ctx.rule("F4e", "inside a branch guarded by isinstance(x, C) with C a repo class, every attribute read x.a is defined "
                    "somewhere in C's hierarchy (instance attribute assigned in a method, class attribute, property or method)")
    n = 0
    for f in funcs:
        ctx.touch(f)
        hits = narrowed_missing_attributes(ctx, f)
        n += 1
        for node, var, attr, classes in hits:
            cn = "/".join(c.name for c in classes)
            ctx.check(False, "F4e", f"{f.qname}:{var}.{attr}", func=f, node=node, construct=f"no-such-attribute:{cn}.{attr}",
                      msg=f"`{var}.{attr}` is read under isinstance({var}, {cn}) but no class in that hierarchy defines "
                          f"`{attr}` (AttributeError whenever this branch runs)")
    ctx.ok("F4e", f"{label}: {n} functions scanned")


# --------------------------------------------------------------------------- F11
# truthiness of a quantity for which 0 is a valid value

ZERO_VALID_ATTRS = {
    "number": "a measure / ending number (bar 0 is a numbered pickup bar)",
    "t": "a time point position (0 is the start of the timeline)",
    "fifths": "a key signature (0 = C major / a minor)",
    "octave": "an octave (octave 0 exists: MIDI 12..23)",
    "midi_pitch": "a MIDI pitch (0 is a valid pitch)",
}
ZERO_VALID_KEYS = {
    "track": "a MIDI track number", "channel": "a MIDI channel", "pitch": "a MIDI pitch", "midi_pitch": "a MIDI pitch",
    "time": "a time in seconds (0 = start)", "time_tick": "a time in ticks", "note_on": "an onset in seconds", "note_off": "an offset in seconds",
    "note_on_tick": "an onset in ticks", "note_off_tick": "an offset in ticks", "onset_div": "an onset", "onset_beat": "an onset",
    "onset_quarter": "an onset", "onset_sec": "an onset", "number": "a controller / measure number", "value": "a controller value",
}

ZERO_VALID_GETATTR = {"Measure": "a measure number of a match line (measure 0 is the upbeat measure)", "measure": "a measure number",
                      "number": "a measure / ending number", "fifths": "a key signature", "Bar": "a measure number", "octave": "an octave"}

_F11_POSITIVE = """
def f(m, c, prev):
    a = m.number or prev
    if not c["track"]:
        pass
    b = 1 if c.get("channel") else 2
    d = [x for x in m if x.start.t]
    while m.fifths and a:
        pass
"""


def _truth_operands(fnode):
    """expressions whose truth value is taken (if/while/ifexp tests, operands of and/or/not, comprehension filters)"""
    def leaves(t):
        while isinstance(t, ast.UnaryOp) and isinstance(t.op, ast.Not):
            t = t.operand
        if isinstance(t, ast.BoolOp):
            for v in t.values:
                yield from leaves(v)
        else:
            yield t
    for n in own_nodes(fnode):
        if isinstance(n, (ast.If, ast.While, ast.IfExp)):
            yield from ((x, n) for x in leaves(n.test))
        elif isinstance(n, ast.BoolOp) and not isinstance(getattr(n, "_parent", None), (ast.If, ast.While, ast.BoolOp)) \
                and not (isinstance(getattr(n, "_parent", None), ast.IfExp) and n._parent.test is n) \
                and not (isinstance(getattr(n, "_parent", None), ast.UnaryOp)):
            vals = n.values[:-1]  # the last operand of a value-level and/or is returned, not tested
            for v in vals:
                yield from ((x, n) for x in leaves(v))
        elif isinstance(n, ast.UnaryOp) and isinstance(n.op, ast.Not) and not isinstance(getattr(n, "_parent", None), (ast.If, ast.While, ast.BoolOp, ast.UnaryOp)):
            yield from ((x, n) for x in leaves(n.operand))
        elif isinstance(n, ast.comprehension):
            for i in n.ifs:
                yield from ((x, n) for x in leaves(i))


def zero_valid_truth_tests(fnode):
    for e, ctxnode in _truth_operands(fnode):
        if isinstance(e, ast.Attribute) and e.attr in ZERO_VALID_ATTRS:
            yield e, ZERO_VALID_ATTRS[e.attr]
        elif isinstance(e, ast.Subscript) and isinstance(e.slice, ast.Constant) and e.slice.value in ZERO_VALID_KEYS:
            yield e, ZERO_VALID_KEYS[e.slice.value]
        elif isinstance(e, ast.Call) and isinstance(e.func, ast.Attribute) and e.func.attr == "get" and e.args \
                and isinstance(e.args[0], ast.Constant) and e.args[0].value in ZERO_VALID_KEYS \
                and (len(e.args) == 1 or (isinstance(e.args[1], ast.Constant) and not e.args[1].value)):
            yield e, ZERO_VALID_KEYS[e.args[0].value]
        elif isinstance(e, ast.Call) and isinstance(e.func, ast.Name) and e.func.id == "getattr" and len(e.args) >= 2 \
                and isinstance(e.args[1], ast.Constant) and e.args[1].value in ZERO_VALID_GETATTR:
            yield e, ZERO_VALID_GETATTR[e.args[1].value]


def _funcs_of(ctx, scope):
    """scope: list of module names, or list of FuncInfo"""
    out = []
    for x in scope:
        if isinstance(x, str):
            out.extend(ctx.prog.functions_in(x))
        else:
            out.append(x)
    return out


def rule_F11(ctx, modnames, label):
    rule = "F11"
    ctx.rule(rule, "no truth test (if / while / and / or / not / conditional expression / comprehension filter) of a quantity for which "
                   "0 is a valid value (measure number, time point, fifths, octave, MIDI pitch, track, channel, times): such a test treats "
                   "the valid value 0 like a missing one; `is None` is the test for missing")
    # the matcher must recognise the idioms (rule whose expected count on the tree is zero: positive example on every run)
    import ast as _ast
    t = _ast.parse(_F11_POSITIVE)
    for p in _ast.walk(t):
        for c in _ast.iter_child_nodes(p):
            c._parent = p
    pos = list(zero_valid_truth_tests(t.body[0]))
    if len(pos) != 5:
        raise AnalysisError(rule, "positive-example", f"the matcher recognises {len(pos)}/5 idioms of its own positive example")
    n = 0
    for f in _funcs_of(ctx, modnames):
        n += 1
        for e, what in zero_valid_truth_tests(f.node):
            ctx.fail(rule, f"{f.qname}: `{norm(e)}`", f.qname, f"truthiness-of-zero-valid:{norm(e)[:40]}", f.module.relpath, e.lineno,
                     f"`{norm(e)}` is {what}: 0 is a valid value, but this test treats it like None/absent")
    ctx.ok(rule, f"{label}: {n} functions, no truth test of a zero-valid quantity")


# --------------------------------------------------------------------------- ZIP-PAR
# operands of zip() that are derived from one another must be element-for-element parallel

def _seq_domain(e, defs, depth=0):
    """(root text, ops) of a sequence expression: the sequence it runs parallel to and the cardinality-changing
    operations (filter, distinct) applied on the way; root None = unknown."""
    if depth > 16:
        return None, ()
    if isinstance(e, ast.Name):
        ds = defs.get(e.id, [])
        if len(ds) == 1:
            r, ops = _seq_domain(ds[0], defs, depth + 1)
            if r is not None:
                return r, ops
        return e.id, ()
    if isinstance(e, (ast.ListComp, ast.GeneratorExp)) and len(e.generators) == 1:
        g = e.generators[0]
        src = g.iter
        if isinstance(src, ast.Call) and norm(src.func) == "enumerate" and src.args:
            src = src.args[0]
        r, ops = _seq_domain(src, defs, depth + 1)
        if g.ifs:
            ops = ops + (("filter", " and ".join(norm(i) for i in g.ifs)),)
        return r, ops
    if isinstance(e, ast.Call):
        fn = norm(e.func)
        if fn in ("list", "tuple", "np.array", "np.asarray", "iter", "reversed") and e.args:
            r, ops = _seq_domain(e.args[0], defs, depth + 1)
            return r, ops + ((("reversed", ""),) if fn == "reversed" else ())
        if fn in ("np.unique", "set", "frozenset", "sorted", "np.sort") and e.args:
            r, ops = _seq_domain(e.args[0], defs, depth + 1)
            kind = "distinct" if fn in ("np.unique", "set", "frozenset") else "sorted"
            return r, ops + ((kind, ""),)
    if isinstance(e, ast.Attribute) or isinstance(e, ast.Subscript):
        return norm(e), ()
    return None, ()


def zip_parallel_sites(f):
    from .extra import local_defs
    defs = local_defs(f)
    for c in own_nodes(f.node):
        if isinstance(c, ast.Call) and isinstance(c.func, ast.Name) and c.func.id == "zip" and len(c.args) >= 2:
            doms = [(_seq_domain(a, defs), a) for a in c.args]
            yield c, doms


def rule_zip_parallel(ctx, modnames, label, floor=1):
    rule = "ZIP-PAR"
    ctx.rule(rule, "operands of zip() that derive from the same sequence are element-for-element parallel: none of them went through "
                   "a filter, a de-duplication or a re-ordering the other did not go through (zip silently truncates / mis-pairs otherwise)")
    n = k = 0
    for f in _funcs_of(ctx, modnames):
        for c, doms in zip_parallel_sites(f):
            n += 1
            for i in range(len(doms)):
                for j in range(i + 1, len(doms)):
                    (r1, o1), a1 = doms[i]
                    (r2, o2), a2 = doms[j]
                    if r1 is None or r1 != r2:
                        continue
                    k += 1
                    card = lambda ops: tuple(o for o in ops if o[0] in ("filter", "distinct", "sorted", "reversed"))
                    ctx.check(card(o1) == card(o2), rule, f"{f.qname}: zip({norm(a1)[:25]}, {norm(a2)[:25]})", func=f, node=c,
                              construct=f"zip-not-parallel:{f.name}:{'/'.join(o[0] for o in card(o1)) or 'as-is'}-vs-{'/'.join(o[0] for o in card(o2)) or 'as-is'}",
                              msg=f"`{norm(c)[:70]}`: both operands run over `{r1}`, but `{norm(a1)[:30]}` is {['taken as is', 'passed through ' + ', '.join(o[0] + (' `' + o[1] + '`' if o[1] else '') for o in card(o1))][bool(card(o1))]} while "
                                  f"`{norm(a2)[:30]}` is {['taken as is', 'passed through ' + ', '.join(o[0] + (' `' + o[1] + '`' if o[1] else '') for o in card(o2))][bool(card(o2))]}: the pairs no longer belong together")
    if floor:
        ctx.floor(rule, f"{label}: zip() sites with related operands", k, floor)
    else:
        ctx.ok(rule, f"{label}: {n} zip() call(s), {k} with related operands")
    ctx.extra.setdefault("zip_sites", {})[label] = {"zip_calls": n, "related_pairs": k}


# --------------------------------------------------------------------------- ITER-MUT
# structural modification of the sequence a for-loop is iterating over

_SEQ_MUTATORS = ("remove", "pop", "insert", "append", "extend", "clear", "sort", "reverse", "add", "discard", "update", "popitem")

_ITERMUT_POSITIVE = """
def f(lines, d):
    for l in lines:
        if l:
            lines.remove(l)
    for k in d:
        del d[k]
    for l in list(lines):
        lines.remove(l)
    for l in lines:
        if l:
            lines.remove(l)
            break
"""


def _leaves_loop_after(stmt, loop) -> bool:
    """the statement is followed, in its own block, by break / return / raise (the iterator is not advanced again)"""
    p = getattr(stmt, "_parent", None)
    while p is not None:
        for fld in ("body", "orelse", "finalbody"):
            blk = getattr(p, fld, None)
            if isinstance(blk, list) and any(stmt is s for s in blk):
                i = next(k for k, s in enumerate(blk) if s is stmt)
                if any(isinstance(s, (ast.Break, ast.Return, ast.Raise)) for s in blk[i + 1:]):
                    return True
        if p is loop:
            return False
        stmt, p = p, getattr(p, "_parent", None)
    return False


def iteration_mutations(fnode):
    for lp in own_nodes(fnode):
        if not isinstance(lp, ast.For):
            continue
        it = lp.iter
        if isinstance(it, ast.Call) and isinstance(it.func, ast.Name) and it.func.id == "enumerate" and it.args:
            it = it.args[0]
        if isinstance(it, ast.Call) and isinstance(it.func, ast.Attribute) and it.func.attr in ("items", "keys", "values") and not it.args:
            it = it.func.value
        if not isinstance(it, (ast.Name, ast.Attribute)):
            continue
        seq = norm(it)
        for b in lp.body:
            for n in ast.walk(b):
                stmt = None
                if isinstance(n, ast.Call) and isinstance(n.func, ast.Attribute) and n.func.attr in _SEQ_MUTATORS and norm(n.func.value) == seq:
                    stmt = n
                elif isinstance(n, ast.Delete) and any(isinstance(t, ast.Subscript) and norm(t.value) == seq for t in n.targets):
                    stmt = n
                if stmt is None:
                    continue
                s = stmt
                while not isinstance(s, ast.stmt):
                    s = s._parent
                if _leaves_loop_after(s, lp):
                    continue
                # rebinding the name inside the loop before the mutation makes it another object: not handled -> skip
                yield lp, stmt, seq


def rule_iteration_mutation(ctx, modnames, label):
    rule = "ITER-MUT"
    ctx.rule(rule, "no structural modification (remove / pop / insert / append / del ...) of the very sequence a for-loop iterates over "
                   "unless the loop is left right after it: the iterator skips or repeats elements otherwise")
    t = ast.parse(_ITERMUT_POSITIVE)
    for p in ast.walk(t):
        for c in ast.iter_child_nodes(p):
            c._parent = p
    pos = list(iteration_mutations(t.body[0]))
    if len(pos) != 2:
        raise AnalysisError(rule, "positive-example", f"the matcher recognises {len(pos)}/2 idioms of its own positive example")
    n = 0
    for f in _funcs_of(ctx, modnames):
        n += 1
        for lp, stmt, seq in iteration_mutations(f.node):
            ctx.fail(rule, f"{f.qname}: `{norm(stmt)[:40]}` inside `for .. in {seq}`", f.qname, f"mutates-iterated:{seq[:30]}", f.module.relpath, stmt.lineno,
                     f"`{norm(stmt)[:60]}` changes `{seq}` while `for {norm(lp.target)} in {norm(lp.iter)[:30]}` is iterating over it: after a removal the iterator "
                     f"skips the next element (two adjacent candidates: the second survives)")
    ctx.ok(rule, f"{label}: {n} functions, no loop modifies the sequence it iterates over")


NO_HYGIENE = {"C20": "C20 is about purity (no mutation of arguments); functional slips in the same functions are the business of the property they compute for"}


def rule_hygiene(ctx):
    """Generic rules with an expected count of zero, applied to exactly the functions the property's own rules analysed
    (ctx.functions_analysed): a defect elsewhere in the same file is another property's business."""
    if ctx.prop in NO_HYGIENE:
        return
    anchored = anchor_functions(ctx)
    if len(anchored) < 3:
        raise AnalysisError("HYGIENE", ctx.prop, f"only {len(anchored)} of the functions named in the property's anchors were found")
    ctx.touch(*anchored)
    ctx.extra["anchor_functions_found"] = len(anchored)
    # scope: exactly the functions the property is anchored in. A defect in a function that is merely reachable from them
    # is the business of the property that anchors *that* function; this keeps a check quiet when another property breaks.
    fs = sorted(set(anchored), key=lambda f: f.qname)
    label = f"{len(fs)} anchored functions of {ctx.prop}"
    rule_F11(ctx, fs, label)
    rule_iteration_mutation(ctx, fs, label)
    rule_zip_parallel(ctx, fs, label, floor=0)
    rule_carry(ctx, fs, label)
    rule_params_used(ctx, fs, label)
    rule_loopvar_after_loop(ctx, fs, label)
    rule_setdefault_drop(ctx, fs, label)
    rule_dead_stores(ctx, fs, label)
    rule_global_row_leak(ctx, fs, label)
    rule_unit_pairs(ctx, fs, label)
    rule_dead_keys(ctx, fs, label)
    rule_abs_before_modulo(ctx, fs, label)


# --------------------------------------------------------------------------- CARRY
# state carried from one loop round to the next

_CARRY_POSITIVE = """
def f(xs, tick):
    last = 0
    out = []
    for a, b in xs:
        if a is None:
            continue
        out.append(a - last)
        last = a + b
    prev = 0
    for t, v in xs:
        if tick < t:
            break
        out.append(prev)
        prev = v
    return out, v
"""


def carry_sites(f_or_node, cfg):
    """(loop, carry statement, name): top-level statements `name = <expression over the loop variables>` of a for-loop body
    whose previous-round value is *read* in the loop: some path from the loop head reaches a read of `name` without passing
    an assignment to it."""
    from ..core.cfg import loads_of, stores_of
    fnode = getattr(f_or_node, "node", f_or_node)
    for lp in own_nodes(fnode):
        if not isinstance(lp, ast.For):
            continue
        tv = {n.id for n in ast.walk(lp.target) if isinstance(n, ast.Name)}
        head = cfg.node_of(lp)
        if head is None:
            continue
        inloop = {id(x) for b in lp.body for x in ast.walk(b)}
        for s in lp.body:
            if isinstance(s, ast.Assign) and len(s.targets) == 1 and isinstance(s.targets[0], ast.Name) and s.targets[0].id not in tv:
                names = {n.id for n in ast.walk(s.value) if isinstance(n, ast.Name) and isinstance(n.ctx, ast.Load)}
                calls = any(isinstance(n, ast.Call) for n in ast.walk(s.value))
                name = s.targets[0].id
                outer = set()
                q = getattr(lp, "_parent", None)
                while q is not None and q is not fnode:
                    if isinstance(q, ast.For):
                        outer |= {n.id for n in ast.walk(q.target) if isinstance(n, ast.Name)}
                    q = getattr(q, "_parent", None)
                if not (names and names <= tv | outer | {name} and names & tv and not calls):
                    continue
                # reads of the previous round's value
                seen, todo, carried = set(), [m for m, l in head.succ if l == "T"], False
                while todo and not carried:
                    n = todo.pop()
                    if n.id in seen or n is head or n.ast is None or id(n.ast) not in inloop:
                        continue
                    seen.add(n.id)
                    if any(x.id == name for x in loads_of(n)):
                        carried = True
                        break
                    if name in stores_of(n):
                        continue
                    todo.extend(m for m, l in n.succ if l != "exc")
                if carried:
                    yield lp, s, name


def rule_carry(ctx, scope, label):
    rule = "CARRY"
    ctx.rule(rule, "loop-carried state: a for-loop that keeps `name = <expression over its loop variables>` for the next round (and reads "
                   "`name` in the loop) executes that update on every path from one round to the next (no `continue` in front of it), and "
                   "if the loop can `break` before the update, the loop variables themselves are not read after the loop (the carried name "
                   "describes the last completed round)")
    from ..core.cfg import CFG
    t = ast.parse(_CARRY_POSITIVE)
    for p in ast.walk(t):
        for c in ast.iter_child_nodes(p):
            c._parent = p
    pos = list(_carry_violations(t.body[0], CFG(t.body[0])))
    if len(pos) != 2:
        raise AnalysisError(rule, "positive-example", f"the matcher recognises {len(pos)}/2 idioms of its own positive example")
    n = k = 0
    for f in _funcs_of(ctx, scope):
        sites = list(carry_sites(f, world(ctx).inf.cfg(f)))
        if not sites:
            continue
        n += 1
        k += len(sites)
        for kind, node, name, lp in _carry_violations(f.node, world(ctx).inf.cfg(f)):
            if kind == "skipped":
                ctx.fail(rule, f"{f.qname}: `{norm(node)[:40]}` every round", f.qname, f"carry-skipped:{f.name}", f.module.relpath, node.lineno,
                         f"some path through the loop at line {lp.lineno} reaches the next round without executing `{norm(node)[:50]}`: the next round "
                         f"works with the `{name}` of an earlier round")
            else:
                ctx.fail(rule, f"{f.qname}: `{name}` after the loop", f.qname, f"loop-variable-after-break:{f.name}", f.module.relpath, node.lineno,
                         f"`{name}` is the loop variable of the loop at line {lp.lineno}, which can `break` before its carried copy is updated: after the loop it "
                         f"holds the element the loop stopped *at*, not the last one it completed — the carried copy is the value in force")
    ctx.ok(rule, f"{label}: {k} carried update(s) in {n} function(s)")


def _carry_violations(fnode, cfg):
    for lp, s, name in carry_sites(fnode, cfg):
        head = cfg.node_of(lp)
        node = cfg.node_of(s)
        if head is None or node is None:
            continue

        class _S:
            pass
        st = _S()
        st.succ = [(m, l) for m, l in head.succ if l == "T"]
        if cfg.paths_avoiding(st, {node}, {head}):
            yield "skipped", s, name, lp
        # break before the carry: loop variables must not be read after the loop
        idx = lp.body.index(s)
        breaks_before = any(isinstance(x, ast.Break) for b in lp.body[:idx] for x in ast.walk(b))
        if breaks_before:
            tv = {n.id for n in ast.walk(lp.target) if isinstance(n, ast.Name)}
            carried_from = {n.id for n in ast.walk(s.value) if isinstance(n, ast.Name)} & tv
            p = getattr(lp, "_parent", None)
            for fld in ("body", "orelse", "finalbody"):
                blk = getattr(p, fld, None)
                if isinstance(blk, list) and any(lp is x for x in blk):
                    i = next(j for j, x in enumerate(blk) if x is lp)
                    live = set(carried_from)
                    for later in blk[i + 1:]:
                        for x in ast.walk(later):
                            if isinstance(x, ast.Name) and isinstance(x.ctx, ast.Load) and x.id in live:
                                yield "after-break", x, x.id, lp
                                live.discard(x.id)
                        live -= {x.id for x in ast.walk(later) if isinstance(x, ast.Name) and isinstance(x.ctx, ast.Store)}


def anchor_functions(ctx):
    """Functions named in the property's anchors (`where` of state / mechanism entries in properties.jsonl): the hygiene
    rules cover them even when no property-specific rule looks at them."""
    import json, os, re
    path = os.path.join(os.path.dirname(os.path.dirname(os.path.dirname(os.path.abspath(__file__)))), "properties.jsonl")
    out = []
    with open(path) as fh:
        for line in fh:
            d = json.loads(line)
            if d["id"] != ctx.prop:
                continue
            for kind in ("state", "mechanism"):
                for m in d["anchors"].get(kind, []):
                    for part in m["where"].split(";"):
                        if ":" not in part:
                            continue
                        file, names = part.split(":", 1)
                        mod = file.strip()[:-3].replace("/", ".")
                        if mod.endswith(".__init__"):
                            mod = mod[:-9]
                        names = re.sub(r"\([^)]*\)", "", names)
                        for nm in names.split(","):
                            nm = nm.strip()
                            if "*" in nm and re.fullmatch(r"[A-Za-z_*][\w.*]*", nm) and nm.strip("*."):
                                # a pattern in the anchor text (`*.from_instance`, `interpret_as_*`): every function it names
                                import fnmatch
                                for f in ctx.prog.functions_in(mod):
                                    short = f.qname.split(":")[1].split("#")[0]
                                    if fnmatch.fnmatchcase(short, nm) or fnmatch.fnmatchcase(short.split(".")[-1], nm):
                                        out.append(f)
                                continue
                            if not re.fullmatch(r"[A-Za-z_][\w.]*", nm):
                                continue
                            for f in ctx.prog.functions_in(mod):
                                short = f.qname.split(":")[1].split("#")[0]
                                if short == nm or short.endswith("." + nm) or short.startswith(nm + "."):
                                    out.append(f)
    return out


# --------------------------------------------------------------------------- PARAM-used
# an option that is accepted and silently ignored

# parameters that are unused on the pinned tree (signature compatibility / not yet implemented): confirmed by reading, frozen here.
# Keys are API names (function, parameter), not local names.
UNUSED_ON_PINNED_TREE = {
    ("partitura.io.exportmusicxml:do_note", "measure_end"), ("partitura.io.exportmusicxml:do_note", "part"),
    ("partitura.io.importkern:SplineParser.process_istrument_class_line", "line"),
    ("partitura.io.importkern:SplineParser.process_istrument_group_line", "line"),
    ("partitura.io.importkern:SplineParser.process_istrument_line", "line"),
    ("partitura.io.importkern:SplineParser.process_istrument_transpose_line", "line"),
    ("partitura.io.importkern:SplineParser.process_timebase_line", "line"),
    ("partitura.io.importmatch:parse_matchline", "debug"),
    ("partitura.musicanalysis.key_identification:format_key", "fifths"),
    ("partitura.musicanalysis.note_features:duration_feature", "part"),
    ("partitura.musicanalysis.note_features:metrical_strength_feature", "part"),
    ("partitura.musicanalysis.note_features:onset_feature", "part"),
    ("partitura.musicanalysis.note_features:polynomial_pitch_feature", "part"),
    ("partitura.musicanalysis.note_features:vertical_neighbor_feature", "part"),
    ("partitura.musicanalysis.voice_separation:VSNote.__init__", "velocity"),
}


def rule_params_used(ctx, scope, label):
    rule = "PARAM-used"
    ctx.rule(rule, "every parameter of an anchored function is read somewhere in its body (an option that is accepted but never "
                   "consulted is silently ignored); parameters unused on the pinned tree for signature compatibility are listed by name")
    n = k = 0
    for f in _funcs_of(ctx, scope):
        n += 1
        for p in unused_parameters(f):
            q = f.qname.split("#")[0]
            if (q, p) in UNUSED_ON_PINNED_TREE:
                k += 1
                continue
            ctx.fail(rule, f"{f.qname}({p})", f.qname, f"parameter-ignored:{p}", f.module.relpath, f.node.lineno,
                     f"parameter `{p}` of {f.qname.split(':')[1]} is never read: the option is accepted and silently ignored "
                     f"(a module-level constant or another variable was probably used in its place)")
    ctx.ok(rule, f"{label}: {n} functions, every parameter read ({k} listed signature-compatibility parameters)")


# --------------------------------------------------------------------------- round-4 hygiene rules

def rule_loopvar_after_loop(ctx, scope, label):
    rule = "F7c"
    ctx.rule(rule, "no read of a loop variable after its (break-free) loop, in particular not inside a *later* loop, where it silently "
                   "keeps the last value of the earlier one (copy-paste of a sibling loop)")
    n = 0
    for f in _funcs_of(ctx, scope):
        n += 1
        for lp, name, use in loop_var_after_loop(f):
            ctx.fail(rule, f"{f.qname}: `{name}` after its loop", f.qname, f"stale-loop-variable:{f.name}", f.module.relpath, use.lineno,
                     f"`{name}` is the loop variable of the loop at line {lp.lineno} and is read again at line {use.lineno}, after that loop has finished: it "
                     f"holds the last element of the earlier loop, whatever the current context is")
    ctx.ok(rule, f"{label}: {n} functions, no stale loop variable")


def rule_setdefault_drop(ctx, scope, label):
    rule = "SETDEFAULT"
    ctx.rule(rule, "`d.setdefault(k, <non-empty container display>)` as a statement only has an effect for the first k: inside a loop "
                   "every later element for the same key is dropped (an accumulation needs `.setdefault(k, set()).add(x)`)")
    n = 0
    for f in _funcs_of(ctx, scope):
        for s in own_nodes(f.node):
            if isinstance(s, ast.Expr) and isinstance(s.value, ast.Call) and isinstance(s.value.func, ast.Attribute) and s.value.func.attr == "setdefault" \
                    and len(s.value.args) == 2:
                n += 1
                d = s.value.args[1]
                filled = (isinstance(d, (ast.Set, ast.List, ast.Tuple)) and d.elts) or (isinstance(d, ast.Dict) and d.keys) or \
                    (isinstance(d, ast.Call) and norm(d.func) in ("set", "list", "dict") and d.args)
                in_loop = any(isinstance(p, (ast.For, ast.While)) for p in _ancestors(s, f.node))
                if filled and in_loop:
                    ctx.fail(rule, f"{f.qname}: `{norm(s)[:50]}`", f.qname, f"setdefault-drops-later-elements:{f.name}", f.module.relpath, s.lineno,
                             f"`{norm(s)[:70]}` keeps only the first element per key: every later one in the loop is silently dropped")
    ctx.ok(rule, f"{label}: {n} setdefault statement(s)")


def _ancestors(n, root):
    p = getattr(n, "_parent", None)
    while p is not None and p is not root:
        yield p
        p = getattr(p, "_parent", None)


def dead_stores(f: FuncInfo):
    """assignments `name = <non-constant expression>` to a local that is never read anywhere in the function"""
    if any(isinstance(x, ast.Call) and isinstance(x.func, ast.Name) and x.func.id in ("locals", "vars", "eval", "exec") for x in ast.walk(f.node)):
        return
    loads = {x.id for x in ast.walk(f.node) if isinstance(x, ast.Name) and isinstance(x.ctx, (ast.Load, ast.Del))}
    glob = {nm for x in ast.walk(f.node) if isinstance(x, (ast.Global, ast.Nonlocal)) for nm in x.names}
    for s in own_nodes(f.node):
        if isinstance(s, ast.Assign) and len(s.targets) == 1 and isinstance(s.targets[0], ast.Name) and not isinstance(s.value, ast.Constant):
            nm = s.targets[0].id
            if nm not in loads and nm not in glob and not nm.startswith("_"):
                yield s


# functions that already contain computed-but-unused locals on the pinned tree (function -> how many); confirmed by reading: leftovers
DEAD_STORES_ON_PINNED_TREE = {
    "partitura.io.exportmusicxml:do_directions": 2, "partitura.io.importkern:SplineParser.meta_barline_line": 2,
    "partitura.io.importmatch:load_matchfile": 1, "partitura.io.importmei:MeiParser._handle_space": 1,
    "partitura.io.importmusicxml:_handle_note": 1, "partitura.io.importmusicxml:parse_fingering": 1,
}


def rule_dead_stores(ctx, scope, label):
    rule = "DEAD-STORE"
    ctx.rule(rule, "no local is computed and then never read (the value that was meant to be used was probably replaced by another "
                   "variable further down); functions that contain such leftovers on the pinned tree are listed with their count")
    n = 0
    for f in _funcs_of(ctx, scope):
        n += 1
        ds = list(dead_stores(f))
        allowed = DEAD_STORES_ON_PINNED_TREE.get(f.qname.split("#")[0], 0)
        if len(ds) > allowed:
            s = ds[-1]
            ctx.fail(rule, f"{f.qname}: {len(ds)} unused computed local(s)", f.qname, f"computed-never-read:{f.name}", f.module.relpath, s.lineno,
                     f"{len(ds)} local(s) of {f.qname.split(':')[1]} are computed and never read (pinned tree: {allowed}), e.g. `{norm(s)[:60]}`: the value "
                     f"prepared here does not reach the place it was prepared for")
    ctx.ok(rule, f"{label}: {n} functions, no new computed-but-unread local")


def rule_global_row_leak(ctx, scope, label):
    rule = "GLOBAL-leak"
    ctx.rule(rule, "a function never hands out a row of a module-level table whose rows are mutable (dict / list) without copying it: "
                   "one caller editing its result would change the table for every later call")
    fo = world(ctx).folder
    n = 0
    for f in _funcs_of(ctx, scope):
        local = {x.id for x in ast.walk(f.node) if isinstance(x, ast.Name) and isinstance(x.ctx, ast.Store)} | set(f.all_params)
        for r in own_nodes(f.node):
            v = r.value if isinstance(r, (ast.Return, ast.Yield)) else None
            if not (isinstance(v, ast.Subscript) and isinstance(v.value, ast.Name) and v.value.id not in local):
                continue
            sym = ctx.prog.resolve_name(f.module, v.value.id)
            if not (sym and sym[0] == "const"):
                continue
            try:
                tab = fo.try_const(sym[1].name, sym[2])
            except Exception:
                tab = None
            if tab is None:
                continue
            n += 1
            rows = list(tab.values()) if isinstance(tab, dict) else (list(tab) if isinstance(tab, (list, tuple)) else [])
            mutable = any(isinstance(x, (dict, list, set)) for x in rows)
            ctx.check(not mutable, rule, f"{f.qname}: `{norm(r)[:40]}`", func=f, node=r, construct=f"table-row-returned-uncopied:{v.value.id}",
                      msg=f"`{norm(r)[:60]}` returns a row of the module-level table `{v.value.id}` itself (rows are mutable): a caller that edits the result "
                          f"corrupts the table for the rest of the process — return a copy")
    ctx.ok(rule, f"{label}: {n} table row(s) returned, none mutable")


def rule_unit_pairs(ctx, scope, label):
    rule = "UNIT-pair"
    ctx.rule(rule, "every literal pair ('onset_<u>', 'duration_<v>') names the same time unit")
    n = 0
    for f in _funcs_of(ctx, scope):
        for t in ast.walk(f.node):
            if isinstance(t, (ast.Tuple, ast.List)) and len(t.elts) == 2 and all(isinstance(e, ast.Constant) and isinstance(e.value, str) for e in t.elts):
                a, b = t.elts[0].value, t.elts[1].value
                if a.startswith("onset_") and b.startswith("duration_"):
                    n += 1
                    ctx.check(a[6:] == b[9:], rule, f"{f.qname}: ({a!r}, {b!r})", func=f, node=t, construct=f"mixed-time-units:{a}/{b}",
                              msg=f"the pair ({a!r}, {b!r}) mixes two time units: onsets would be read in `{a[6:]}` and durations in `{b[9:]}`")
    ctx.ok(rule, f"{label}: {n} (onset, duration) literal pair(s)")


# --------------------------------------------------------------------------- DEAD-KEY

def dead_dict_keys(f: FuncInfo):
    """(dict name, key, node): a string key written through a dict display into a function-local dict (possibly nested:
    `m[x] = {"k": ..}`) that is never read in the function, although the dict does not leave the function and is not
    accessed dynamically at that nesting level"""
    written = {}  # (root, depth) -> {key: node}
    for s in own_nodes(f.node):
        if isinstance(s, ast.Assign) and len(s.targets) == 1 and isinstance(s.value, ast.Dict) and s.value.keys \
                and all(isinstance(k, ast.Constant) and isinstance(k.value, str) for k in s.value.keys):
            root, depth = s.targets[0], 1
            while isinstance(root, ast.Subscript):
                root, depth = root.value, depth + 1
            if isinstance(root, ast.Name) and root.id not in f.all_params:
                for k in s.value.keys:
                    written.setdefault((root.id, depth), {}).setdefault(k.value, s)
        # `m = {v: {"k": ..} for v in ..}`: the keys live one level down
        if isinstance(s, ast.Assign) and len(s.targets) == 1 and isinstance(s.targets[0], ast.Name) and isinstance(s.value, ast.DictComp) \
                and isinstance(s.value.value, ast.Dict) and s.value.value.keys and s.targets[0].id not in f.all_params \
                and all(isinstance(k, ast.Constant) and isinstance(k.value, str) for k in s.value.value.keys):
            for k in s.value.value.keys:
                written.setdefault((s.targets[0].id, 2), {}).setdefault(k.value, s)
    if not written:
        return
    const_reads = {n.slice.value for n in ast.walk(f.node) if isinstance(n, ast.Subscript) and isinstance(n.ctx, ast.Load)
                   and isinstance(n.slice, ast.Constant) and isinstance(n.slice.value, str)}
    const_reads |= {n.args[0].value for n in ast.walk(f.node) if isinstance(n, ast.Call) and isinstance(n.func, ast.Attribute)
                    and n.func.attr in ("get", "pop", "setdefault") and n.args and isinstance(n.args[0], ast.Constant)}
    const_reads |= {n.left.value for n in ast.walk(f.node) if isinstance(n, ast.Compare) and isinstance(n.left, ast.Constant)
                    and any(isinstance(o, (ast.In, ast.NotIn)) for o in n.ops)}

    def chain(e):
        idx = []
        while isinstance(e, ast.Subscript):
            idx.append(e.slice)
            e = e.value
        return (e.id if isinstance(e, ast.Name) else None), list(reversed(idx))
    for (name, depth), keys in written.items():
        skip = False
        for n in ast.walk(f.node):
            # the dict leaves the function
            if isinstance(n, (ast.Return, ast.Yield, ast.YieldFrom)) and n.value is not None and any(isinstance(x, ast.Name) and x.id == name for x in ast.walk(n.value)):
                skip = True
            if isinstance(n, ast.Call):
                for a in list(n.args) + [k.value for k in n.keywords]:
                    if any(isinstance(x, ast.Name) and x.id == name for x in ast.walk(a)):
                        skip = True
                # dynamic access: .get(var) / .items() / .values() on the level that holds the keys
                if isinstance(n.func, ast.Attribute) and n.func.attr in ("get", "pop", "items", "values", "keys", "update"):
                    r, idx = chain(n.func.value)
                    if r == name and len(idx) == depth - 1 and not (n.args and isinstance(n.args[0], ast.Constant)):
                        skip = True
            if isinstance(n, ast.Assign) and any(isinstance(x, ast.Name) and x.id == name for x in ast.walk(n.value)) and \
                    not (isinstance(n.value, ast.Subscript) and isinstance(n.value.slice, ast.Constant)):
                # the dict as a whole is handed to another name, attribute or container: it may be read there
                whole = any(isinstance(x, ast.Name) and x.id == name and not isinstance(getattr(x, "_parent", None), (ast.Subscript, ast.Attribute))
                            for x in ast.walk(n.value))
                skip = skip or whole or any(isinstance(t, ast.Attribute) for t in n.targets)
            if isinstance(n, ast.Subscript) and isinstance(n.ctx, ast.Load):
                r, idx = chain(n)
                if r == name and len(idx) >= depth and not isinstance(idx[depth - 1], ast.Constant):
                    skip = True
            if isinstance(n, (ast.For, ast.comprehension)):
                r, idx = chain(n.iter)
                if r == name and len(idx) == depth - 1:
                    skip = True
        if skip:
            continue
        for k, node in keys.items():
            if k not in const_reads:
                yield name, k, node


def rule_dead_keys(ctx, scope, label):
    rule = "DEAD-KEY"
    ctx.rule(rule, "a string key written into a function-local dict (directly or one level down, `m[x] = {'k': ..}`) is read somewhere "
                   "in the function, unless the dict leaves the function or is accessed with computed keys at that level: a key that is "
                   "prepared and never consulted means the place that was to consult it uses something else")
    n = 0
    for f in _funcs_of(ctx, scope):
        n += 1
        for name, k, node in dead_dict_keys(f):
            ctx.fail(rule, f"{f.qname}: {name}[..][{k!r}]", f.qname, f"key-written-never-read:{k}", f.module.relpath, node.lineno,
                     f"the entry {k!r} of `{name}` is filled at line {node.lineno} and never read in {f.qname.split(':')[1]}: the selection it was computed for "
                     f"is made from something else")
    ctx.ok(rule, f"{label}: {n} functions, every prepared dict entry is consulted")


# --------------------------------------------------------------------------- MOD-abs

def rule_abs_before_modulo(ctx, scope, label):
    rule = "MOD-abs"
    ctx.rule(rule, "no `abs(a - b) % n` (or `abs(a + b) % n`): Python's % already maps into 0..n-1, and the absolute value of a negative "
                   "difference is a different residue (abs(0 - 2) % 7 == 2, (0 - 2) % 7 == 5)")
    n = 0
    for f in _funcs_of(ctx, scope):
        for b in ast.walk(f.node):
            if isinstance(b, ast.BinOp) and isinstance(b.op, ast.Mod) and isinstance(b.left, ast.Call) and norm(b.left.func) in ("abs", "np.abs", "numpy.abs") \
                    and b.left.args and isinstance(b.left.args[0], ast.BinOp) and isinstance(b.left.args[0].op, (ast.Sub, ast.Add)):
                n += 1
                if isinstance(b.left.args[0].op, ast.Sub):
                    ctx.fail(rule, f"{f.qname}: `{norm(b)[:40]}`", f.qname, f"abs-of-difference-before-modulo:{f.name}", f.module.relpath, b.lineno,
                             f"`{norm(b)}` wraps the wrong way whenever the difference is negative: {norm(b.left.args[0])} = -2 gives 2 instead of n-2")
    ctx.ok(rule, f"{label}: no abs(difference) % n")


def private_callees(prog, f: FuncInfo, depth=2):
    """functions of the same module (or methods of the same class) that f calls by a private name (`_x(..)`, `self._x(..)`,
    `cls._x(..)`, `Class._x(..)`), transitively up to `depth`: the places an "extract helper" refactoring moves code to"""
    out, seen, todo = [], {f.qname}, [(f, 0)]
    while todo:
        g, d = todo.pop()
        if d >= depth:
            continue
        for c in ast.walk(g.node):
            if not isinstance(c, ast.Call):
                continue
            name = None
            if isinstance(c.func, ast.Name) and c.func.id.startswith("_"):
                name = c.func.id
                cands = [h for h in prog.functions_in(g.module.name) if h.cls is None and h.name == name]
            elif isinstance(c.func, ast.Attribute) and c.func.attr.startswith("_") and not c.func.attr.startswith("__") and isinstance(c.func.value, ast.Name):
                name = c.func.attr
                cands = [h for h in prog.functions_in(g.module.name) if h.cls is not None and g.cls is not None and h.name == name
                         and (h.cls is g.cls or h.cls in g.cls.mro or g.cls in h.cls.mro)]
            else:
                continue
            for h in cands:
                if h.qname not in seen:
                    seen.add(h.qname)
                    out.append(h)
                    todo.append((h, d + 1))
    return out
