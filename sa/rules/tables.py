"""F3 / F5d — finite, exhaustive checks on constant-folded tables."""
from __future__ import annotations

from fractions import Fraction

from ..core.world import world

G = "partitura.utils.globals"
GF = "partitura/utils/globals.py"


def _chk(ctx, cond, inst, table, tag, msg, mod=G, file=GF):
    ctx.check(bool(cond), "F3", inst, where=f"{mod}:{table}", file=file, construct=f"{table}:{tag}", msg=msg)


def pitch_tables(ctx):
    ctx.rule("F3", "module-level tables are constant-folded from their initialisers and checked exhaustively against the "
                   "arithmetic identities the conversions rely on (twelve-tone, circle of fifths, interval sizes, dotted "
                   "durations, inverse code tables)")
    fo = world(ctx).folder
    mbc = fo.const(G, "MIDI_BASE_CLASS")
    bpc = fo.const(G, "BASE_PC")
    dps = fo.const(G, "DUMMY_PS_BASE_CLASS")
    steps = fo.const(G, "STEPS")
    ctx.modules_consulted.add(G)
    _chk(ctx, {k.upper(): v for k, v in mbc.items()} == bpc and bpc == dict(C=0, D=2, E=4, F=5, G=7, A=9, B=11),
         "MIDI_BASE_CLASS == BASE_PC == natural pitch classes", "BASE_PC", "natural-pcs",
         "MIDI_BASE_CLASS (lower case) and BASE_PC (upper case) must both map the seven steps to 0,2,4,5,7,9,11 "
         "(C4 = 60 follows from 12*(octave+1) + base + alter)")
    for k in range(12):
        row = dps.get(k)
        ok = row is not None and len(row) == 2 and row[0] in mbc and (mbc[row[0]] + row[1]) % 12 == k and abs(row[1]) <= 1
        _chk(ctx, ok, f"DUMMY_PS_BASE_CLASS[{k}] spells pitch class {k}", "DUMMY_PS_BASE_CLASS", f"pc{k}",
             f"DUMMY_PS_BASE_CLASS[{k}] = {row!r} does not sound pitch class {k}: midi_pitch_to_pitch_spelling would not "
             f"invert pitch_spelling_to_midi_pitch")
    names = "CDEFGAB"
    ok = all(steps.get(names[i]) == i and steps.get(i) == names[i] for i in range(7)) and len(steps) == 14
    _chk(ctx, ok, "STEPS is an involution C..B <-> 0..6", "STEPS", "involution",
         "STEPS must map C,D,E,F,G,A,B to 0..6 and back (diatonic arithmetic of transposition)")
    return mbc, bpc, steps


def _pc_of_name(name, bpc):
    pc = bpc[name[0]]
    for ch in name[1:]:
        pc += {"#": 1, "b": -1}[ch]
    return pc % 12


def key_tables(ctx, bpc):
    fo = world(ctx).folder
    maj = fo.const(G, "MAJOR_KEYS")
    mnr = fo.const(G, "MINOR_KEYS")
    for nm, lst in (("MAJOR_KEYS", maj), ("MINOR_KEYS", mnr)):
        _chk(ctx, len(lst) == 15 and len(set(lst)) == 15, f"{nm}: 15 distinct names", nm, "15-distinct",
             f"{nm} must list 15 distinct key names (fifths -7..7): key name <-> (fifths, mode) is a bijection")
        ok = True
        bad = None
        for i in range(14):
            try:
                if (_pc_of_name(lst[i + 1], bpc) - _pc_of_name(lst[i], bpc)) % 12 != 7:
                    ok, bad = False, (lst[i], lst[i + 1])
                # letter names advance by a fifth as well (4 steps)
                if ("CDEFGAB".index(lst[i + 1][0]) - "CDEFGAB".index(lst[i][0])) % 7 != 4:
                    ok, bad = False, (lst[i], lst[i + 1])
            except Exception:
                ok, bad = False, (lst[i], lst[i + 1])
        _chk(ctx, ok, f"{nm}: consecutive entries a fifth apart", nm, "fifths",
             f"{nm}: {bad} are not a perfect fifth apart — index+(-7) would not be the number of fifths")
    _chk(ctx, len(maj) == 15 and maj[7] == "C" and len(mnr) == 15 and mnr[7] == "A", "index 7 is C major / A minor", "MAJOR_KEYS", "centre",
         "fifths = 0 must be C major / A minor (index 7)")
    ok = len(maj) == len(mnr) and all((_pc_of_name(maj[i], bpc) - _pc_of_name(mnr[i], bpc)) % 12 == 3 and
                                      ("CDEFGAB".index(maj[i][0]) - "CDEFGAB".index(mnr[i][0])) % 7 == 2
                                      for i in range(min(len(maj), len(mnr))))
    _chk(ctx, ok, "relative minor three semitones / two steps below", "MINOR_KEYS", "relative",
         "MINOR_KEYS[i] must be the relative minor of MAJOR_KEYS[i] (same signature)")
    return maj, mnr


def interval_tables(ctx, bpc, steps):
    fo = world(ctx).folder
    ic = fo.const(G, "INTERVALCLASSES")
    i2s = fo.const(G, "INTERVAL_TO_SEMITONES")
    _chk(ctx, len(ic) == 39 and len(set(ic)) == 39, "INTERVALCLASSES: 39 distinct", "INTERVALCLASSES", "39",
         "there must be 39 distinct interval classes (6 qualities x 4 imperfect + 5 x 3 perfect numbers)")
    _chk(ctx, list(i2s.keys()) == list(ic), "INTERVAL_TO_SEMITONES keys == INTERVALCLASSES", "INTERVAL_TO_SEMITONES", "keys",
         "INTERVAL_TO_SEMITONES must be keyed by exactly the interval classes, in order")
    for n in range(1, 8):
        q = "P" if n in (1, 4, 5) else "M"
        want = bpc[steps[n - 1]]
        _chk(ctx, i2s.get(f"{q}{n}") == want, f"{q}{n} = {want} semitones", "INTERVAL_TO_SEMITONES", f"{q}{n}",
             f"the major/perfect interval {q}{n} must span BASE_PC[{steps[n-1]}] = {want} semitones, table has {i2s.get(f'{q}{n}')}")
        quals = ["dd", "d", "P", "A", "AA"] if q == "P" else ["dd", "d", "m", "M", "A", "AA"]
        vals = [i2s.get(f"{x}{n}") for x in quals]
        ok = all(v is not None for v in vals) and all(b - a == 1 for a, b in zip(vals, vals[1:]))
        _chk(ctx, ok, f"qualities of {n} are consecutive semitones", "INTERVAL_TO_SEMITONES", f"qualities{n}",
             f"qualities {quals} of interval number {n} must be consecutive integers, got {vals}")
    return ic, i2s


def accidental_tables(ctx):
    fo = world(ctx).folder
    a2i = fo.const(G, "ALT_TO_INT")
    i2a = fo.const(G, "INT_TO_ALT")
    _chk(ctx, all(a2i.get(v) == k for k, v in i2a.items()), "ALT_TO_INT o INT_TO_ALT = id", "INT_TO_ALT", "inverse",
         "every alteration INT_TO_ALT writes must be read back by ALT_TO_INT as the same integer")
    signs = fo.const(G, "ALTER_SIGNS")
    s2a = fo.const("partitura.utils.music", "SIGN_TO_ALTER")
    ctx.modules_consulted.add("partitura.utils.music")
    bad = [(k, v) for k, v in signs.items() if v != "" and s2a.get(v) != k]
    _chk(ctx, not bad and signs.get(0) == "" and signs.get(None) == "", "SIGN_TO_ALTER o ALTER_SIGNS = id", "ALTER_SIGNS", "inverse",
         f"accidental signs written by ALTER_SIGNS must parse back through SIGN_TO_ALTER: {bad}")
    am = fo.const("partitura.io.importmusicxml", "ACCIDENTAL_MAP")
    want = {"sharp": 1, "natural": 0, "flat": -1, "double-sharp": 2, "double-flat": -2}
    _chk(ctx, all(am.get(k) == v for k, v in want.items()), "ACCIDENTAL_MAP semitone values", "ACCIDENTAL_MAP", "values",
         "MusicXML accidental names must carry their semitone value (each accidental one semitone)",
         mod="partitura.io.importmusicxml", file="partitura/io/importmusicxml.py")


def duration_tables(ctx):
    xf = world(ctx).xfolder
    label = xf.const(G, "LABEL_DURS")
    dots = xf.const(G, "DOT_MULTIPLIERS")
    durs = xf.const(G, "DURS")
    sym = xf.const(G, "SYM_DURS")
    sdurs = xf.const(G, "STRAIGHT_DURS")
    ssym = xf.const(G, "SYM_STRAIGHT_DURS")
    cdurs = xf.const(G, "COMPOSITE_DURS")
    csym = xf.const(G, "SYM_COMPOSITE_DURS")
    s2i = xf.const(G, "SYMBOLIC_TO_INT_DURS")
    for d in range(len(dots)):
        _chk(ctx, dots[d] == 2 - Fraction(1, 2 ** d), f"DOT_MULTIPLIERS[{d}] = 2 - 2^-{d}", "DOT_MULTIPLIERS", f"dot{d}",
             f"a note with {d} dots lasts 2 - 2^-{d} times its undotted value, table has {dots[d]}")
    for a, b in (("h", "half"), ("q", "quarter"), ("e", "eighth")):
        _chk(ctx, label.get(a) == label.get(b), f"LABEL_DURS alias {a} = {b}", "LABEL_DURS", f"alias-{a}",
             f"tempo unit alias {a!r} must equal {b!r}")
    order = ["long", "breve", "whole", "half", "quarter", "eighth", "16th", "32nd", "64th", "128th", "256th"]
    ok = all(k in label for k in order) and label["quarter"] == 1 and all(label[a] == 2 * label[b] for a, b in zip(order, order[1:]))
    _chk(ctx, ok, "LABEL_DURS: each value half of the previous, quarter = 1", "LABEL_DURS", "halving",
         "LABEL_DURS must give long=16 ... 256th=1/64 quarters, each note value half of the previous")
    _chk(ctx, len(durs) == len(sym) == 56, "len(DURS) == len(SYM_DURS) == 56", "DURS", "length",
         f"DURS ({len(durs)}) and SYM_DURS ({len(sym)}) are parallel tables")
    _chk(ctx, all(a <= b for a, b in zip(durs, durs[1:])), "DURS non-decreasing", "DURS", "sorted",
         "estimate_symbolic_duration binary-searches DURS (find_nearest): it must be sorted (alias rows h/q/e repeat a value)")
    for i, (d, s) in enumerate(zip(durs, sym)):
        want = label.get(s.get("type"), None)
        ok = want is not None and 0 <= s.get("dots", -1) < len(dots) and d == want * dots[s["dots"]]
        _chk(ctx, ok, f"DURS[{i}] = LABEL_DURS[{s.get('type')}] * DOT_MULTIPLIERS[{s.get('dots')}]", "SYM_DURS", f"row{i}",
             f"row {i}: numeric {float(d)} != symbolic {s} — estimating a symbolic duration and converting it back would "
             f"not return the numeric duration")
    _chk(ctx, len(sdurs) == len(ssym) == 11 and all(a < b for a, b in zip(sdurs, sdurs[1:])), "STRAIGHT_DURS sorted, parallel to SYM_STRAIGHT_DURS",
         "STRAIGHT_DURS", "sorted", "STRAIGHT_DURS must be strictly increasing and parallel to SYM_STRAIGHT_DURS")
    for i, (d, s) in enumerate(zip(sdurs, ssym)):
        _chk(ctx, s.get("type") in label and s.get("dots") == 0 and d == label[s["type"]], f"STRAIGHT_DURS[{i}] = LABEL_DURS[{s.get('type')}]",
             "SYM_STRAIGHT_DURS", f"row{i}", f"row {i}: {float(d)} != {s}")
    _chk(ctx, len(cdurs) == len(csym) and all(a < b for a, b in zip(cdurs, cdurs[1:])), "COMPOSITE_DURS strictly sorted, parallel",
         "COMPOSITE_DURS", "sorted", "COMPOSITE_DURS must be strictly increasing and parallel to SYM_COMPOSITE_DURS")
    for i, (d, comp) in enumerate(zip(cdurs, csym)):
        tot = Fraction(0)
        ok = True
        for s in comp:
            if s.get("type") not in label or not (0 <= s.get("dots", -1) < len(dots)):
                ok = False
                break
            v = label[s["type"]] * dots[s["dots"]]
            if "actual_notes" in s:
                v = v * Fraction(s["normal_notes"], s["actual_notes"])
            tot += v
        _chk(ctx, ok and tot == d, f"COMPOSITE_DURS[{i}] = sum of its components", "SYM_COMPOSITE_DURS", f"row{i}",
             f"row {i}: numeric {float(d):.6f} != sum of components {float(tot):.6f} ({comp})")
    for t, v in s2i.items():
        _chk(ctx, t in label and v * label[t] == 4, f"SYMBOLIC_TO_INT_DURS[{t}] * LABEL_DURS[{t}] = 4", "SYMBOLIC_TO_INT_DURS", f"{t}",
             f"the integer note value of {t!r} ({v}) times its length in quarters ({label.get(t)}) must be 4")
    return label


def clef_tables(ctx):
    fo = world(ctx).folder
    c2i = fo.const(G, "CLEF_TO_INT")
    i2c = fo.const(G, "INT_TO_CLEF")
    _chk(ctx, len(set(c2i.values())) == len(c2i) and all(i2c.get(v) == k for k, v in c2i.items()) and len(i2c) == len(c2i),
         "INT_TO_CLEF is the inverse of an injective CLEF_TO_INT", "INT_TO_CLEF", "inverse",
         "clef codes must decode to what was encoded")
