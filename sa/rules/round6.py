"""Round 6: RESTRIKE-eq (C13, C14), LIMIT-sib (C05), DOTS-fold (C19)."""
from __future__ import annotations

import ast
from fractions import Fraction

from ..core.program import own_nodes, norm
from ..core.report import AnalysisError


# --------------------------------------------------------------------------- RESTRIKE-eq
def rule_restrike_at_release_counts(ctx):
    rule = "RESTRIKE-eq"
    ctx.rule(rule, "adjust_offsets_w_sustain: the strikes of the same pitch that end a pedal-held note are selected by a comparison with the "
                   "note's release that includes equality (a key struck again exactly at the release — repeated notes on a tick grid — ends "
                   "the earlier sound); a strict comparison lets the earlier note sound on under the new one")
    from .extra import local_defs
    f = ctx.prog.func("partitura.performance:adjust_offsets_w_sustain", rule)
    ctx.touch(f)
    defs = local_defs(f)
    # by role: the array written into note["sound_off"], and the copies taken of it before the pedal moves it (the releases)
    out = None
    for lp in own_nodes(f.node):
        if isinstance(lp, ast.For) and isinstance(lp.iter, ast.Call) and norm(lp.iter.func) == "zip" and \
                any(isinstance(t, ast.Subscript) and isinstance(t.slice, ast.Constant) and t.slice.value == "sound_off" and isinstance(t.ctx, ast.Store) for t in ast.walk(lp)):
            out = next((a.id for a in lp.iter.args if isinstance(a, ast.Name) and any(isinstance(v, ast.Call) and "fromiter" in norm(v.func) for v in defs.get(a.id, []))), None)
    ctx.require(out is not None, rule, f.qname, "sounding-end array not found")
    releases = {n for n, vs in defs.items() for v in vs if isinstance(v, ast.Call) and norm(v.func) == f"{out}.copy"}
    parent = {}
    for p in ast.walk(f.node):
        for c in ast.iter_child_nodes(p):
            parent[id(c)] = p
    n = 0
    for s in own_nodes(f.node):
        if not (isinstance(s, ast.Assign) and isinstance(s.targets[0], ast.Subscript) and norm(s.targets[0].value) == out):
            continue
        mins = [c for c in ast.walk(s.value) if isinstance(c, ast.Call) and norm(c.func) in ("min", "np.minimum", "numpy.minimum")]
        for m in mins:
            todo, seen = list(m.args), set()
            while todo:
                e = todo.pop()
                for x in ast.walk(e):
                    if isinstance(x, ast.Name) and x.id in defs and x.id not in seen and x.id != out:
                        seen.add(x.id)
                        todo.extend(defs[x.id])
                    if not (isinstance(x, ast.Compare) and len(x.ops) == 1 and isinstance(x.ops[0], (ast.LtE, ast.Lt, ast.GtE, ast.Gt))):
                        continue
                    l_rel = any(isinstance(y, ast.Name) and y.id in releases for y in ast.walk(x.left))
                    r_rel = any(isinstance(y, ast.Name) and y.id in releases for y in ast.walk(x.comparators[0]))
                    if l_rel == r_rel:
                        continue
                    n += 1
                    strict = isinstance(x.ops[0], (ast.Lt, ast.Gt))
                    # which side must be the larger one for the element to be *selected*: strikes >= release
                    keeps_later = (l_rel and isinstance(x.ops[0], (ast.Lt, ast.LtE))) or (r_rel and isinstance(x.ops[0], (ast.Gt, ast.GtE)))
                    neg = 0
                    p = parent.get(id(x))
                    while isinstance(p, ast.UnaryOp) and isinstance(p.op, (ast.Invert, ast.Not)):
                        neg += 1
                        p = parent.get(id(p))
                    if neg % 2:
                        strict, keeps_later = not strict, not keeps_later
                    if not keeps_later:
                        continue  # selects the earlier strikes: SOUND-ge's business
                    ctx.check(not strict, rule, f"`{norm(x)[:60]}`", func=f, node=x, construct="restrike-at-release-excluded",
                              msg=f"`{norm(x)[:80]}` leaves out a strike exactly at the release: with the pedal down, a repeated note that starts at the "
                                  f"tick where the previous one is released no longer ends it — the earlier note sounds on until the pedal lifts")
    ctx.floor(rule, "comparisons of strikes with the releases", n, 1)


# --------------------------------------------------------------------------- LIMIT-sib
def rule_limit_denominator_agrees(ctx, qnames):
    rule = "LIMIT-sib"
    ctx.rule(rule, "within the note-array → score conversion every rationalisation `.limit_denominator(k)` uses one and the same literal k: "
                   "the divisions per beat are the lcm of the denominators found under that bound and every onset/duration is then "
                   "rationalised under the same bound — a coarser bound at one site makes `divs * numerator / denominator` truncate")
    ks = {}
    for q in qnames:
        f = ctx.prog.func(q, rule)
        ctx.touch(f)
        for c in own_nodes(f.node):
            if isinstance(c, ast.Call) and isinstance(c.func, ast.Attribute) and c.func.attr == "limit_denominator":
                a = c.args[0] if c.args else next((k.value for k in c.keywords if k.arg == "max_denominator"), None)
                if a is None:
                    v = 1000000
                else:
                    try:
                        v = ctx_fold(ctx, a, f)
                    except Exception:
                        v = norm(a)
                ks.setdefault(v, []).append((f, c))
    total = sum(len(v) for v in ks.values())
    ctx.floor(rule, "limit_denominator calls", total, 3)
    if len(ks) == 1:
        ctx.ok(rule, f"{total} calls, bound {next(iter(ks))}")
        return
    major = max(ks, key=lambda k: len(ks[k]))
    for k, sites in ks.items():
        if k == major:
            continue
        for f, c in sites:
            ctx.check(False, rule, f"`{norm(c)[:60]}`", func=f, node=c, construct=f"bound-differs:{k}",
                      msg=f"`{norm(c)[:70]}` rationalises under the bound {k} where the other {len(ks[major])} site(s) use {major}: values whose "
                          f"denominator lies between the two are given too few divisions and come back truncated")


def ctx_fold(ctx, node, f):
    from ..core.world import world
    return world(ctx).folder.expr(node, f.module)


# --------------------------------------------------------------------------- DOTS-fold
class _Ret(Exception):
    def __init__(self, v):
        self.v = v


class PEval:
    """Constant folding of a call of a closed arithmetic function at constant arguments, in exact rationals.

    Statement kinds: if / return / assignment to names / augmented assignment / for over range / while / pass / docstrings.
    Expressions: names, numbers, + - * / // % **, comparisons, and/or/not, conditional expressions, calls of module-level functions of the
    same module (folded recursively, bounded) and of float/int/abs/pow/min/max/range/Fraction.  Anything else: AnalysisError.
    """

    def __init__(self, prog, mod, rule, budget=20000):
        self.prog, self.mod, self.rule, self.budget = prog, mod, rule, budget

    def bad(self, n, what):
        raise AnalysisError(self.rule, f"{self.mod.name}:{getattr(n, 'lineno', 0)}", f"outside the folder's fragment: {what}")

    def call(self, f, args, depth=0):
        if depth > 40:
            self.bad(f.node, "recursion deeper than 40")
        params = [a.arg for a in f.node.args.args]
        if len(args) > len(params):
            self.bad(f.node, "arity")
        env = dict(zip(params, args))
        dflt = f.node.args.defaults
        for p, d in zip(params[len(params) - len(dflt):], dflt):
            if p not in env:
                env[p] = self.expr(d, {}, depth)
        if len(env) != len(params):
            self.bad(f.node, "missing argument")
        try:
            self.block(f.node.body, env, f, depth)
        except _Ret as r:
            return r.v
        return None

    def block(self, body, env, f, depth):
        for s in body:
            self.budget -= 1
            if self.budget < 0:
                self.bad(s, "step budget exhausted")
            if isinstance(s, ast.Return):
                raise _Ret(None if s.value is None else self.expr(s.value, env, depth))
            elif isinstance(s, ast.If):
                self.block(s.body if self.expr(s.test, env, depth) else s.orelse, env, f, depth)
            elif isinstance(s, ast.Assign) and len(s.targets) == 1 and isinstance(s.targets[0], ast.Name):
                env[s.targets[0].id] = self.expr(s.value, env, depth)
            elif isinstance(s, ast.AnnAssign) and isinstance(s.target, ast.Name) and s.value is not None:
                env[s.target.id] = self.expr(s.value, env, depth)
            elif isinstance(s, ast.AugAssign) and isinstance(s.target, ast.Name):
                env[s.target.id] = self.binop(s.op, env[s.target.id], self.expr(s.value, env, depth), s)
            elif isinstance(s, ast.For) and isinstance(s.target, ast.Name) and not s.orelse:
                for v in self.expr(s.iter, env, depth):
                    env[s.target.id] = v
                    self.block(s.body, env, f, depth)
            elif isinstance(s, ast.While) and not s.orelse:
                while self.expr(s.test, env, depth):
                    self.budget -= 1
                    if self.budget < 0:
                        self.bad(s, "step budget exhausted")
                    self.block(s.body, env, f, depth)
            elif isinstance(s, ast.Pass) or (isinstance(s, ast.Expr) and isinstance(s.value, ast.Constant)):
                pass
            else:
                self.bad(s, type(s).__name__)

    def binop(self, op, a, b, n):
        try:
            if isinstance(op, ast.Add): return a + b
            if isinstance(op, ast.Sub): return a - b
            if isinstance(op, ast.Mult): return a * b
            if isinstance(op, ast.Div): return Fraction(a) / Fraction(b)
            if isinstance(op, ast.FloorDiv): return a // b
            if isinstance(op, ast.Mod): return a % b
            if isinstance(op, ast.Pow):
                return Fraction(a) ** b if isinstance(b, int) or (isinstance(b, Fraction) and b.denominator == 1) else self.bad(n, "non-integer power")
            if isinstance(op, ast.LShift): return a << b
        except ZeroDivisionError:
            self.bad(n, "division by zero while folding")
        self.bad(n, type(op).__name__)

    def expr(self, e, env, depth):
        if isinstance(e, ast.Constant) and isinstance(e.value, (int, bool)):
            return e.value
        if isinstance(e, ast.Constant) and isinstance(e.value, float):
            return Fraction(e.value)
        if isinstance(e, ast.Constant) and (e.value is None or isinstance(e.value, str)):
            return e.value
        if isinstance(e, ast.Name):
            if e.id in env:
                return env[e.id]
            self.bad(e, f"free name {e.id}")
        if isinstance(e, ast.BinOp):
            return self.binop(e.op, self.expr(e.left, env, depth), self.expr(e.right, env, depth), e)
        if isinstance(e, ast.UnaryOp):
            v = self.expr(e.operand, env, depth)
            if isinstance(e.op, ast.USub): return -v
            if isinstance(e.op, ast.UAdd): return v
            if isinstance(e.op, ast.Not): return not v
            self.bad(e, "unary")
        if isinstance(e, ast.BoolOp):
            v = None
            for x in e.values:
                v = self.expr(x, env, depth)
                if isinstance(e.op, ast.And) and not v: return v
                if isinstance(e.op, ast.Or) and v: return v
            return v
        if isinstance(e, ast.IfExp):
            return self.expr(e.body if self.expr(e.test, env, depth) else e.orelse, env, depth)
        if isinstance(e, ast.Compare):
            l = self.expr(e.left, env, depth)
            for op, c in zip(e.ops, e.comparators):
                r = self.expr(c, env, depth)
                ok = {ast.Eq: l == r, ast.NotEq: l != r, ast.Lt: l < r, ast.LtE: l <= r, ast.Gt: l > r, ast.GtE: l >= r}.get(type(op))
                if ok is None:
                    self.bad(e, "comparison")
                if not ok:
                    return False
                l = r
            return True
        if isinstance(e, ast.Call) and not e.keywords:
            args = [self.expr(a, env, depth) for a in e.args]
            name = norm(e.func)
            if isinstance(e.func, ast.Name) and e.func.id not in env:
                g = self.prog.functions.get(f"{self.mod.name}:{e.func.id}")
                if g is not None:
                    return self.call(g, args, depth + 1)
            pure = {"float": Fraction, "Fraction": Fraction, "abs": abs, "min": min, "max": max, "pow": lambda a, b: Fraction(a) ** b,
                    "range": lambda *a: list(range(*[int(x) for x in a])),
                    "int": lambda v: int(v), "np.power": lambda a, b: Fraction(a) ** b, "sum": sum}
            if name in pure:
                return pure[name](*args)
            self.bad(e, f"call {name}")
        if isinstance(e, (ast.List, ast.Tuple)):
            return [self.expr(x, env, depth) for x in e.elts]
        if isinstance(e, ast.GeneratorExp) or isinstance(e, ast.ListComp):
            if len(e.generators) == 1 and isinstance(e.generators[0].target, ast.Name) and not e.generators[0].ifs:
                out = []
                for v in self.expr(e.generators[0].iter, env, depth):
                    out.append(self.expr(e.elt, dict(env, **{e.generators[0].target.id: v}), depth))
                return out
        self.bad(e, type(e).__name__)


def rule_kern_dots_closed_form(ctx):
    rule = "DOTS-fold"
    ctx.rule(rule, "importkern.dot_function folded at constant arguments by the analyser's own evaluator (exact rationals): for every "
                   "reciprocal value d in {1,2,3,4,6,8,12,16,32} and 0..4 dots it yields d·2^k/(2^(k+1)−1), the reciprocal of "
                   "(1/d)(1 + 1/2 + … + 1/2^k)")
    f = ctx.prog.func("partitura.io.importkern:dot_function", rule)
    ctx.touch(f)
    n = 0
    bad = []
    for d in (1, 2, 3, 4, 6, 8, 12, 16, 32):
        for k in range(5):
            pe = PEval(ctx.prog, f.module, rule)
            got = pe.call(f, [d, k])
            want = Fraction(d * 2 ** k, 2 ** (k + 1) - 1)
            n += 1
            if got is None or Fraction(got) != want:
                bad.append((d, k, got, want))
    ctx.floor(rule, "folded argument pairs", n, 45)
    ctx.check(not bad, rule, f"{n} argument pairs", func=f, node=f.node, construct="dotted-value-wrong",
              msg="dot_function folds to a wrong dotted value: " + "; ".join(f"({d}, {k} dots) -> {g}, denotes {w}" for d, k, g, w in bad[:4])
                  + f" ({len(bad)} of {n} pairs): a kern note with that many dots loads with the wrong duration and shifts everything after it")
