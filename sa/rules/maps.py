"""Rules about Part's signature / measure maps (C10, C05)."""
from __future__ import annotations

import ast
from typing import Dict, List, Optional

from ..core.program import AnalysisError, FuncInfo, own_nodes, norm
from ..core.world import world

PART = "partitura.score:Part"
MAPS = ("time_signature_map", "key_signature_map", "measure_map", "metrical_position_map")
PREV_MAPS = ("time_signature_map", "key_signature_map", "clef_map")


def _interp_calls(f: FuncInfo):
    return [n for n in own_nodes(f.node) if isinstance(n, ast.Call) and norm(n.func) == "interp1d"]


def map_width(ctx, name: str) -> int:
    """Width of the value rows the map returns, inferred from the row tuple of the
    comprehension and the column slice handed to the interpolator."""
    f = ctx.prog.func(f"{PART}.{name}", "F4b")
    ctx.touch(f)
    if name == "metrical_position_map":
        widths = set()
        for n in ast.walk(f.node):
            if isinstance(n, ast.Return) and isinstance(n.value, ast.Tuple):
                widths.add(len(n.value.elts))
            if isinstance(n, ast.Return) and isinstance(n.value, ast.Call) and norm(n.value.func) in ("np.column_stack",) \
                    and n.value.args and isinstance(n.value.args[0], ast.Tuple):
                widths.add(len(n.value.args[0].elts))
        if len(widths) != 1:
            raise AnalysisError("F4b", f.qname, f"cannot infer a unique row width: {widths}")
        return widths.pop()
    # row tuple/list of the comprehension
    row_len = None
    rows_var = None
    for n in own_nodes(f.node):
        if isinstance(n, ast.Assign) and isinstance(n.value, ast.Call) and norm(n.value.func) in ("np.array", "numpy.array") \
                and n.value.args and isinstance(n.value.args[0], ast.ListComp) \
                and isinstance(n.value.args[0].elt, (ast.Tuple, ast.List)) and row_len is None:
            row_len = len(n.value.args[0].elt.elts)
            rows_var = norm(n.targets[0])
    calls = _interp_calls(f)
    if row_len is None or not calls:
        raise AnalysisError("F4b", f.qname, "row comprehension or interpolator call not recognised")
    c = calls[-1]
    y = c.args[1]
    if isinstance(y, ast.Call) and isinstance(y.func, ast.Attribute) and y.func.attr == "astype":
        y = y.func.value
    if not (isinstance(y, ast.Subscript) and isinstance(y.slice, ast.Tuple) and len(y.slice.elts) == 2):
        raise AnalysisError("F4b", f.qname, f"value argument of interp1d not a 2-d slice: {norm(y)}")
    col = y.slice.elts[1]
    if isinstance(col, ast.Slice):
        lo = col.lower.value if isinstance(col.lower, ast.Constant) else 0 if col.lower is None else None
        hi = col.upper.value if isinstance(col.upper, ast.Constant) else row_len if col.upper is None else None
        if lo is None or hi is None:
            raise AnalysisError("F4b", f.qname, "non-literal column slice")
        return hi - lo
    return 0  # scalar column


def rule_F4b(ctx, maps=("time_signature_map", "key_signature_map", "metrical_position_map", "measure_map"),
             floor=8):
    ctx.rule("F4b", "every tuple-unpacking / constant subscript of a call of a signature map has as many targets as the "
                    "map's value rows are wide (width inferred from the row tuple and the column slice)")
    widths = {m: map_width(ctx, m) for m in maps}
    ctx.extra["map_widths"] = widths
    sites = 0
    for f in ctx.prog.functions.values():
        if "#" in f.qname:
            continue
        # local aliases  x = <expr>.time_signature_map
        alias: Dict[str, str] = {}
        for n in own_nodes(f.node):
            if isinstance(n, ast.Assign) and len(n.targets) == 1 and isinstance(n.targets[0], ast.Name) \
                    and isinstance(n.value, ast.Attribute) and n.value.attr in widths:
                alias[n.targets[0].id] = n.value.attr
        for p in f.all_params:
            if p in widths:
                alias.setdefault(p, p)

        def which(call) -> Optional[str]:
            if not isinstance(call, ast.Call):
                return None
            fn = call.func
            if isinstance(fn, ast.Attribute) and fn.attr in widths:
                return fn.attr
            if isinstance(fn, ast.Name) and fn.id in alias:
                return alias[fn.id]
            return None

        for n in own_nodes(f.node):
            if isinstance(n, ast.Assign) and len(n.targets) == 1 and isinstance(n.targets[0], (ast.Tuple, ast.List)):
                m = which(n.value)
                if m is None or any(isinstance(e, ast.Starred) for e in n.targets[0].elts):
                    continue
                # vector argument -> rows, not columns: only scalar-looking probes are judged
                k = len(n.targets[0].elts)
                sites += 1
                ctx.touch(f)
                ctx.check(k == widths[m], "F4b", f"{f.qname}:{norm(n.targets[0])}={m}", func=f, node=n,
                          construct=f"unpack-{k}-of-{widths[m]}:{m}",
                          msg=f"`{norm(n)[:80]}` unpacks {k} values but {m} returns rows of width {widths[m]} "
                              f"(ValueError whenever this line runs)")
            elif isinstance(n, ast.Subscript) and isinstance(n.slice, ast.Constant) and isinstance(n.slice.value, int):
                m = which(n.value)
                if m is None:
                    continue
                sites += 1
                ctx.touch(f)
                k = n.slice.value
                ctx.check(-widths[m] <= k < widths[m], "F4b", f"{f.qname}:{norm(n)[:40]}", func=f, node=n,
                          construct=f"index-{k}-of-{widths[m]}:{m}",
                          msg=f"`{norm(n)[:80]}` takes column {k} of a row of width {widths[m]}")
    ctx.floor("F4b", "unpacking / indexing sites of the maps", sites, floor)
    return widths


def rule_F7d_measure_maps(ctx):
    ctx.rule("F7d", "in measure_map / measure_number_map the measure table is not subscripted with a constant index "
                    "before (or outside a guard of) the len()==0 test that installs the documented default")
    w = world(ctx)
    for name in ("measure_map", "measure_number_map"):
        f = ctx.prog.func(f"{PART}.{name}", "F7d")
        ctx.touch(f)
        cfg = w.inf.cfg(f)
        dom = cfg.dominators(include_exc=False)
        tests = []
        for n in cfg.nodes:
            if n.kind == "test":
                t = n.ast
                if isinstance(t, ast.Compare) and len(t.ops) == 1 and isinstance(t.left, ast.Call) \
                        and norm(t.left.func) == "len" and isinstance(t.comparators[0], ast.Constant) \
                        and t.comparators[0].value == 0 and isinstance(t.ops[0], ast.Eq):
                    tests.append((n, norm(t.left.args[0])))
        ctx.require(tests, "F7d", f.qname, "the len(...) == 0 default test was not found")
        for tn, var in tests:
            bad = []
            for n in cfg.nodes:
                if n is tn or n.ast is None or n.kind not in ("stmt", "test"):
                    continue
                if n not in dom.get(tn, ()):
                    continue
                for s in ast.walk(n.ast):
                    if isinstance(s, ast.Subscript) and norm(s.value) == var and isinstance(s.slice, ast.Constant) \
                            and isinstance(s.slice.value, int) and isinstance(s.ctx, ast.Load):
                        if not _guarded_by_len(s, var, n.ast):
                            bad.append(s)
            ctx.check(not bad, "F7d", f"{f.qname}:{var}", func=f, node=bad[0] if bad else None,
                      construct=f"index-before-empty-check:{var}",
                      msg=f"`{norm(bad[0]) if bad else ''}` is evaluated on every path before `len({var}) == 0` installs "
                          f"the documented default — IndexError for a part without measures, the default is unreachable")


def _guarded_by_len(sub, var, root) -> bool:
    """sub sits in `len(var) > 0 and ...` (short-circuit guard) inside root."""
    p = getattr(sub, "_parent", None)
    child = sub
    while p is not None:
        if isinstance(p, ast.BoolOp) and isinstance(p.op, ast.And):
            idx = next((i for i, v in enumerate(p.values) if v is child or _contains(v, child)), None)
            for v in p.values[: idx or 0]:
                if _is_nonempty_test(v, var):
                    return True
        if p is root:
            break
        child = p
        p = getattr(p, "_parent", None)
    return False


def _contains(root, node):
    return any(x is node for x in ast.walk(root))


def _is_nonempty_test(v, var) -> bool:
    if isinstance(v, ast.Compare) and len(v.ops) == 1 and isinstance(v.left, ast.Call) and norm(v.left.func) == "len" \
            and norm(v.left.args[0]) == var and isinstance(v.comparators[0], ast.Constant):
        c = v.comparators[0].value
        return (isinstance(v.ops[0], ast.Gt) and c == 0) or (isinstance(v.ops[0], ast.GtE) and c == 1) or \
            (isinstance(v.ops[0], ast.NotEq) and c == 0)
    if isinstance(v, ast.Call) and norm(v.func) == "len" and norm(v.args[0]) == var:
        return True
    return False


def rule_backfill_siblings(ctx):
    ctx.rule("SIB-backfill", "time_signature_map, key_signature_map and clef_map each contain the first-element back-fill "
                             "(prepend a row at first_point.t when the first element starts later), and the back-fill "
                             "test is reachable from every non-default branch, in particular from the single-element "
                             "branch (decision table over len==0 / len==1 / first>first_point)")
    w = world(ctx)
    for name in PREV_MAPS:
        f = ctx.prog.func(f"{PART}.{name}", "SIB-backfill")
        ctx.touch(f)
        cfg = w.inf.cfg(f)
        backfill = []
        single = []
        for n in cfg.nodes:
            if n.kind != "test":
                continue
            t = n.ast
            # canonical orientation (core/program.py): `X[0, 0] > first_point.t` is read as `first_point.t < X[0, 0]`
            if isinstance(t, ast.Compare) and len(t.ops) == 1 and isinstance(t.ops[0], ast.Lt) \
                    and norm(t.left).endswith("first_point.t") and norm(t.comparators[0]).endswith("[0, 0]"):
                # T branch must prepend with vstack
                tb = [m for m, l in n.succ if l == "T"]
                if tb and tb[0].ast is not None and "vstack" in norm(tb[0].ast) and "first_point.t" in norm(tb[0].ast):
                    backfill.append(n)
            # allow `first_point is not None and X[0,0] > first_point.t`
            if isinstance(t, ast.BoolOp) and isinstance(t.op, ast.And):
                for v in t.values:
                    if isinstance(v, ast.Compare) and len(v.ops) == 1 and isinstance(v.ops[0], ast.Lt) \
                            and norm(v.left).endswith("first_point.t") and norm(v.comparators[0]).endswith("[0, 0]"):
                        tb = [m for m, l in n.succ if l == "T"]
                        if tb and tb[0].ast is not None and "vstack" in norm(tb[0].ast):
                            backfill.append(n)
            if isinstance(t, ast.Compare) and len(t.ops) == 1 and isinstance(t.ops[0], ast.Eq) \
                    and isinstance(t.left, ast.Call) and norm(t.left.func) == "len" \
                    and isinstance(t.comparators[0], ast.Constant) and t.comparators[0].value == 1:
                single.append(n)
        ok = ctx.check(len(backfill) >= 1, "SIB-backfill", f"{f.qname}:has-backfill", func=f,
                       construct=f"{name}:no-backfill",
                       msg=f"{name} has no branch that prepends the first element's values at first_point.t: queries "
                           f"before the first element return nan instead of 'the first one for positions before it'")
        if not ok:
            continue
        for s in single:
            tb = [m for m, l in s.succ if l == "T"]
            reach = tb and any(cfg.reaches(tb[0], b) or tb[0] is b for b in backfill)
            ctx.check(bool(reach), "SIB-backfill", f"{f.qname}:single-element-branch", func=f, node=s.ast,
                      construct=f"{name}:backfill-unreachable-from-single",
                      msg=f"in {name} the back-fill test is not reachable from the `len(...) == 1` branch (elif chain): a "
                          f"single element that starts after the first time point yields nan before it, while the "
                          f"sibling maps back-fill")


def rule_interp_kwargs(ctx):
    ctx.rule("SIB-interp", "the previous-value maps call interp1d with kind='previous' and fill_value='extrapolate' and "
                           "feed column 0 as x")
    for name in PREV_MAPS + ("measure_map", "measure_number_map"):
        f = ctx.prog.func(f"{PART}.{name}", "SIB-interp")
        calls = _interp_calls(f)
        ctx.require(calls, "SIB-interp", f.qname, "no interp1d call")
        for c in calls:
            kw = {k.arg: k.value for k in c.keywords if k.arg}
            kind = kw.get("kind")
            fill = kw.get("fill_value")
            ok = isinstance(kind, ast.Constant) and kind.value == "previous" and \
                isinstance(fill, ast.Constant) and fill.value == "extrapolate"
            x_ok = bool(c.args) and norm(c.args[0]).endswith("[:, 0]")
            ctx.check(ok and x_ok, "SIB-interp", f"{f.qname}:{c.lineno}", func=f, node=c,
                      construct=f"{name}:interp-kwargs",
                      msg=f"{name}: interp1d must be called with x = column 0, kind='previous', fill_value='extrapolate' "
                          f"(found kind={norm(kind) if kind else None}, fill_value={norm(fill) if fill else None}, "
                          f"x={norm(c.args[0]) if c.args else None}): 'the latest element starting at or before t'")


def rule_empty_2d(ctx):
    ctx.rule("EMPTY2D", "in the map properties an array built from a possibly-empty comprehension of rows is indexed with two "
                        "subscripts only after a dominating `len(X) == 0` test that rebinds X, or it is reshaped to 2-d when built "
                        "(np.array([]) is one-dimensional)")
    w = world(ctx)
    for name in PREV_MAPS + ("measure_map", "measure_number_map"):
        f = ctx.prog.func(f"{PART}.{name}", "EMPTY2D")
        ctx.touch(f)
        cfg = w.inf.cfg(f)
        dom = cfg.dominators(include_exc=False)
        arrays = {}
        for n in own_nodes(f.node):
            if isinstance(n, ast.Assign) and len(n.targets) == 1 and isinstance(n.targets[0], ast.Name):
                v = n.value
                reshaped = isinstance(v, ast.Call) and isinstance(v.func, ast.Attribute) and v.func.attr == "reshape"
                inner = v.func.value if reshaped else v
                if isinstance(inner, ast.Call) and norm(inner.func) in ("np.array", "numpy.array") and inner.args \
                        and isinstance(inner.args[0], ast.ListComp) and n.targets[0].id not in arrays:
                    arrays[n.targets[0].id] = reshaped
        ctx.require(arrays, "EMPTY2D", f.qname, "row table not found")
        for var, reshaped in arrays.items():
            subs = [s for s in own_nodes(f.node) if isinstance(s, ast.Subscript) and isinstance(s.ctx, ast.Load) and norm(s.value) == var
                    and isinstance(s.slice, ast.Tuple)]
            bad = None
            for s in subs:
                if reshaped:
                    continue
                st = s
                while cfg.node_of(st) is None:
                    st = st._parent
                sn = cfg.node_of(st)
                ok = False
                for t in cfg.nodes:
                    if t.kind == "test" and t in dom.get(sn, ()) and t is not sn:
                        tt = t.ast
                        if isinstance(tt, ast.Compare) and isinstance(tt.left, ast.Call) and norm(tt.left.func) == "len" \
                                and norm(tt.left.args[0]) == var and isinstance(tt.comparators[0], ast.Constant) and tt.comparators[0].value == 0:
                            ok = True
                if not ok:
                    bad = s
                    break
            ctx.check(bad is None, "EMPTY2D", f"{f.qname}:{var}", func=f, node=bad, construct=f"2d-index-of-possibly-empty:{var}",
                      msg=f"`{norm(bad) if bad is not None else ''}` indexes `{var}` with two subscripts, but `{var}` is one-dimensional "
                          f"when the part has no such element (np.array([])): IndexError instead of the documented default")
