"""F2 — timeline integrity rules (C01; F2a/F2b reused by C15)."""
from __future__ import annotations

import ast
from typing import Dict, List, Optional

from ..core.bounds import IndexInterp, _Unmodelled
from ..core.cfg import CFG
from ..core.program import AnalysisError, FuncInfo, own_nodes, norm
from ..core.types import definite
from ..core.world import world

PART = "partitura.score:Part"
TP = "partitura.score:TimePoint"
TO = "partitura.score:TimedObject"

PRIVATE_ATTRS = {"_points", "_quarter_times", "_quarter_durations", "_quarter_map", "prev", "next",
                 "starting_objects", "ending_objects", "start", "end"}
ARRAYS = {"self._points": "P", "self._quarter_times": "Q", "self._quarter_durations": "Q"}

# stores outside the owner set that were read and frozen, one line of reason each
FROZEN_EXCEPTIONS = {
    ("partitura.score:ScoreVariant.create_variant_part", "next"): (1, "re-links the points of a part it has just built itself"),
    ("partitura.score:ScoreVariant.create_variant_part", "prev"): (1, "re-links the points of a part it has just built itself"),
    ("partitura.score:Beam.update_time", "start"): (1, "beam mirrors its notes' points without registering (layering breach outside C01's histories; evidence)"),
    ("partitura.score:Beam.update_time", "end"): (1, "beam mirrors its notes' points without registering (layering breach outside C01's histories; evidence)"),
    ("partitura.io.importkern:load_kern", "end"): (2, "kern importer patches measure ends without the registry (layering breach, reported under C19 evidence)"),
}


def find_point_mutator(prog, which: str) -> FuncInfo:
    """The method of Part that rebinds self._points from np.insert / np.delete (by role)."""
    part = prog.cls(PART, "F2")
    hits = []
    for ms in part.all_methods.values():
        for m in ms:
            for n in own_nodes(m.node):
                if getattr(n, "_inl", None):
                    continue  # a copy of a new private helper read in place (core/program.py): the helper itself is the mutator
                if isinstance(n, ast.Assign) and len(n.targets) == 1 and norm(n.targets[0]) == "self._points" \
                        and isinstance(n.value, ast.Call) and norm(n.value.func) in (f"np.{which}", f"numpy.{which}"):
                    hits.append(m)
    if len(hits) != 1:
        raise AnalysisError("F2", f"Part point {which}er", f"expected exactly one method, found {len(hits)}")
    return hits[0]


def owner_set(prog) -> Dict[str, str]:
    ins = find_point_mutator(prog, "insert")
    dele = find_point_mutator(prog, "delete")
    owners = {
        f"{PART}.__init__": "constructor",
        ins.qname: "point inserter",
        dele.qname: "point deleter",
        f"{PART}.set_quarter_duration": "quarter table owner",
        f"{PART}.remove": "deregistration",
        f"{TP}.__init__": "constructor",
        f"{TP}.add_starting_object": "registration",
        f"{TP}.add_ending_object": "registration",
        f"{TP}.remove_starting_object": "deregistration",
        f"{TP}.remove_ending_object": "deregistration",
        f"{TO}.__init__": "constructor",
    }
    for q in owners:
        prog.func(q, "F2a")
    return owners


def _timeline_receiver(w, f: FuncInfo, recv_expr) -> Optional[bool]:
    """True: receiver is definitely a Part/TimePoint/TimedObject; False: definitely
    something else; None: unknown."""
    t = w.inf.type_at(f, recv_expr)
    if not definite(t):
        return None
    roots = [w.prog.classes[q] for q in (PART, TP, TO)]
    yes = no = False
    for a in t:
        if a[0] == "inst":
            ci = w.prog.classes[a[1]]
            if any(r in ci.mro for r in roots):
                yes = True
            else:
                no = True
        elif a == ("b", "none"):
            continue
        else:
            no = True
    if yes and not no:
        return True
    if no and not yes:
        return False
    return None


def scan_private_stores(ctx, modules=None):
    """All stores / in-place mutations of the timeline's private state in the package."""
    w = world(ctx)
    out = []
    for f in ctx.prog.functions.values():
        if "#" in f.qname:
            continue  # shadowed duplicate definitions are dead code
        for n in own_nodes(f.node):
            if getattr(n, "_inl", None):
                continue  # copy of a new private helper read in place: the store belongs to the helper (scanned as itself)
            attr = recv = None
            kind = None
            if isinstance(n, ast.Attribute) and isinstance(n.ctx, (ast.Store, ast.Del)) and n.attr in PRIVATE_ATTRS:
                attr, recv, kind = n.attr, n.value, "store"
            elif isinstance(n, ast.Subscript) and isinstance(n.ctx, (ast.Store, ast.Del)) \
                    and isinstance(n.value, ast.Attribute) and n.value.attr in \
                    ("_points", "_quarter_times", "_quarter_durations"):
                attr, recv, kind = n.value.attr, n.value.value, "element store"
            elif isinstance(n, ast.Call) and isinstance(n.func, ast.Attribute) \
                    and n.func.attr in ("insert", "append", "pop", "remove", "clear", "extend", "sort", "reverse") \
                    and isinstance(n.func.value, ast.Attribute) \
                    and n.func.value.attr in ("_points", "_quarter_times", "_quarter_durations"):
                attr, recv, kind = n.func.value.attr, n.func.value.value, f"{n.func.attr}()"
            if attr is None:
                continue
            is_tl = _timeline_receiver(w, f, recv)
            out.append({"func": f, "node": n, "attr": attr, "kind": kind, "timeline": is_tl,
                        "recv": norm(recv)})
    return out


def rule_F2a(ctx, only_funcs=None):
    ctx.rule("F2a", "stores to Part._points/_quarter_* / TimePoint.prev,next,*_objects / TimedObject.start,end "
                    "occur only in the owner set (resolved by role) or in a frozen, reasoned exception")
    prog = ctx.prog
    owners = owner_set(prog)
    stores = scan_private_stores(ctx)
    per = {}
    n_owner = 0
    for s in stores:
        f = s["func"]
        ctx.touch(f)
        q = f.qname
        # aliases inside set_quarter_duration (times.insert) are covered by the owner itself
        if s["timeline"] is False:
            continue  # receiver is definitely not a timeline object
        if q in owners:
            n_owner += 1
            ctx.ok("F2a", f"{q}:{s['attr']}:{s['kind']}@{owners[q]}")
            continue
        per.setdefault((q, s["attr"]), []).append(s)
    for (q, attr), lst in sorted(per.items()):
        if only_funcs is not None and q not in only_funcs:
            continue
        exc = FROZEN_EXCEPTIONS.get((q, attr))
        f = lst[0]["func"]
        if exc is not None and len(lst) <= exc[0]:
            ctx.ok("F2a", f"{q}:{attr} (frozen exception ×{len(lst)}: {exc[1]})")
            ctx.note("F2a", f"frozen exception: {q} stores .{attr} ×{len(lst)} — {exc[1]}", f, lst[0]["node"])
            continue
        for s in lst[(exc[0] if exc else 0):]:
            ctx.check(False, "F2a", f"{q}:{attr}", func=f, node=s["node"],
                      construct=f"private-store:{attr}:{s['recv']}",
                      msg=f"{s['kind']} to timeline-private state `.{attr}` of `{s['recv']}` outside the owner set "
                          f"(owners: Part.__init__, point inserter/deleter, set_quarter_duration, Part.remove, "
                          f"TimePoint.__init__/add_*/remove_*, TimedObject.__init__); the timeline invariants "
                          f"(sortedness, links, registries, quarter cache) are only maintained there")
    ctx.floor("F2a", "private-state stores in owners", n_owner, 24)
    return stores


def rule_F2b(ctx):
    ctx.rule("F2b", "in every function that writes the quarter table (_quarter_times/_quarter_durations), every "
                    "CFG path from the write to a normal exit passes an assignment to _quarter_map (cache coherence)")
    w = world(ctx)
    count = 0
    for f in ctx.prog.functions.values():
        if "#" in f.qname:
            continue
        writes = []
        alias = {}
        for n in own_nodes(f.node):
            if isinstance(n, ast.Assign) and len(n.targets) == 1 and isinstance(n.targets[0], ast.Name) \
                    and isinstance(n.value, ast.Attribute) and n.value.attr in ("_quarter_times", "_quarter_durations"):
                alias[n.targets[0].id] = n.value
        for n in own_nodes(f.node):
            base = None
            if isinstance(n, ast.Attribute) and isinstance(n.ctx, ast.Store) and n.attr in ("_quarter_times", "_quarter_durations"):
                base = n.value
            elif isinstance(n, ast.Subscript) and isinstance(n.ctx, ast.Store):
                v = n.value
                if isinstance(v, ast.Attribute) and v.attr in ("_quarter_times", "_quarter_durations"):
                    base = v.value
                elif isinstance(v, ast.Name) and v.id in alias:
                    base = alias[v.id].value
            elif isinstance(n, ast.Call) and isinstance(n.func, ast.Attribute) and n.func.attr in ("insert", "append", "pop", "remove", "extend", "clear"):
                v = n.func.value
                if isinstance(v, ast.Attribute) and v.attr in ("_quarter_times", "_quarter_durations"):
                    base = v.value
                elif isinstance(v, ast.Name) and v.id in alias:
                    base = alias[v.id].value
            if base is not None:
                writes.append((n, norm(base)))
        if not writes:
            continue
        ctx.touch(f)
        cfg = w.inf.cfg(f)
        for n, base in writes:
            count += 1
            st = n
            while st is not None and cfg.node_of(st) is None:
                st = getattr(st, "_parent", None)
            cn = cfg.node_of(st)
            refresh = set()
            for m in cfg.nodes:
                if m.kind == "stmt" and isinstance(m.ast, ast.Assign):
                    for t in m.ast.targets:
                        if isinstance(t, ast.Attribute) and t.attr == "_quarter_map" and norm(t.value) == base:
                            refresh.add(m)
            escapes = cfg.paths_avoiding_flags(cn, refresh, {cfg.exit})
            ctx.check(not escapes, "F2b", f"{f.qname}:{norm(st)[:50]}", func=f, node=n,
                      construct=f"quarter-table-write-without-cache-refresh:{base}",
                      msg=f"`{norm(st)[:70]}` writes the quarter table of `{base}` but a path to the function's exit "
                          f"does not reassign `{base}._quarter_map`; get_or_add_point seeds TimePoint.quarter from the "
                          f"stale cache (every new point gets the old quarter duration)")
    ctx.floor("F2b", "quarter-table writes", count, 4)


def rule_F2c_F2d(ctx, only_quarter_tables=False):
    """only_quarter_tables: restrict to the methods that subscript the quarter tables and skip the point-link
    specification (for C02, which depends on the quarter table but not on the point list)."""
    ctx.rule("F2c", "every computed subscript of _points/_quarter_times/_quarter_durations is within [0, len-1] in every "
                    "order-type cell of (index, len) — abstract interpretation over representatives len=0..5, all "
                    "searchsorted results, insert/delete length shifts, short-circuit guards")
    ctx.rule("F2d", "after the statement that rebinds _points, the executed prev/next stores equal the specification in "
                    "every cell: insertion links (i-1,i) if i>0 and (i,i+1) if i<len'-1; deletion links (i-1,i) if "
                    "0<i<len', clears points[i-1].next if i=len'>0, clears points[0].prev if i=0<len'; no false link")
    prog = ctx.prog
    part = prog.cls(PART, "F2c")
    ins = find_point_mutator(prog, "insert")
    dele = find_point_mutator(prog, "delete")
    targets = []
    for ms in part.all_methods.values():
        for m in ms:
            if m.qname.split("#")[0] != m.qname:
                continue
            uses = False
            for n in own_nodes(m.node):
                if isinstance(n, ast.Subscript) and not isinstance(n.slice, ast.Slice):
                    v = n.value
                    if isinstance(v, ast.Attribute) and v.attr in (("_quarter_times", "_quarter_durations") if only_quarter_tables else
                                                                   ("_points", "_quarter_times", "_quarter_durations")):
                        uses = True
                    elif isinstance(v, ast.Name):
                        # alias of a tracked array?
                        for a in own_nodes(m.node):
                            if isinstance(a, ast.Assign) and len(a.targets) == 1 and isinstance(a.targets[0], ast.Name) \
                                    and a.targets[0].id == v.id and norm(a.value) in ARRAYS and \
                                    (not only_quarter_tables or "quarter" in norm(a.value)):
                                uses = True
            if uses:
                targets.append(m)
    ctx.floor("F2c", "Part methods with computed subscripts of the timeline arrays", len(targets), 2 if only_quarter_tables else 6)
    total_paths = total_subs = 0
    cells_seen = set()
    for m in sorted(targets, key=lambda x: x.qname):
        ctx.touch(m)
        member = ("self._points",) if m is dele else ()
        interp = IndexInterp(m.node, ARRAYS, member_probe=member, min_len={"Q": 1})
        try:
            results = interp.run_all()
        except _Unmodelled as e:
            raise AnalysisError("F2c", m.qname, f"construct not modelled by the index interpreter: {e}")
        total_paths += len(results)
        oob_cells = {}
        sub_sites = set()
        for r in results:
            for sv in r.subscripts:
                sub_sites.add(sv["expr"])
                total_subs += 1
            if r.outcome == "index-error":
                ev = r.oob
                cell = _cell(ev["idx"], ev["len"])
                oob_cells.setdefault((ev["expr"], cell), ev)
        for site in sorted(sub_sites):
            bad = [(c, ev) for (e, c), ev in oob_cells.items() if e == site]
            if not bad:
                ctx.ok("F2c", f"{m.qname}:{site}", "in range in every cell")
            for c, ev in bad:
                ctx.check(False, "F2c", f"{m.qname}:{site}", func=m, node=ev["node"],
                          construct=f"subscript-out-of-range:{site}:{c}",
                          msg=f"`{site}` is evaluated with index {c} (representative idx={ev['idx']}, len={ev['len']} "
                              f"at that moment) — IndexError on a valid call"
                              + (" (removing the last time point); Part.remove is then left half-done: the object is "
                                 "already out of the registry but still carries .start/.end" if m is dele else ""))
        # parallel arrays keep equal length
        if m.qname.endswith(".set_quarter_duration"):
            diffs = {r.lens["self._quarter_times"] - r.lens["self._quarter_durations"] for r in results
                     if r.outcome != "index-error"}
            ctx.check(diffs == {0}, "F2c", f"{m.qname}:parallel-length", func=m,
                      construct="quarter-tables-unequal-length",
                      msg="some path inserts into one of _quarter_times/_quarter_durations but not the other")
        # link completeness
        if (m is ins or m is dele) and not only_quarter_tables:
            _link_spec(ctx, m, results, "insert" if m is ins else "delete", cells_seen)
    ctx.extra["F2c_paths_explored"] = total_paths
    ctx.extra["F2c_subscript_evaluations"] = total_subs
    ctx.extra["F2d_cells"] = sorted(cells_seen)
    # class invariant used above: the quarter tables start with one entry and nothing ever removes one
    init = prog.func(f"{PART}.__init__", "F2c")
    ok_init = 0
    for n in own_nodes(init.node):
        if isinstance(n, ast.Assign) and len(n.targets) == 1 and norm(n.targets[0]) in \
                ("self._quarter_times", "self._quarter_durations") and isinstance(n.value, ast.List) and len(n.value.elts) == 1:
            ok_init += 1
    ctx.check(ok_init == 2, "F2c", "Part.__init__:quarter tables start with one entry", func=init,
              construct="quarter-table-initial-length",
              msg="Part.__init__ no longer initialises both quarter tables with exactly one entry; "
                  "quarter_duration_map indexes y[0]/y[-1] unconditionally")
    removers = [s for s in scan_private_stores(ctx) if s["attr"] in ("_quarter_times", "_quarter_durations")
                and s["kind"] in ("pop()", "remove()", "clear()") and s["timeline"] is not False]
    ctx.check(not removers, "F2c", "no removal from the quarter tables anywhere",
              func=removers[0]["func"] if removers else None, node=removers[0]["node"] if removers else None,
              construct="quarter-table-removal", where="partitura", file="partitura/score.py",
              msg="an entry is removed from the quarter tables: the len>=1 invariant behind quarter_duration_map breaks")


def _cell(idx, L):
    if idx < 0:
        return "i<0"
    if idx == L:
        return "i=len"
    if idx > L:
        return "i>len"
    return "0<=i<len"


def _link_spec(ctx, m, results, mode, cells_seen):
    missing_by_kind = {}
    false_links = {}
    n_cells = 0
    for r in results:
        if "self._points" not in r.mutated or r.mutated["self._points"] != mode:
            continue
        if r.outcome == "index-error":
            continue
        Lp = r.lens["self._points"]
        i = r.env.get("__ins_idx__" if mode == "insert" else "__del_idx__")
        if not isinstance(i, int):
            raise AnalysisError("F2d", m.qname, "insertion/deletion index is not the tracked searchsorted result")
        cell = ("len'=0" if Lp == 0 else "i=0<len'" if i == 0 and (Lp > 1 or mode == "delete") else
                "i=0=len'-1" if i == 0 else "i=len'" if i == Lp else "i=len'-1>0" if i == Lp - 1 else "0<i<len'-1")
        cells_seen.add(f"{mode}:{cell}")
        n_cells += 1
        expected = set()
        if mode == "insert":
            if i > 0:
                expected |= {(i - 1, "next", i), (i, "prev", i - 1)}
            if i < Lp - 1:
                expected |= {(i, "next", i + 1), (i + 1, "prev", i)}
        else:
            if 0 < i < Lp:
                expected |= {(i - 1, "next", i), (i, "prev", i - 1)}
            elif i == Lp and Lp > 0:
                expected |= {(i - 1, "next", None)}
            elif i == 0 and Lp > 0:
                expected |= {(0, "prev", None)}
        actual = set()
        for arr, ti, attr, vi, node in r.links:
            if arr != "self._points" or attr not in ("prev", "next"):
                continue
            actual.add((ti, attr, vi))
            true = (vi == ti + 1) if attr == "next" and vi is not None else \
                (vi == ti - 1) if attr == "prev" and vi is not None else \
                (ti == Lp - 1) if attr == "next" else (ti == 0)
            if vi == "⊤":
                true = True  # value not an element of the array: not judged
            if not true:
                false_links.setdefault(norm(node), (cell, node))
        for (ti, attr, vi) in expected - actual:
            kind = ("neighbour-link" if vi is not None else
                    "last.next=None" if attr == "next" else "first.prev=None")
            missing_by_kind.setdefault((kind, cell), (ti, attr, vi))
    role = "inserter" if mode == "insert" else "deleter"
    if n_cells == 0:
        raise AnalysisError("F2d", m.qname, "no path reaches the rebinding of _points")
    kinds = ["neighbour-link"] + (["last.next=None", "first.prev=None"] if mode == "delete" else [])
    for k in kinds:
        miss = {c: v for (kk, c), v in missing_by_kind.items() if kk == k}
        ctx.check(not miss, "F2d", f"{m.qname}:{role}:{k}", func=m, construct=f"{role}:missing:{k}",
                  msg=f"point {role}: in cell(s) {sorted(miss)} the store "
                      + "; ".join(f"points[{t}].{a} = {'points[%s]' % v if v is not None else 'None'}"
                                  for t, a, v in list(miss.values())[:2])
                      + " is required by the doubly-linked-list invariant but not executed — the neighbour keeps a "
                        "dangling reference to the removed point (iter_prev/iter_next then walk into a point that is no "
                        "longer on the timeline)")
    ctx.check(not false_links, "F2d", f"{m.qname}:{role}:no-false-link", func=m,
              node=list(false_links.values())[0][1] if false_links else None,
              construct=f"{role}:false-link",
              msg=f"point {role} executes a link store that does not connect adjacent points: "
                  + "; ".join(f"`{k}` in cell {c}" for k, (c, _) in list(false_links.items())[:3]))


# --------------------------------------------------------------------- F2e

def rule_F2e(ctx):
    ctx.rule("F2e", "each add_*_object files obj under its own class in the matching registry and sets the matching back "
                    "reference to self; each remover looks it up under the same class key and clears the back reference; "
                    "Part.remove does both for start and end on every path")
    prog = ctx.prog
    pairs = [("add_starting_object", "starting_objects", "start", "add"),
             ("add_ending_object", "ending_objects", "end", "add"),
             ("remove_starting_object", "starting_objects", "start", "remove"),
             ("remove_ending_object", "ending_objects", "end", "remove")]
    for mname, registry, back, mode in pairs:
        m = prog.func(f"{TP}.{mname}", "F2e")
        ctx.touch(m)
        params = m.params
        ctx.require(len(params) >= 2, "F2e", m.qname, "signature (self, obj) expected")
        selfn, obj = params[0], params[1]
        reg_ok = back_ok = other_reg = False
        for n in own_nodes(m.node):
            if isinstance(n, ast.Call) and isinstance(n.func, ast.Attribute) and n.func.attr in ("add", "append", "remove", "discard"):
                tgt = n.func.value
                if isinstance(tgt, ast.Subscript) and isinstance(tgt.value, ast.Attribute) \
                        and isinstance(tgt.value.value, ast.Name) and tgt.value.value.id == selfn:
                    right_verb = (n.func.attr in ("add", "append")) == (mode == "add")
                    key_ok = _class_key_of(tgt.slice, obj)
                    arg_ok = len(n.args) == 1 and isinstance(n.args[0], ast.Name) and n.args[0].id == obj
                    if tgt.value.attr == registry and right_verb and key_ok and arg_ok:
                        reg_ok = True
                    elif tgt.value.attr != registry and tgt.value.attr in ("starting_objects", "ending_objects"):
                        other_reg = True
            if isinstance(n, ast.Assign) and len(n.targets) == 1 and isinstance(n.targets[0], ast.Attribute) \
                    and isinstance(n.targets[0].value, ast.Name) and n.targets[0].value.id == obj:
                if n.targets[0].attr == back:
                    if mode == "add" and isinstance(n.value, ast.Name) and n.value.id == selfn:
                        back_ok = True
                    if mode == "remove" and isinstance(n.value, ast.Constant) and n.value.value is None:
                        back_ok = True
        ctx.check(reg_ok and not other_reg, "F2e", f"{m.qname}:registry", func=m, construct=f"registry:{mname}",
                  msg=f"{mname} must {mode} `{obj}` {'to' if mode == 'add' else 'from'} self.{registry}[type({obj})] "
                      f"(same class key on both sides, matching registry)")
        ctx.check(back_ok, "F2e", f"{m.qname}:backref", func=m, construct=f"backref:{mname}",
                  msg=f"{mname} must set {obj}.{back} = {'self' if mode == 'add' else 'None'}: an object's start/end must "
                      f"refer to the very point that lists it")
    # Part.remove
    rm = prog.func(f"{PART}.remove", "F2e")
    ctx.touch(rm)
    o = rm.params[1]
    cfg = world(ctx).inf.cfg(rm)
    for registry, back in (("starting_objects", "start"), ("ending_objects", "end")):
        dereg = None
        for n in own_nodes(rm.node):
            if isinstance(n, ast.Call) and isinstance(n.func, ast.Attribute) and n.func.attr in ("remove", "discard"):
                tgt = n.func.value
                if isinstance(tgt, ast.Subscript) and isinstance(tgt.value, ast.Attribute) and tgt.value.attr == registry \
                        and norm(tgt.value.value) == f"{o}.{back}" and _class_key_of(tgt.slice, o):
                    dereg = n
            if isinstance(n, ast.Call) and isinstance(n.func, ast.Attribute) and \
                    n.func.attr == f"remove_{'starting' if back == 'start' else 'ending'}_object" \
                    and norm(n.func.value) == f"{o}.{back}":
                dereg = n
        ok = dereg is not None
        ctx.check(ok, "F2e", f"{rm.qname}:{registry}", func=rm, construct=f"Part.remove:{registry}",
                  msg=f"Part.remove must take `{o}` out of {o}.{back}.{registry}[class of {o}]")
        if not ok:
            continue
        st = dereg
        while cfg.node_of(st) is None:
            st = st._parent
        clear = set()
        for mnode in cfg.nodes:
            if mnode.kind == "stmt" and isinstance(mnode.ast, ast.Assign) and any(
                    norm(t) == f"{o}.{back}" for t in mnode.ast.targets) \
                    and isinstance(mnode.ast.value, ast.Constant) and mnode.ast.value.value is None:
                clear.add(mnode)
            if mnode.kind == "stmt" and isinstance(mnode.ast, ast.Expr) and isinstance(mnode.ast.value, ast.Call) \
                    and norm(mnode.ast.value.func).endswith(f"remove_{'starting' if back == 'start' else 'ending'}_object"):
                clear.add(mnode)
        if dereg is not None and isinstance(dereg.func, ast.Attribute) and dereg.func.attr.startswith("remove_"):
            escapes = False
        else:
            escapes = cfg.paths_avoiding(cfg.node_of(st), clear, {cfg.exit})
        ctx.check(not escapes, "F2e", f"{rm.qname}:{back}=None", func=rm, node=dereg,
                  construct=f"Part.remove:{back}-not-cleared",
                  msg=f"after deregistration from {registry} some normal path leaves `{o}.{back}` set: the object would "
                      f"refer to a point that no longer lists it")


def _class_key_of(key, obj) -> bool:
    # type(obj)  or  obj.__class__
    if isinstance(key, ast.Call) and isinstance(key.func, ast.Name) and key.func.id == "type" and len(key.args) == 1 \
            and isinstance(key.args[0], ast.Name) and key.args[0].id == obj:
        return True
    if isinstance(key, ast.Attribute) and key.attr == "__class__" and isinstance(key.value, ast.Name) and key.value.id == obj:
        return True
    return False


# --------------------------------------------------------------------- F2f

def is_negative_test(test, name) -> bool:
    """test is (equivalent to)  name < 0."""
    if isinstance(test, ast.Compare) and len(test.ops) == 1:
        l, op, r = test.left, test.ops[0], test.comparators[0]
        if isinstance(l, ast.Name) and l.id == name and isinstance(r, ast.Constant) and r.value == 0 and isinstance(op, ast.Lt):
            return True
        if isinstance(r, ast.Name) and r.id == name and isinstance(l, ast.Constant) and l.value == 0 and isinstance(op, ast.Gt):
            return True
    if isinstance(test, ast.UnaryOp) and isinstance(test.op, ast.Not):
        t = test.operand
        if isinstance(t, ast.Compare) and len(t.ops) == 1:
            l, op, r = t.left, t.ops[0], t.comparators[0]
            if isinstance(l, ast.Name) and l.id == name and isinstance(r, ast.Constant) and r.value == 0 and isinstance(op, ast.GtE):
                return True
            if isinstance(r, ast.Name) and r.id == name and isinstance(l, ast.Constant) and l.value == 0 and isinstance(op, ast.LtE):
                return True
    return False


def rule_F2f(ctx):
    ctx.rule("F2f", "in add/get_point/get_or_add_point the raise for a negative time dominates every use of that time "
                    "that can reach the point inserter or the binary search")
    prog = ctx.prog
    w = world(ctx)
    specs = [(f"{PART}.add", ["start", "end"], ("get_or_add_point", "_add_point", "get_point")),
             (f"{PART}.get_or_add_point", ["t"], ("_add_point", "TimePoint", "get_point")),
             (f"{PART}.get_point", ["t"], ("searchsorted",))]
    ins = find_point_mutator(prog, "insert")
    for q, params, sinks in specs:
        f = prog.func(q, "F2f")
        ctx.touch(f)
        cfg = w.inf.cfg(f)
        dom = cfg.dominators(include_exc=False)
        for p in params:
            ctx.require(p in f.params, "F2f", q, f"parameter {p} not found")
            uses = []
            for n in cfg.nodes:
                if n.ast is None or n.kind not in ("stmt", "test"):
                    continue
                for c in ast.walk(n.ast):
                    if isinstance(c, ast.Call):
                        fn = norm(c.func)
                        if any(fn.endswith(s) or fn.endswith(ins.name) for s in sinks):
                            if any(isinstance(a, ast.Name) and a.id == p for a in ast.walk(c)):
                                uses.append((n, c))
            if q.endswith(".get_or_add_point") or q.endswith(".get_point"):
                ctx.require(uses, "F2f", q, f"no sink uses parameter {p}")
            guards = []
            for n in cfg.nodes:
                if n.kind == "test" and is_negative_test(n.ast, p):
                    # T edge must lead to a raise without reaching exit normally
                    tsucc = [m for m, l in n.succ if l == "T"]
                    fsucc = {m for m, l in n.succ if l == "F"}
                    if tsucc and not cfg.paths_avoiding(n, fsucc, {cfg.exit}):
                        guards.append(n)
            for n, c in uses:
                ok = False
                for g in guards:
                    if g in dom.get(n, ()):
                        # the use must be on the F side of the guard
                        fside = [m for m, l in g.succ if l == "F"]
                        tside = [m for m, l in g.succ if l == "T"]
                        if tside and not cfg.reaches(tside[0], n) and tside[0] is not n:
                            ok = True
                ctx.check(ok, "F2f", f"{q}:{p}->{norm(c.func)}", func=f, node=c,
                          construct=f"negative-time-unguarded:{p}:{norm(c.func)}",
                          msg=f"`{norm(c)[:60]}` uses `{p}` without a dominating `if {p} < 0: raise` — a negative time "
                              f"point could enter the timeline")


# --------------------------------------------------------------------- F2g / F2h

def rule_F2g(ctx):
    ctx.rule("F2g", "queries read the registries the adders write: iter_starting/iter_ending yield from the matching "
                    "registry under cls and, with include_subclasses, under every iter_subclasses(cls); iter_all routes "
                    "mode 'ending' to iter_ending and everything else to iter_starting over a searchsorted slice; "
                    "iter_prev/iter_next walk only .prev/.next; TimePoint._cmpkey is the time")
    prog = ctx.prog
    for mname, registry in (("iter_starting", "starting_objects"), ("iter_ending", "ending_objects")):
        m = prog.func(f"{TP}.{mname}", "F2g")
        ctx.touch(m)
        selfn, cls = m.params[0], m.params[1]
        regs = set()
        direct = sub = False
        for n in own_nodes(m.node):
            if isinstance(n, ast.Subscript) and isinstance(n.value, ast.Attribute) and isinstance(n.value.value, ast.Name) \
                    and n.value.value.id == selfn and n.value.attr.endswith("_objects"):
                regs.add(n.value.attr)
                p = getattr(n, "_parent", None)
                if isinstance(p, ast.YieldFrom) or isinstance(p, ast.For):
                    if isinstance(n.slice, ast.Name) and n.slice.id == cls:
                        direct = True
                    elif isinstance(n.slice, ast.Name):
                        # loop variable over iter_subclasses(cls) under `if include_subclasses`
                        q = n
                        loop = guard = None
                        while q is not None and q is not m.node:
                            if isinstance(q, ast.For) and isinstance(q.target, ast.Name) and q.target.id == n.slice.id \
                                    and isinstance(q.iter, ast.Call) and norm(q.iter.func).endswith("iter_subclasses") \
                                    and q.iter.args and norm(q.iter.args[0]) == cls:
                                loop = q
                            if isinstance(q, ast.If) and "include_subclasses" in norm(q.test):
                                guard = q
                            q = getattr(q, "_parent", None)
                        if loop is not None and guard is not None:
                            sub = True
        ctx.check(regs == {registry}, "F2g", f"{m.qname}:registry", func=m, construct=f"{mname}:registry",
                  msg=f"{mname} must read only self.{registry} (found {sorted(regs)})")
        ctx.check(direct, "F2g", f"{m.qname}:direct", func=m, construct=f"{mname}:direct",
                  msg=f"{mname} must yield the objects filed under `{cls}` itself")
        ctx.check(sub, "F2g", f"{m.qname}:subclasses", func=m, construct=f"{mname}:subclasses",
                  msg=f"{mname} must, under include_subclasses, yield the objects filed under every iter_subclasses({cls})")
    for mname, attr in (("iter_prev", "prev"), ("iter_next", "next")):
        m = prog.func(f"{TP}.{mname}", "F2g")
        ctx.touch(m)
        attrs = set()
        calls = set()
        for n in own_nodes(m.node):
            if isinstance(n, ast.Assign) and isinstance(n.value, ast.Attribute) and n.value.attr in ("prev", "next"):
                attrs.add(n.value.attr)
            if isinstance(n, ast.Call) and isinstance(n.func, ast.Attribute) and n.func.attr.startswith("iter_"):
                calls.add(n.func.attr)
        ctx.check(attrs == {attr}, "F2g", f"{m.qname}:direction", func=m, construct=f"{mname}:direction",
                  msg=f"{mname} must advance only through .{attr} (found {sorted(attrs)})")
        ctx.check(calls == {"iter_starting"}, "F2g", f"{m.qname}:source", func=m, construct=f"{mname}:source",
                  msg=f"{mname} must collect with iter_starting (found {sorted(calls)})")
    ia = prog.func(f"{PART}.iter_all", "F2g")
    ctx.touch(ia)
    routed = {}
    for n in own_nodes(ia.node):
        if isinstance(n, ast.If) and isinstance(n.test, ast.Compare) and "mode" in norm(n.test.left) \
                and isinstance(n.test.comparators[0], ast.Constant) and n.test.comparators[0].value in ("ending", "starting") \
                and isinstance(n.test.ops[0], ast.Eq):
            val = n.test.comparators[0].value
            for br, stmts in (("T", n.body), ("F", n.orelse)):
                for s in stmts:
                    for c in ast.walk(s):
                        if isinstance(c, ast.Call) and isinstance(c.func, ast.Attribute) and c.func.attr in ("iter_starting", "iter_ending"):
                            key = val if br == "T" else ("starting" if val == "ending" else "ending")
                            routed.setdefault(key, set()).add(c.func.attr)
    ctx.require(routed, "F2g", ia.qname, "mode dispatch not recognised")
    ctx.check(routed.get("ending") == {"iter_ending"} and routed.get("starting") == {"iter_starting"}, "F2g",
              f"{ia.qname}:mode-dispatch", func=ia, construct="iter_all:mode-dispatch",
              msg=f"iter_all must route mode 'ending' to iter_ending and 'starting' to iter_starting (found {routed})")
    # the iteration range is a slice of _points between two searchsorted results / 0 / len
    idx_defs = {}
    for n in own_nodes(ia.node):
        if isinstance(n, ast.Assign) and len(n.targets) == 1 and isinstance(n.targets[0], ast.Name):
            idx_defs.setdefault(n.targets[0].id, []).append(n.value)
    slices = [n for n in own_nodes(ia.node) if isinstance(n, ast.Subscript) and norm(n.value) == "self._points"
              and isinstance(n.slice, ast.Slice)]
    ctx.require(slices, "F2g", ia.qname, "no slice of self._points")
    for s in slices:
        ok = True
        for bound, probe_param, default in ((s.slice.lower, ia.params[2], "0"), (s.slice.upper, ia.params[3], "len(self._points)")):
            if not isinstance(bound, ast.Name) or bound.id not in idx_defs:
                ok = False
                continue
            forms = {norm(v) for v in idx_defs[bound.id]}
            want = {default, f"np.searchsorted(self._points, {probe_param})"}
            if forms != want:
                ok = False
        ctx.check(ok, "F2g", f"{ia.qname}:range:{norm(s)}", func=ia, node=s, construct="iter_all:range",
                  msg="iter_all must iterate over self._points[searchsorted(start):searchsorted(end)] (0 / len when "
                      "the bound is omitted): half-open interval lookup")
    ck = prog.func(f"{TP}._cmpkey", "F2g")
    rets = [n for n in own_nodes(ck.node) if isinstance(n, ast.Return)]
    ctx.check(len(rets) == 1 and norm(rets[0].value) == f"{ck.params[0]}.t", "F2g", f"{ck.qname}", func=ck,
              construct="cmpkey", msg="TimePoint._cmpkey must return the time: searchsorted orders points by it")


def rule_F2h(ctx):
    ctx.rule("F2h", "each point carries the quarter duration in force: get_or_add_point seeds TimePoint.quarter from "
                    "self._quarter_map at the same t; set_quarter_duration rewrites .quarter exactly on the slice "
                    "[searchsorted(t), searchsorted(t_next)) with t_next the next change or infinity")
    prog = ctx.prog
    g = prog.func(f"{PART}.get_or_add_point", "F2h")
    ctx.touch(g)
    t = g.params[1]
    ctor = [n for n in own_nodes(g.node) if isinstance(n, ast.Call) and norm(n.func) == "TimePoint"]
    ctx.require(ctor, "F2h", g.qname, "no TimePoint construction")
    for c in ctor:
        args = list(c.args) + [k.value for k in c.keywords]
        first_ok = bool(c.args) and norm(c.args[0]) == t
        q = c.args[1] if len(c.args) > 1 else next((k.value for k in c.keywords if k.arg == "quarter"), None)
        seeded = q is not None and any(isinstance(x, ast.Call) and norm(x.func) == "self._quarter_map" and x.args
                                       and norm(x.args[0]) == t for x in ast.walk(q))
        ctx.check(first_ok and seeded, "F2h", f"{g.qname}:seed", func=g, node=c, construct="new-point-quarter-seed",
                  msg=f"a new point must be created as TimePoint({t}, <self._quarter_map({t})>): it would otherwise not "
                      f"carry the quarter duration in force at its time")
    s = prog.func(f"{PART}.set_quarter_duration", "F2h")
    ctx.touch(s)
    tparam, qparam = s.params[1], s.params[2]
    defs = {}
    for n in own_nodes(s.node):
        if isinstance(n, ast.Assign) and len(n.targets) == 1 and isinstance(n.targets[0], ast.Name):
            defs.setdefault(n.targets[0].id, []).append(n.value)
    loops = [n for n in own_nodes(s.node) if isinstance(n, ast.For) and isinstance(n.iter, ast.Subscript)
             and norm(n.iter.value) == "self._points" and isinstance(n.iter.slice, ast.Slice)]
    ctx.require(len(loops) == 1, "F2h", s.qname, "propagation loop over a slice of self._points not recognised")
    lp = loops[0]
    lo, hi = lp.iter.slice.lower, lp.iter.slice.upper

    def probe_of(bound):
        if not isinstance(bound, ast.Name) or len(defs.get(bound.id, [])) != 1:
            return None
        v = defs[bound.id][0]
        if isinstance(v, ast.Call) and norm(v.func) in ("np.searchsorted", "numpy.searchsorted") and len(v.args) >= 2 \
                and norm(v.args[0]) == "self._points":
            side = next((k.value for k in v.keywords if k.arg == "side"), None)
            if side is not None and not (isinstance(side, ast.Constant) and side.value == "left"):
                return None
            return v.args[1]
        return None

    plo, phi = probe_of(lo), probe_of(hi)
    lo_ok = plo is not None and norm(plo) == f"TimePoint({tparam})"
    hi_ok = False
    if phi is not None and isinstance(phi, ast.Call) and norm(phi.func) == "TimePoint" and phi.args \
            and isinstance(phi.args[0], ast.Name):
        tn = phi.args[0].id
        vals = defs.get(tn, [])
        # the index of the change just written: a name defined by searchsorted(<quarter times>, t)
        idx_names = {k for k, vs in defs.items() for v in vs if isinstance(v, ast.Call) and norm(v.func) in ("np.searchsorted", "numpy.searchsorted")
                     and len(v.args) >= 2 and norm(v.args[1]) == tparam}
        has_inf = any(any(isinstance(x, ast.Attribute) and x.attr == "inf" for x in ast.walk(v)) for v in vals)
        has_next = any(isinstance(v, ast.Subscript) and isinstance(v.slice, ast.BinOp) and isinstance(v.slice.op, ast.Add)
                       and isinstance(v.slice.left, ast.Name) and v.slice.left.id in idx_names
                       and isinstance(v.slice.right, ast.Constant) and v.slice.right.value == 1 for v in vals)
        hi_ok = has_inf and has_next and len(vals) == 2
    ctx.check(lo_ok, "F2h", f"{s.qname}:slice-lower", func=s, node=lp, construct="quarter-propagation:lower",
              msg=f"the propagation must start at searchsorted(points, TimePoint({tparam})) (left side): the new "
                  f"duration is in force from t on, t included")
    ctx.check(hi_ok, "F2h", f"{s.qname}:slice-upper", func=s, node=lp, construct="quarter-propagation:upper",
              msg="the propagation must stop at searchsorted(points, TimePoint(t_next)) with t_next the next change in "
                  "the table or infinity: 'up to the next later change and nothing else'")
    body_ok = any(isinstance(b, ast.Assign) and isinstance(b.targets[0], ast.Attribute) and b.targets[0].attr == "quarter"
                  and norm(b.targets[0].value) == norm(lp.target) and norm(b.value) == qparam for b in lp.body)
    ctx.check(body_ok, "F2h", f"{s.qname}:assign", func=s, node=lp, construct="quarter-propagation:assign",
              msg=f"each point of the slice must receive .quarter = {qparam}")


# --------------------------------------------------------------------- F2i: comparison mixin, subclass walk, clean-up

def rule_F2i(ctx):
    ctx.rule("F2i", "the order searchsorted relies on: every rich comparison of ComparableMixin applies its own operator to "
                    "self._cmpkey()/other._cmpkey() (checked on all order types of two keys); iter_subclasses yields every direct "
                    "subclass once and recurses into it; _cleanup_point removes a point only when both registries are empty")
    from .extra import weak_orderings, eval_cmp
    prog = ctx.prog
    cm = prog.cls("partitura.utils.generic:ComparableMixin", "F2i")
    want = {"__lt__": lambda a, b: a < b, "__le__": lambda a, b: a <= b, "__eq__": lambda a, b: a == b,
            "__ge__": lambda a, b: a >= b, "__gt__": lambda a, b: a > b, "__ne__": lambda a, b: a != b}
    cmp_ = cm.methods.get("_compare")
    ctx.require(cmp_ is not None, "F2i", cm.qname, "_compare not found")
    ctx.touch(cmp_)
    calls = [n for n in own_nodes(cmp_.node) if isinstance(n, ast.Call) and isinstance(n.func, ast.Name) and n.func.id == cmp_.params[2]]
    ok = len(calls) == 1 and [norm(a) for a in calls[0].args] == [f"{cmp_.params[0]}._cmpkey()", f"{cmp_.params[1]}._cmpkey()"]
    ctx.check(ok, "F2i", "_compare(self, other, op) = op(self key, other key)", func=cmp_, construct="compare-argument-order",
              msg="_compare must apply the operator to (self._cmpkey(), other._cmpkey()) in this order")
    for name, spec in want.items():
        m = cm.methods.get(name)
        ctx.require(m is not None, "F2i", f"{cm.qname}.{name}", "missing")
        ctx.touch(m)
        lam = [n for n in own_nodes(m.node) if isinstance(n, ast.Lambda)]
        # the operator may also be taken from the standard library: operator.lt, operator.le, ...
        ops = [n for n in own_nodes(m.node) if isinstance(n, ast.Attribute) and isinstance(n.value, ast.Name) and n.value.id == "operator"]
        if not lam and len(ops) == 1:
            ctx.check(ops[0].attr == name.strip("_"), "F2i", f"ComparableMixin.{name}", func=m, construct=f"comparison-operator:{name}",
                      msg=f"{name} applies operator.{ops[0].attr} to the comparison keys: binary search over the time points (np.searchsorted) would find "
                          f"wrong positions")
            continue
        ok = len(lam) == 1 and len(lam[0].args.args) == 2
        bad = None
        if ok:
            a, b = (x.arg for x in lam[0].args.args)
            for env in weak_orderings([a, b]):
                got = eval_cmp(lam[0].body, env)
                if got is None or got != spec(env[a], env[b]):
                    ok, bad = False, env
        ctx.check(ok, "F2i", f"ComparableMixin.{name}", func=m, construct=f"comparison-operator:{name}",
                  msg=f"{name} does not implement its own operator on the comparison keys (counter-example ordering {bad}): binary search "
                      f"over the time points (np.searchsorted) would find wrong positions")
    isub = prog.func("partitura.utils.generic:iter_subclasses", "F2i")
    ctx.touch(isub)
    src_calls = {norm(n.func) for n in own_nodes(isub.node) if isinstance(n, ast.Call)}
    # each direct subclass is yielded, the walk recurses into it *with the shared seen-set*, and what the recursion finds is yielded
    loops = [l for l in own_nodes(isub.node) if isinstance(l, ast.For) and isinstance(l.target, ast.Name)]
    seen_p = isub.params[1] if len(isub.params) > 1 else None
    ok = any(c.endswith(".__subclasses__") for c in src_calls) and seen_p is not None
    found = False
    for lp in loops:
        var = lp.target.id
        direct = any(isinstance(y, ast.Yield) and isinstance(y.value, ast.Name) and y.value.id == var for y in ast.walk(lp))
        recs = [c for c in ast.walk(lp) if isinstance(c, ast.Call) and norm(c.func) == "iter_subclasses" and c.args and norm(c.args[0]) == var]
        shared = any((len(c.args) >= 2 and norm(c.args[1]) == seen_p) or any(k.arg == seen_p and norm(k.value) == seen_p for k in c.keywords) for c in recs)
        passed_on = any((isinstance(y, ast.YieldFrom) and y.value in recs) or
                        (isinstance(y, ast.For) and y.iter in recs and any(isinstance(z, ast.Yield) for z in ast.walk(y))) for y in ast.walk(lp))
        found = found or (direct and shared and passed_on)
    ok = ok and found
    ctx.check(ok, "F2i", "iter_subclasses: direct subclasses + recursion", func=isub, construct="subclass-walk",
              msg="iter_subclasses must yield every direct subclass (cls.__subclasses__()) and the subclasses of each, recursively: "
                  "include_subclasses=True queries would otherwise miss registered objects")
    cu = prog.func(f"{PART}._cleanup_point", "F2i")
    ctx.touch(cu)
    regs = {n.attr for n in own_nodes(cu.node) if isinstance(n, ast.Attribute) and n.attr in ("starting_objects", "ending_objects")}
    tests = [n for n in own_nodes(cu.node) if isinstance(n, ast.If)]
    guarded = any(isinstance(c, ast.Call) and norm(c.func).endswith("_remove_point") or (isinstance(c, ast.Call) and "remove" in norm(c.func))
                  for t in tests for s in t.body for c in ast.walk(s))
    ctx.check(regs == {"starting_objects", "ending_objects"} and guarded and len(tests) == 1, "F2i", "_cleanup_point consults both registries", func=cu,
              construct="cleanup-registries",
              msg=f"_cleanup_point must remove a point only when neither starting nor ending objects remain (registries consulted: {sorted(regs)}): a point "
                  f"that still lists objects would vanish from the timeline, or an empty one would stay")
