"""Rules about structured-array builders (C05, C13, C14): F4a dtype/row agreement,
F9 permutation consistency, rescaling set."""
from __future__ import annotations

import ast
from typing import Dict, List, Optional, Tuple

from ..core.program import AnalysisError, FuncInfo, own_nodes, own_statements, norm
from ..core.world import world


def _guard_of(stmt, fnode) -> str:
    """Normalised text of the innermost enclosing `if` test (with branch), '' if unconditional
    (loops are transparent)."""
    guards = []
    child = stmt
    p = getattr(stmt, "_parent", None)
    while p is not None and p is not fnode:
        if isinstance(p, ast.If):
            if any(child is s for s in p.body):
                guards.append(norm(p.test))
            else:
                guards.append("not (" + norm(p.test) + ")")
        child = p
        p = getattr(p, "_parent", None)
    return " & ".join(reversed(guards))


def dtype_groups(f: FuncInfo, var: str) -> List[Tuple[str, List[str], ast.AST]]:
    """[(guard, [field names], node)] in source order for `var = [...]` / `var += [...]`."""
    out = []
    for s in own_statements(f.node.body):
        val = None
        if isinstance(s, ast.AugAssign) and isinstance(s.op, ast.Add) and norm(s.target) == var:
            val = s.value
        elif isinstance(s, ast.Assign) and len(s.targets) == 1 and norm(s.targets[0]) == var:
            val = s.value
        elif isinstance(s, ast.Expr) and isinstance(s.value, ast.Call) and isinstance(s.value.func, ast.Attribute) and norm(s.value.func.value) == var \
                and len(s.value.args) == 1:
            if s.value.func.attr == "extend" and isinstance(s.value.args[0], (ast.List, ast.Tuple)):
                val = ast.List(elts=list(s.value.args[0].elts), ctx=ast.Load())
            elif s.value.func.attr == "append":
                val = ast.List(elts=[s.value.args[0]], ctx=ast.Load())
        if val is None or not isinstance(val, ast.List):
            continue
        names = []
        for e in val.elts:
            if isinstance(e, ast.Tuple) and e.elts and isinstance(e.elts[0], ast.Constant):
                names.append(e.elts[0].value)
            else:
                names.append("?")
        if names:
            out.append((_guard_of(s, f.node), names, s))
    return out


def row_groups(f: FuncInfo, var: str) -> List[Tuple[str, int, ast.AST]]:
    out = []
    for s in own_statements(f.node.body):
        val = None
        if isinstance(s, ast.AugAssign) and isinstance(s.op, ast.Add) and norm(s.target) == var:
            val = s.value
        elif isinstance(s, ast.Assign) and len(s.targets) == 1 and norm(s.targets[0]) == var and isinstance(s.value, ast.Tuple) and s.value.elts:
            val = s.value
        elif isinstance(s, ast.Expr) and isinstance(s.value, ast.Call) and isinstance(s.value.func, ast.Attribute) and norm(s.value.func.value) == var \
                and len(s.value.args) == 1:
            # a row built in a list and converted with tuple(): `.extend((a, b))` adds len values, `.append(x)` one
            if s.value.func.attr == "extend" and isinstance(s.value.args[0], (ast.List, ast.Tuple)):
                val = ast.Tuple(elts=list(s.value.args[0].elts), ctx=ast.Load())
            elif s.value.func.attr == "append":
                val = ast.Tuple(elts=[s.value.args[0]], ctx=ast.Load())
        if val is None or not isinstance(val, ast.Tuple):
            continue
        out.append((_guard_of(s, f.node), len(val.elts), s))
    return out


def builder_vars(f: FuncInfo):
    """(dtype list variable, row tuple variable) of a structured-array builder, by role:
    np.array(<rows>, dtype=<fields>) and <rows>.append(<row>)."""
    for n in own_nodes(f.node):
        if isinstance(n, ast.Call) and norm(n.func) in ("np.array", "numpy.array") and n.args and isinstance(n.args[0], ast.Name):
            dt = next((k.value for k in n.keywords if k.arg == "dtype"), None)
            if isinstance(dt, ast.Name):
                rows = n.args[0].id
                for a in own_nodes(f.node):
                    if isinstance(a, ast.Call) and norm(a.func) == f"{rows}.append" and a.args:
                        r = a.args[0]
                        if isinstance(r, ast.Call) and norm(r.func) in ("tuple", "list") and len(r.args) == 1:
                            r = r.args[0]
                        if isinstance(r, ast.Name):
                            return dt.id, r.id
    raise AnalysisError("F4a", f.qname, "np.array(<rows>, dtype=<fields>) / <rows>.append(<row>) not found")


def rule_F4a(ctx, qname: str, fields_var: str, row_var: str, min_groups: int):
    ctx.rule("F4a", "in each structured-array builder the sequence of (guard, arity) pairs of the dtype field list and of "
                    "the row tuple are identical: one row layout whatever the options")
    f = ctx.prog.func(qname, "F4a")
    ctx.touch(f)
    fields_var, row_var = builder_vars(f)
    dg = dtype_groups(f, fields_var)
    rg = row_groups(f, row_var)
    if len(dg) < min_groups or len(rg) < min_groups:
        raise AnalysisError("F4a", qname, f"only {len(dg)} dtype / {len(rg)} row groups recognised (floor {min_groups})")
    ctx.extra.setdefault("F4a_groups", {})[qname] = {"dtype": [(g, n) for g, n, _ in dg], "row": [(g, k) for g, k, _ in rg]}
    i = 0
    for (g1, names, n1), (g2, k, n2) in zip(dg, rg):
        ok = g1 == g2 and len(names) == k
        ctx.check(ok, "F4a", f"{qname}:group{i}:{'/'.join(names)}", func=f, node=n2,
                  construct=f"dtype-row-mismatch:{'/'.join(names)}",
                  msg=f"dtype group {names} (guard `{g1 or 'always'}`) does not match the row group #{i} "
                      f"({k} values, guard `{g2 or 'always'}`): rows would not fit the declared layout")
        i += 1
    ctx.check(len(dg) == len(rg), "F4a", f"{qname}:group-count", func=f, construct="dtype-row-group-count",
              msg=f"{len(dg)} dtype groups but {len(rg)} row groups")
    return dg, rg


# ------------------------------------------------------------------------ F9c

def rule_F9c(ctx, qnames: List[str]):
    ctx.rule("F9c", "rows are ordered by onset, then pitch: an argsort on the pitch column, re-indexing, then a *stable* "
                    "argsort (kind='mergesort'|'stable') on the onset column, re-indexing — the same idiom in all builders")
    for q in qnames:
        f = ctx.prog.func(q, "F9c")
        ctx.touch(f)
        # sort steps in source order: (array, column, kind, node); either `i = np.argsort(A[col]); A = A[i]` or, in canonical
        # form (single-use temporaries are read in place, core/program.py), `A = A[np.argsort(A[col])]`
        def argsort_of(c):
            if isinstance(c, ast.Call) and norm(c.func) in ("np.argsort", "numpy.argsort") and c.args:
                key = c.args[0]
                kind = next((k.value.value for k in c.keywords if k.arg == "kind" and isinstance(k.value, ast.Constant)), None)
                if isinstance(key, ast.Subscript):
                    return norm(key.value), norm(key.slice), kind
                return None, None, kind
            return None
        pending = {}
        steps = []
        for s in own_statements(f.node.body):
            if not (isinstance(s, ast.Assign) and len(s.targets) == 1):
                continue
            a = argsort_of(s.value)
            if a is not None and isinstance(s.targets[0], ast.Name):
                pending[s.targets[0].id] = (a, s)
                continue
            if isinstance(s.value, ast.Subscript) and norm(s.targets[0]) == norm(s.value.value):
                arr = norm(s.targets[0])
                if isinstance(s.value.slice, ast.Name) and s.value.slice.id in pending:
                    (src, col, kind), n0 = pending[s.value.slice.id]
                    steps.append((arr, src, col, kind, s))
                else:
                    a = argsort_of(s.value.slice)
                    if a is not None:
                        steps.append((arr, a[0], a[1], a[2], s))
        ok = False
        why = "sort idiom not found"
        args = steps
        if len(steps) >= 2:
            s1, s2 = steps[-2], steps[-1]
            if s1[2] != "'pitch'":
                why = f"first sort key is {s1[2]}, expected the pitch column"
            elif s2[2] in ("'pitch'",) or s2[2] is None:
                why = f"second sort key is {s2[2]}, expected the onset column"
            elif s2[3] not in ("mergesort", "stable"):
                why = f"the onset argsort is not stable (kind={s2[3]!r}): equal onsets lose their pitch order"
            elif not (s1[0] == s1[1] == s2[0] == s2[1]):
                why = "the two sorts index different arrays"
            else:
                ok = True
        ctx.check(ok, "F9c", f"{q}:onset-then-pitch", func=f, node=args[-1][4] if args else None,
                  construct="stable-onset-sort", msg=f"{q.split(':')[1]}: {why}")


# ------------------------------------------------------------------- rescaling

def rule_rescale_set(ctx, builder_q: str, list_q: str, fields_var="fields", only=None):
    """only: restrict the obligation to these columns (a property that depends on some of the columns only)."""
    ctx.rule("RESCALE", "every division-unit column the row builder can produce (name ending in _div, and divs_pq) is "
                        "multiplied by the per-part factor in the lcm rescaling loop of the part-list function")
    b = ctx.prog.func(builder_q, "RESCALE")
    l = ctx.prog.func(list_q, "RESCALE")
    ctx.touch(b, l)
    fields_var, _ = builder_vars(b)
    produced = set()
    for g, names, _ in dtype_groups(b, fields_var):
        for n in names:
            if n.endswith("_div") or n == "divs_pq":
                produced.add(n)
    ctx.require(len(produced) >= 3, "RESCALE", builder_q, f"division-unit fields not recognised: {produced}")
    scaled = set()
    mult_names = set()
    for n in own_nodes(l.node):
        if isinstance(n, ast.Assign) and len(n.targets) == 1 and isinstance(n.targets[0], ast.Subscript) \
                and isinstance(n.value, ast.BinOp) and isinstance(n.value.op, ast.Mult):
            tgt = n.targets[0]
            sides = [n.value.left, n.value.right]
            same = [s for s in sides if norm(s) == norm(tgt)]
            if not same:
                continue
            key = tgt.slice
            if isinstance(key, ast.Constant):
                scaled.add(key.value)
            elif isinstance(key, ast.Name):
                # loop variable over a literal tuple/list of field names
                p = n
                while p is not None and p is not l.node:
                    if isinstance(p, ast.For) and isinstance(p.target, ast.Name) and p.target.id == key.id \
                            and isinstance(p.iter, (ast.Tuple, ast.List)):
                        for e in p.iter.elts:
                            if isinstance(e, ast.Constant):
                                scaled.add(e.value)
                    p = getattr(p, "_parent", None)
    ctx.require(scaled, "RESCALE", list_q, "rescaling loop not recognised")
    for fld in sorted(produced):
        if only is not None and fld not in only:
            continue
        ctx.check(fld in scaled, "RESCALE", f"{list_q}:{fld}", func=l, construct=f"not-rescaled:{fld}",
                  msg=f"column `{fld}` is in division units but is not multiplied by the per-part factor when parts "
                      f"with different divisions are combined: after rescaling `divs_pq` is the lcm in every row while "
                      f"`{fld}` still counts the part's own divisions")
    return produced, scaled
