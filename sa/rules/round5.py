"""Rules added after the fifth round of seeded changes (class-hierarchy discipline of timed objects, forwarding in recursive
calls, value classes whose __eq__ must cover what they print)."""
from __future__ import annotations

import ast
from typing import List

from ..core.program import AnalysisError, FuncInfo, own_nodes, norm


def _family(prog, root_q: str):
    root = prog.classes.get(root_q)
    if root is None:
        raise AnalysisError("hierarchy", root_q, "class not found")
    out, todo, seen = [], [root], set()
    while todo:
        c = todo.pop()
        if c.qname in seen:
            continue
        seen.add(c.qname)
        out.append(c)
        todo.extend(c.subclasses)
    return root, out


def _calls_super_init(m: FuncInfo, bases_names) -> bool:
    for n in own_nodes(m.node):
        if isinstance(n, ast.Call) and isinstance(n.func, ast.Attribute) and n.func.attr == "__init__":
            v = n.func.value
            if isinstance(v, ast.Call) and isinstance(v.func, ast.Name) and v.func.id == "super":
                return True
            if isinstance(v, ast.Name) and v.id in bases_names:
                return True
    return False


def rule_init_chain(ctx, root_q="partitura.score:TimedObject", floor=20):
    """INIT-chain: the time line relies on the fields TimedObject.__init__ creates (start, end, _ref_attrs); every constructor in
    the hierarchy reaches it."""
    rule = "INIT-chain"
    ctx.rule(rule, "every class below TimedObject that defines __init__ calls the constructor of its base (super().__init__ or "
                   "<Base>.__init__) on every path that returns normally: start, end and _ref_attrs exist on every timed object")
    root, fam = _family(ctx.prog, root_q)
    w = __import__("sa.core.world", fromlist=["world"]).world(ctx)
    n = 0
    for c in fam:
        if c is root:
            continue
        m = c.methods.get("__init__")
        if m is None:
            continue
        n += 1
        bases = {b.name for b in c.bases if not isinstance(b, str)} | {b for b in c.bases if isinstance(b, str)}
        calls = [x for x in own_nodes(m.node) if isinstance(x, ast.Call) and isinstance(x.func, ast.Attribute) and x.func.attr == "__init__"
                 and ((isinstance(x.func.value, ast.Call) and isinstance(x.func.value.func, ast.Name) and x.func.value.func.id == "super")
                      or (isinstance(x.func.value, ast.Name) and x.func.value.id in bases))]
        ok = bool(calls)
        if ok:
            # on every normal path: no path from entry to exit avoiding all such calls
            cfg = w.inf.cfg(m)
            nodes = set()
            for x in calls:
                st = x
                while getattr(st, "_parent", None) is not None and cfg.node_of(st) is None:
                    st = st._parent
                if cfg.node_of(st) is not None:
                    nodes.add(cfg.node_of(st))
            ok = bool(nodes) and not cfg.paths_avoiding(cfg.entry, nodes, {cfg.exit})
        ctx.check(ok, rule, f"{c.qname}.__init__", func=m, construct="base-constructor-not-called",
                  msg=f"{c.name}.__init__ can return without calling the constructor of its base class: the object has no "
                      f"`start`/`end`/`_ref_attrs`, so removing it, its duration and its string form raise, and a failed remove leaves "
                      f"the object registered")
    ctx.floor(rule, "constructors below TimedObject", n, floor)


def rule_identity_hash(ctx, root_q="partitura.score:TimedObject", floor=30):
    """IDENTITY-hash: time points keep their objects in a dict-backed ordered set keyed by the object."""
    rule = "IDENTITY-hash"
    ctx.rule(rule, "objects on the time line are kept in dict-backed ordered sets keyed by the object itself "
                   "(TimePoint.starting_objects / ending_objects): no class below TimedObject defines __eq__ or __hash__, so two "
                   "distinct objects never collide and an edited object is still found")
    root, fam = _family(ctx.prog, root_q)
    # the container really is keyed by the object: fail closed if that changes
    tp = ctx.prog.classes.get("partitura.score:TimePoint")
    keyed = False
    if tp is not None and "__init__" in tp.methods:
        for n in own_nodes(tp.methods["__init__"].node):
            if isinstance(n, ast.Call) and norm(n.func) == "defaultdict" and n.args and norm(n.args[0]) in ("_OrderedSet", "dict", "OrderedDict", "set"):
                keyed = True
    ctx.require(keyed, rule, "partitura.score:TimePoint.__init__", "starting/ending objects are no longer kept in a hash-keyed container")
    for c in fam:
        for name in ("__eq__", "__hash__"):
            if name in c.all_methods or name in c.class_attrs:
                m = (c.all_methods.get(name) or [None])[0]
                ctx.check(False, rule, f"{c.qname}.{name}", func=m, construct=f"value-equality:{c.name}.{name}",
                          msg=f"{c.name} defines {name}: time points key their object sets by the object, so a second {c.name} equal to "
                              f"one already at that time is silently not listed (its `start` is set but the point does not contain it), "
                              f"removing it removes the other one, and an object edited after it was added is no longer found")
    ctx.floor(rule, "classes below TimedObject", len(fam), floor)
    ctx.ok(rule, f"{len(fam)} classes below TimedObject define neither __eq__ nor __hash__")


def rule_recursion_forwards(ctx, qnames: List[str]):
    """RECURSE-fwd: a function that calls itself for the elements of its argument passes its options on."""
    rule = "RECURSE-fwd"
    ctx.rule(rule, "a function that calls itself (for each part of a score, each child of a group) forwards every option it "
                   "accepts: each parameter with a default that the body reads is passed in the recursive call")
    n = 0
    for q in qnames:
        f = ctx.prog.func(q, rule)
        ctx.touch(f)
        a = f.node.args
        pos = [x.arg for x in list(a.posonlyargs) + list(a.args)]
        with_default = pos[len(pos) - len(a.defaults):] + [x.arg for x, d in zip(a.kwonlyargs, a.kw_defaults) if d is not None]
        read = {x.id for x in own_nodes(f.node) if isinstance(x, ast.Name) and isinstance(x.ctx, ast.Load)}
        for c in own_nodes(f.node):
            if not (isinstance(c, ast.Call) and isinstance(c.func, ast.Name) and c.func.id == f.name):
                continue
            n += 1
            if any(isinstance(x, ast.Starred) for x in c.args) or any(k.arg is None for k in c.keywords):
                continue
            passed = set(pos[:len(c.args)]) | {k.arg for k in c.keywords}
            for p in with_default:
                if p in read and p not in passed:
                    ctx.check(False, rule, f"{q}:{p}", func=f, node=c, construct=f"option-not-forwarded:{p}",
                              msg=f"{f.name} calls itself without passing `{p}`: for the nested elements the default is used whatever "
                                  f"the caller asked for")
    ctx.ok(rule, f"{n} recursive call(s) in {len(qnames)} function(s) forward every option")
    return n


def rule_eq_covers_fields(ctx, modname: str, floor=3):
    """EQ-complete: a value class that defines __eq__ compares every field its constructor stores."""
    rule = "EQ-complete"
    ctx.rule(rule, "a value class of the match-file layer that defines __eq__ compares every attribute its constructor stores and its __str__ prints (used outside the test of an `if`): "
                   "directly, by name in a tuple of attribute names, or through str() of the whole object")
    n = 0
    for c in ctx.prog.classes.values():
        if getattr(c.module, "name", c.module) != modname:
            continue
        eq = c.methods.get("__eq__")
        init = c.methods.get("__init__")
        if eq is None or init is None:
            continue
        n += 1
        ctx.touch(eq)
        # content fields: what __str__ prints (attributes of self used outside the test of an `if`), stored by the constructor
        stored = set()
        for x in own_nodes(init.node):
            if isinstance(x, ast.Attribute) and isinstance(x.ctx, ast.Store) and isinstance(x.value, ast.Name) and x.value.id == "self":
                stored.add(x.attr)
        st = c.methods.get("__str__")
        if st is None:
            continue
        in_test = set()
        for x in own_nodes(st.node):
            if isinstance(x, (ast.If, ast.IfExp, ast.While)):
                for y in ast.walk(x.test):
                    in_test.add(id(y))
        fields = []
        for x in own_nodes(st.node):
            if isinstance(x, ast.Attribute) and isinstance(x.value, ast.Name) and x.value.id == "self" and id(x) not in in_test \
                    and x.attr in stored and x.attr not in fields:
                fields.append(x.attr)
        mentioned = set()
        whole = False
        for x in own_nodes(eq.node):
            if isinstance(x, ast.Attribute):
                mentioned.add(x.attr)
            elif isinstance(x, ast.Constant) and isinstance(x.value, str):
                mentioned.add(x.value)
            elif isinstance(x, ast.Call) and isinstance(x.func, ast.Name) and x.func.id in ("str", "repr", "vars", "hash", "float", "int") and x.args \
                    and isinstance(x.args[0], ast.Name):
                whole = True
            elif isinstance(x, ast.Attribute) and x.attr == "__dict__":
                whole = True
        if whole or "__dict__" in mentioned:
            ctx.ok(rule, f"{c.name}.__eq__ compares the whole object")
            continue
        for fld in fields:
            alt = fld.lstrip("_")
            ctx.check(fld in mentioned or alt in mentioned, rule, f"{c.qname}:{fld}", func=eq, construct=f"eq-ignores:{c.name}.{fld}",
                      msg=f"{c.name}.__eq__ does not look at `{fld}`, which the constructor stores: two values that differ only in "
                          f"`{fld}` compare equal, and code that drops repeated equal values drops a real change")
    ctx.floor(rule, f"value classes with __eq__ in {modname}", n, floor)


def rule_pitch_linear(ctx, q="partitura.utils.music:pitch_spelling_to_midi_pitch"):
    """PITCH-linear: the MIDI pitch of a spelling is 12*(octave+1) + base class of the step + alteration — a plain sum, so that
    B#4 is 72 and Cb4 is 59 (the octave belongs to the letter, the alteration carries across the octave boundary)."""
    rule = "PITCH-linear"
    ctx.rule(rule, "pitch_spelling_to_midi_pitch returns a plain sum of 12*(octave+1), the base class of the step (table lookup) and the "
                   "alteration: no modulo / floor division / clamp is applied to any part of it")
    from .extra import expand_single_defs, local_defs
    f = ctx.prog.func(q, rule)
    ctx.touch(f)
    rets = [n for n in own_nodes(f.node) if isinstance(n, ast.Return) and n.value is not None]
    ctx.require(len(rets) == 1, rule, q, f"{len(rets)} return statements")
    e = expand_single_defs(rets[0].value, local_defs(f), depth=4)
    bad = [n for n in ast.walk(e) if (isinstance(n, ast.BinOp) and isinstance(n.op, (ast.Mod, ast.FloorDiv, ast.Div, ast.Pow, ast.BitAnd)))
           or (isinstance(n, ast.Call) and norm(n.func).split(".")[-1] in ("mod", "divmod", "remainder", "fmod", "abs", "min", "max", "clip", "round", "int"))]
    ctx.check(not bad, rule, "no modulo in the sum", func=f, node=rets[0], construct="pitch-not-a-plain-sum",
              msg=f"the returned pitch `{norm(e)[:90]}` applies `{norm(bad[0])[:50] if bad else ''}`: spellings that cross the octave boundary "
                  f"(B#, B##, Cb, Cbb) get a pitch an octave off (B#4 -> 60 instead of 72), while step, alteration and octave are still right")
    terms = []
    def flat(x):
        if isinstance(x, ast.BinOp) and isinstance(x.op, ast.Add):
            flat(x.left); flat(x.right)
        else:
            terms.append(x)
    flat(e)
    params = f.params
    names = lambda x: {n.id for n in ast.walk(x) if isinstance(n, ast.Name)}
    has_oct = any(isinstance(t, ast.BinOp) and isinstance(t.op, ast.Mult) and "octave" in names(t)
                  and any(isinstance(c, ast.Constant) and c.value == 12 for c in (t.left, t.right)) for t in terms)
    has_tab = any(isinstance(t, ast.Subscript) and "step" in names(t) for t in terms)
    has_alt = any("alter" in names(t) and not isinstance(t, ast.Subscript) and "octave" not in names(t) for t in terms)
    ctx.check(has_oct and has_tab and has_alt and len(terms) == 3, rule, "three terms", func=f, node=rets[0], construct="pitch-terms",
              msg=f"the returned pitch `{norm(e)[:90]}` is not 12*(octave+1) + table[step] + alteration")


def rule_common_divisions_lcm(ctx, q="partitura.utils.music:note_array_from_part_list"):
    """NA-lcm: parts with different divisions are brought to a common grid that every part's grid divides."""
    rule = "NA-lcm"
    ctx.rule(rule, "when parts with different divisions are put in one array, the per-part factors are <common> / d for every d of the "
                   "divisions list, and <common> is np.lcm.reduce of that same list (a maximum is not a common multiple: 2 and 3)")
    from .extra import local_defs, resolve_alias
    f = ctx.prog.func(q, rule)
    ctx.touch(f)
    defs = local_defs(f)
    tables = []
    for n in own_nodes(f.node):
        if isinstance(n, ast.ListComp) and len(n.generators) == 1 and isinstance(n.generators[0].target, ast.Name):
            d = n.generators[0].target.id
            for b in ast.walk(n.elt):
                if isinstance(b, ast.BinOp) and isinstance(b.op, (ast.Div, ast.FloorDiv)) and isinstance(b.right, ast.Name) and b.right.id == d:
                    tables.append((n, b.left, n.generators[0].iter))
    ctx.require(len(tables) >= 1, rule, q, "factor table [<common> / d for d in <divisions>] not found")
    for n, common, divs in tables:
        c = resolve_alias(common, defs)
        ok = isinstance(c, ast.Call) and norm(c.func) in ("np.lcm.reduce", "numpy.lcm.reduce", "math.lcm", "np.lcm", "numpy.lcm") and c.args \
            and (norm(resolve_alias(c.args[0], defs)) == norm(resolve_alias(divs, defs)) or
                 (isinstance(c.args[0], ast.Starred) and norm(c.args[0].value) == norm(divs)))
        ctx.check(ok, rule, f"`{norm(n)[:50]}`", func=f, node=n, construct="common-divisions-not-lcm",
                  msg=f"the common grid `{norm(common)}` is `{norm(c)[:50]}`, not the least common multiple of `{norm(divs)}`: for divisions that "
                      f"do not divide it (2 and 3 -> 3) the factor int(3/2) = 1 leaves that part on its own grid and the merged array mixes two units")


def rule_no_truncated_quotient(ctx, qnames: List[str], rule="F10-quot"):
    """F10-quot: a tick count obtained from seconds is rounded, never truncated: int() of a float quotient lands one below the
    integer it should be whenever the quotient comes out as x.9999…"""
    ctx.rule(rule, "in the functions that build performed parts, int() is never applied to an expression containing a true division "
                   "(directly or through single-definition locals) unless that expression is a rounding call or the package's own "
                   "seconds_to_midi_ticks: ticks derived from seconds are rounded once, not truncated")
    from .extra import expand_single_defs, local_defs
    n = 0
    for q in qnames:
        f = ctx.prog.func(q, rule)
        ctx.touch(f)
        defs = local_defs(f)
        for c in own_nodes(f.node):
            if not (isinstance(c, ast.Call) and isinstance(c.func, ast.Name) and c.func.id == "int" and len(c.args) == 1):
                continue
            n += 1
            e = expand_single_defs(c.args[0], defs, depth=3)
            if isinstance(e, ast.Call) and norm(e.func).split(".")[-1] in ("round", "rint", "around", "seconds_to_midi_ticks", "ceil", "floor", "len"):
                continue
            div = [x for x in ast.walk(e) if isinstance(x, ast.BinOp) and isinstance(x.op, ast.Div)
                   and not any(isinstance(p, ast.Call) and norm(p.func).split(".")[-1] in ("round", "rint", "around") for p in _ancestors(x, e))]
            ctx.check(not div, rule, f"{q}:`{norm(c)[:40]}`", func=f, node=c, construct="int-of-quotient",
                      msg=f"`{norm(c)[:70]}` truncates a float quotient: for about one value in six the quotient comes out just below the "
                          f"integer (683 -> 682.9999…) and the tick count is one short, so ticks and seconds no longer agree")
    ctx.ok(rule, f"{n} int() conversion(s) in {len(qnames)} function(s) checked")


def _ancestors(x, root):
    out = []
    p = getattr(x, "_parent", None)
    while p is not None and p is not root:
        out.append(p)
        p = getattr(p, "_parent", None)
    return out


def rule_clock_forwarded(ctx, floor=2):
    """CLOCK-fwd: a performed part's ticks are meaningful only with its own ppq and mpq."""
    rule = "CLOCK-fwd"
    ctx.rule(rule, "every function that builds a PerformedPart while it has a clock at hand (it reads a ppq or mpq name / attribute) "
                   "passes both ppq= and mpq= to the constructor: notes whose ticks were computed with one clock are never put into a part "
                   "that declares the default clock")
    n = 0
    for f in ctx.prog.functions.values():
        ctors = [c for c in own_nodes(f.node) if isinstance(c, ast.Call) and norm(c.func).split(".")[-1] == "PerformedPart"]
        if not ctors:
            continue
        # API names only (attributes, parameters, keywords of other calls): local names are free to change
        clock = {x.attr for x in own_nodes(f.node) if isinstance(x, ast.Attribute) and x.attr in ("ppq", "mpq")} | \
                {a for a in f.all_params if a in ("ppq", "mpq")} | \
                {k.arg for c in own_nodes(f.node) if isinstance(c, ast.Call) and c not in ctors for k in c.keywords if k.arg in ("ppq", "mpq")} | \
                {x.slice.value for x in own_nodes(f.node) if isinstance(x, ast.Subscript) and isinstance(x.slice, ast.Constant) and x.slice.value in ("ppq", "mpq")} | \
                {"clock" for c in own_nodes(f.node) if isinstance(c, ast.Call) and norm(c.func).split(".")[-1] in ("midi_ticks_to_seconds", "seconds_to_midi_ticks")} | \
                {k.arg for c in ctors for k in c.keywords if k.arg in ("ppq", "mpq")}
        if not clock:
            continue
        for c in ctors:
            n += 1
            ctx.touch(f)
            kws = {k.arg for k in c.keywords}
            if None in kws:
                continue
            missing = sorted({"ppq", "mpq"} - kws) if len(c.args) < 5 else []
            ctx.check(not missing, rule, f"{f.qname}:PerformedPart(...)", func=f, node=c, construct=f"clock-not-forwarded:{'/'.join(missing)}",
                      msg=f"{f.name} has a clock at hand ({sorted(clock)}) but builds the PerformedPart without {missing}: the part declares the "
                          f"default value while its notes' ticks were computed with the other one, so seconds and ticks disagree")
    ctx.floor(rule, "PerformedPart constructions with a clock at hand", n, floor)


def rule_number_patterns_quantified(ctx, modnames: List[str], floor=2):
    """RX-number: a regular expression whose match is converted with int()/float()/Fraction reads the whole number."""
    rule = "RX-number"
    ctx.rule(rule, "where the text matched by a literal regular expression is converted to a number (int(re.search(P, s).group(..))), "
                   "every digit class of P is repeated (`+`, `*` or {m,n} with n > 1): a count such as 12 in *M12/8 is read whole")
    import re as _re
    try:
        from re import _parser as sre_parse, _constants as sre_c
    except ImportError:  # pragma: no cover
        import sre_parse, sre_constants as sre_c
    n = 0
    for m in modnames:
        for f in ctx.prog.functions_in(m):
            for c in own_nodes(f.node):
                if not (isinstance(c, ast.Call) and isinstance(c.func, ast.Name) and c.func.id in ("int", "float", "Fraction") and c.args):
                    continue
                pats = [x for x in ast.walk(c.args[0]) if isinstance(x, ast.Call) and norm(x.func) in ("re.search", "re.match", "re.fullmatch", "re.findall")
                        and x.args and isinstance(x.args[0], ast.Constant) and isinstance(x.args[0].value, str)]
                for p in pats:
                    n += 1
                    ctx.touch(f)
                    try:
                        tree = sre_parse.parse(p.args[0].value)
                    except Exception as e:
                        raise AnalysisError(rule, f.qname, f"pattern {p.args[0].value!r} does not parse: {e}")
                    single = []

                    def walk(items, repeated):
                        for op, av in items:
                            name = str(op)
                            if name in ("MAX_REPEAT", "MIN_REPEAT", "POSSESSIVE_REPEAT"):
                                lo, hi, sub = av
                                walk(sub, repeated or hi > 1)
                            elif name == "SUBPATTERN":
                                walk(av[-1], repeated)
                            elif name == "BRANCH":
                                for alt in av[1]:
                                    walk(alt, repeated)
                            elif name == "IN":
                                digit = any((str(o) == "CATEGORY" and "DIGIT" in str(a) and "NOT" not in str(a)) or
                                            (str(o) == "RANGE" and a == (48, 57)) for o, a in av)
                                if digit and not repeated:
                                    single.append(av)
                            elif name == "CATEGORY" and "DIGIT" in str(av) and "NOT" not in str(av) and not repeated:
                                single.append(av)
                    walk(list(tree), False)
                    ctx.check(not single, rule, f"{f.qname}:{p.args[0].value!r}", func=f, node=p, construct=f"single-digit:{p.args[0].value}",
                              msg=f"the pattern {p.args[0].value!r} matches one digit only and its match is converted with {c.func.id}(): "
                                  f"a value of two or more digits (12 in *M12/8) is read as its first digit")
    ctx.floor(rule, "number patterns", n, floor)


def rule_mode_parameter_only(ctx, modname="partitura.score", param="musical_beat", field="_use_musical_beat"):
    """MODE-param: a map builder that receives the beat mode as an argument does not look at the part's switch itself."""
    rule = "MODE-param"
    ctx.rule(rule, f"a function that takes the beat mode as its parameter `{param}` never reads `self.{field}`: the quarter maps "
                   f"(which pass {param}=False) do not depend on the mode the part is switched to, and forward and inverse maps built "
                   f"from the same arguments are built the same way")
    n = 0
    for f in ctx.prog.functions_in(modname):
        if param not in f.all_params:
            continue
        n += 1
        ctx.touch(f)
        for x in own_nodes(f.node):
            if isinstance(x, ast.Attribute) and x.attr == field and isinstance(x.ctx, ast.Load):
                ctx.check(False, rule, f"{f.qname}:{field}", func=f, node=x, construct=f"mode-read-from-state:{f.name}",
                          msg=f"{f.name} takes `{param}` but reads `self.{field}`: a map requested with {param}=False (the quarter map) now "
                              f"changes with the part's beat mode — e.g. a 6/8 pickup is judged against the musical-beat count")
    ctx.floor(rule, f"functions taking `{param}`", n, 1)
    ctx.ok(rule, f"{n} function(s) taking `{param}` do not read self.{field}")


def rule_statement_order_siblings(ctx, q="partitura.io.importkern:element_parsing", table="line2pos", cursor="current_tl_pos", floor=1):
    """ORDER-sib: the position table records where a line *starts*: in every branch that both records the line and advances
    the cursor, the record comes first."""
    rule = "ORDER-sib"
    ctx.rule(rule, f"in {q.split(':')[1]} every block that stores `{table}[..] = {cursor}` and assigns `{cursor}` stores first: the table holds "
                   f"the position at which the line starts (other spines of the same part are placed from it)")
    from ..core.program import pos
    f = ctx.prog.func(q, rule)
    ctx.touch(f)
    # by role (local names are free to change): the cursor is the name passed as `start=` where an element is added to the part;
    # the table is whatever is item-assigned the cursor
    cursors = {norm(k.value) for c in own_nodes(f.node) if isinstance(c, ast.Call) and isinstance(c.func, ast.Attribute) and c.func.attr == "add"
               for k in c.keywords if k.arg == "start" and isinstance(k.value, ast.Name)}
    stored = {norm(s.value) for s in own_nodes(f.node) if isinstance(s, ast.Assign) and len(s.targets) == 1 and isinstance(s.targets[0], ast.Subscript)
              and isinstance(s.targets[0].value, ast.Name) and isinstance(s.value, ast.Name)}
    cursors &= stored
    ctx.require(len(cursors) == 1, rule, q, f"time-line cursor (passed as `start=` to <part>.add and recorded in the line table) not identified: {sorted(cursors)}")
    cursor = cursors.pop()
    n = 0
    for blk in ast.walk(f.node):
        for fld in ("body", "orelse"):
            b = getattr(blk, fld, None)
            if not isinstance(b, list):
                continue
            stores = [s for s in b if isinstance(s, ast.Assign) and len(s.targets) == 1 and isinstance(s.targets[0], ast.Subscript)
                      and isinstance(s.targets[0].value, ast.Name) and norm(s.value) == cursor]
            moves = [s for s in b if isinstance(s, ast.Assign) and len(s.targets) == 1 and norm(s.targets[0]) == cursor]
            if stores and moves:
                n += 1
                table = norm(stores[0].targets[0].value)
                ok = all(pos(st) < pos(mv) for st in stores for mv in moves)
                ctx.check(ok, rule, f"{q}:line {stores[0].lineno}", func=f, node=stores[0], construct="recorded-after-advance",
                          msg=f"`{norm(stores[0])}` runs after `{norm(moves[0])[:40]}`: the line is recorded at the position where its element "
                              f"ends, so tokens of later spines on the same line are placed one duration too late")
    ctx.floor(rule, "blocks that record and advance", n, floor)


def rule_dispatch_on_whole_argument(ctx, q="partitura.utils.music:ensure_notearray", method="note_array"):
    """ENSURE-whole: the array of a Score / Performance / part is the array of the whole object."""
    rule = "ENSURE-whole"
    ctx.rule(rule, f"{q.split(':')[1]} obtains the array of an object by calling `.{method}()` on the argument itself in every branch, never "
                   f"on an element of it (a Performance with several performed parts, a Score with several parts)")
    f = ctx.prog.func(q, rule)
    ctx.touch(f)
    p0 = f.params[0]
    n = 0
    for c in own_nodes(f.node):
        if isinstance(c, ast.Call) and isinstance(c.func, ast.Attribute) and c.func.attr == method:
            n += 1
            recv = c.func.value
            ctx.check(isinstance(recv, ast.Name) and recv.id == p0, rule, f"{q}:`{norm(c)[:40]}`", func=f, node=c, construct="array-of-an-element",
                      msg=f"`{norm(c)[:60]}` takes the array of `{norm(recv)}`, not of the argument `{p0}`: the notes of every other part of "
                          f"the object are silently dropped")
    ctx.floor(rule, f".{method}() calls", n, 1)


def rule_parts_list_complete(ctx, q="partitura.score:Score.__init__", source="iter_parts"):
    """PARTS-all: a score lists every part of its part structure, identified by the object."""
    rule = "PARTS-all"
    ctx.rule(rule, f"Score.parts is built from {source}(<part list>) by list() (or an unfiltered list comprehension): no dict / set keyed by an "
                   f"attribute in between — two distinct parts with the same id (parts loaded from separate files) are both listed")
    from .extra import local_defs, resolve_alias
    f = ctx.prog.func(q, rule)
    ctx.touch(f)
    defs = local_defs(f)
    st = [s for s in own_nodes(f.node) if isinstance(s, ast.Assign) and len(s.targets) == 1 and norm(s.targets[0]) == "self.parts"]
    ctx.require(len(st) >= 1, rule, q, "assignment to self.parts not found")
    for s in st:
        v = resolve_alias(s.value, defs)
        ok = False
        if isinstance(v, ast.Call) and norm(v.func) in ("list", "tuple") and len(v.args) == 1:
            a = resolve_alias(v.args[0], defs)
            ok = isinstance(a, ast.Call) and norm(a.func).split(".")[-1] == source
        elif isinstance(v, ast.ListComp) and len(v.generators) == 1 and not v.generators[0].ifs and isinstance(v.elt, ast.Name) \
                and isinstance(v.generators[0].target, ast.Name) and v.elt.id == v.generators[0].target.id:
            a = resolve_alias(v.generators[0].iter, defs)
            ok = isinstance(a, ast.Call) and norm(a.func).split(".")[-1] == source
        ctx.check(ok, rule, f"{q}:self.parts", func=f, node=s, construct="parts-list-not-complete",
                  msg=f"`self.parts = {norm(s.value)[:70]}` is not the plain list of {source}(...): parts can be dropped or merged (a dict keyed by "
                      f"`id` keeps one of two parts that share an id), and everything that reads score.parts (merge_parts, note_array) loses their notes")


def rule_collections_unbounded(ctx, cls_q="partitura.score:Part", floor=6):
    """COLL-whole: the collection properties of a part list the whole time line."""
    rule = "COLL-whole"
    ctx.rule(rule, "every property of Part that returns the objects of a class (notes, notes_tied, rests, measures, ...) enumerates them with "
                   "self.iter_all(<Class>, ...) without a start or end bound: iter_all's end bound is exclusive, so a bound at the last "
                   "time point drops the objects that start there (trailing grace notes)")
    ci = ctx.prog.classes.get(cls_q)
    if ci is None:
        raise AnalysisError(rule, cls_q, "class not found")
    n = 0
    for name, m in ci.methods.items():
        if not m.is_property:
            continue
        calls = [c for c in own_nodes(m.node) if isinstance(c, ast.Call) and norm(c.func) == "self.iter_all"]
        if len(calls) != 1 or len([s for s in m.node.body if not (isinstance(s, ast.Expr) and isinstance(s.value, ast.Constant))]) > 2:
            continue
        c = calls[0]
        n += 1
        ctx.touch(m)
        bounded = len(c.args) > 1 or any(k.arg in ("start", "end") for k in c.keywords)
        ctx.check(not bounded, rule, f"{m.qname}", func=m, node=c, construct=f"bounded-collection:{name}",
                  msg=f"Part.{name} enumerates `{norm(c)[:70]}` with a time bound: objects starting at the (exclusive) end bound are left "
                      f"out, so whatever works through Part.{name} (transposition, exports, note arrays) silently skips them")
    ctx.floor(rule, "collection properties of Part", n, floor)


def rule_octave_from_letter(ctx, q="partitura.musicanalysis.pitch_spelling:p2pn"):
    """OCT-letter: the octave of a spelled pitch belongs to its letter (B#4 sounds C5): it is computed from the morphetic pitch."""
    rule = "OCT-letter"
    ctx.rule(rule, "p2pn returns (step, alter, octave) with step and octave computed from the morphetic pitch only and the alteration from "
                   "both: an octave taken from the chromatic pitch puts B# / Cb one octave off, and the spelled note no longer sounds the input pitch")
    from .extra import depends_on, local_defs
    f = ctx.prog.func(q, rule)
    ctx.touch(f)
    defs = local_defs(f)
    rets = [r for r in own_nodes(f.node) if isinstance(r, ast.Return) and isinstance(r.value, ast.Tuple) and len(r.value.elts) == 3]
    ctx.require(len(rets) >= 1, rule, q, "return of (step, alter, octave) not found")
    chrom, morph = f.params[0], f.params[1]
    for r in rets:
        step, alter, octv = r.value.elts
        d_oct = depends_on(octv, defs, depth=6)
        d_step = depends_on(step, defs, depth=6)
        d_alt = depends_on(alter, defs, depth=6)
        ctx.check(morph in d_oct and chrom not in d_oct, rule, "octave from the morphetic pitch", func=f, node=r, construct="octave-from-chromatic-pitch",
                  msg=f"the returned octave `{norm(octv)}` depends on {sorted(d_oct & {chrom, morph})}: it must follow the letter "
                      f"(`{morph}`) alone — with the chromatic pitch B#4 (MIDI 72) is spelled B#5, which sounds 84")
        ctx.check(morph in d_step and chrom not in d_step, rule, "step from the morphetic pitch", func=f, node=r, construct="step-from-chromatic-pitch",
                  msg=f"the returned step `{norm(step)}` must be a function of `{morph}` alone")
        ctx.check(morph in d_alt and chrom in d_alt, rule, "alteration from both", func=f, node=r, construct="alter-not-from-both",
                  msg=f"the returned alteration `{norm(alter)}` must depend on both `{chrom}` and `{morph}`")


def rule_label_selects_matches(ctx, q="partitura.musicanalysis.performance_codec:get_matched_notes"):
    """LABEL-match: the matched-note table contains the alignment's matches, nothing else."""
    rule = "LABEL-match"
    ctx.rule(rule, "get_matched_notes pairs an alignment entry only under the test `<entry>['label'] == 'match'` (an equality with the "
                   "literal, on every path to the pairing): ornaments, insertions and deletions are never paired")
    from .extra import _path_conditions
    f = ctx.prog.func(q, rule)
    ctx.touch(f)
    apps = [c for c in own_nodes(f.node) if isinstance(c, ast.Call) and isinstance(c.func, ast.Attribute) and c.func.attr == "append"
            and c.args and isinstance(c.args[0], ast.Tuple) and len(c.args[0].elts) == 2]
    ctx.require(len(apps) >= 1, rule, q, "pairing `<list>.append((score index, performance index))` not found")
    for a in apps:
        import re as _re
        texts = sorted(_path_conditions(a, f.node))
        ok = any(_re.fullmatch(r"""[\w.]+\[['"]label['"]\] == ['"]match['"]""", t) or
                 _re.fullmatch(r"""not \([\w.]+\[['"]label['"]\] != ['"]match['"]\)""", t) for t in texts)
        ctx.check(ok, rule, f"{q}:pairing", func=f, node=a, construct="pairing-not-under-label-match",
                  msg=f"`{norm(a)[:50]}` is reached under {texts[:3]} — not under `['label'] == 'match'`: entries with another label "
                      f"(ornament) are paired as matches and both time maps get points that are not matched onsets")


def rule_integer_accumulators(ctx, modnames: List[str]):
    """INT-acc: a histogram of durations is not kept in an integer array."""
    rule = "INT-acc"
    ctx.rule(rule, "an array created with an integer dtype (np.zeros/ones/empty/full(..., dtype=int...)) never receives (item store or "
                   "augmented item store) a value computed from a duration or onset column: the store would silently truncate it")
    from .extra import depends_on, local_defs
    n = 0
    for m in modnames:
        for f in ctx.prog.functions_in(m):
            defs = local_defs(f)
            ints = {}
            for a in own_nodes(f.node):
                if isinstance(a, ast.Assign) and len(a.targets) == 1 and isinstance(a.targets[0], ast.Name) and isinstance(a.value, ast.Call) \
                        and norm(a.value.func).split(".")[-1] in ("zeros", "ones", "empty", "full", "zeros_like", "array"):
                    dt = next((k.value for k in a.value.keywords if k.arg == "dtype"), None)
                    if dt is not None and (norm(dt) in ("int", "np.int32", "np.int64", "np.int_", "numpy.int64", "np.intp") or
                                           (isinstance(dt, ast.Constant) and isinstance(dt.value, str) and dt.value.lstrip("<>=|")[:1] in ("i", "u"))):
                        ints[a.targets[0].id] = a
            if not ints:
                continue
            for s in own_nodes(f.node):
                tgt, val = None, None
                if isinstance(s, ast.Assign) and len(s.targets) == 1 and isinstance(s.targets[0], ast.Subscript):
                    tgt, val = s.targets[0], s.value
                elif isinstance(s, ast.AugAssign) and isinstance(s.target, ast.Subscript):
                    tgt, val = s.target, s.value
                if tgt is None or not (isinstance(tgt.value, ast.Name) and tgt.value.id in ints):
                    continue
                n += 1
                ctx.touch(f)
                deps = depends_on(val, defs, depth=5)
                texts = {x for x in deps} | {c.value for c in ast.walk(val) if isinstance(c, ast.Constant) and isinstance(c.value, str)}
                for nm in list(deps):
                    for d in defs.get(nm, []):
                        texts |= {c.value for c in ast.walk(d) if isinstance(c, ast.Constant) and isinstance(c.value, str)}
                        texts |= {x.id for x in ast.walk(d) if isinstance(x, ast.Name)}
                timey = sorted(t for t in texts if isinstance(t, str) and any(k in t.lower() for k in ("duration", "onset", "offset")))
                rounded = isinstance(val, ast.Call) and norm(val.func).split(".")[-1] in ("int", "round", "rint", "len", "count_nonzero")
                ctx.check(not timey or rounded, rule, f"{f.qname}:{tgt.value.id}", func=f, node=s, construct=f"float-into-int-array:{tgt.value.id}",
                          msg=f"`{norm(s)[:70]}` stores a value computed from {timey[:3]} into `{tgt.value.id}`, created with an integer dtype: "
                              f"fractional durations are truncated (a total below 1 becomes 0), so the result changes when all durations are rescaled")
    ctx.ok(rule, f"{n} store(s) into integer-typed arrays checked in {len(modnames)} module(s)")
