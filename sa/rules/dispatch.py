"""F6 — lifting if/elif dispatch chains to tables."""
from __future__ import annotations

import ast
from typing import List, Optional, Tuple

from ..core.constfold import Folder, Unfoldable
from ..core.program import FuncInfo, norm


class Branch:
    def __init__(self, test, body, kind, values=None, classes=None, negated=False):
        self.test = test
        self.body = body
        self.kind = kind  # 'in' | 'eq' | 'isinstance' | 'else' | 'other'
        self.values = values  # folded literal set for in/eq
        self.classes = classes  # list of expr nodes for isinstance
        self.negated = negated

    @property
    def raises(self) -> bool:
        return bool(self.body) and isinstance(self.body[-1], ast.Raise) or \
            any(isinstance(s, ast.Raise) for s in self.body)

    @property
    def returns(self):
        for s in self.body:
            if isinstance(s, ast.Return):
                return s.value
        return None


def lift_chain(ifnode: ast.If, subject: str, folder: Optional[Folder] = None, mod=None) -> List[Branch]:
    """Lift `if S in (..)/S == c/isinstance(S, C): ... elif ...: else:` into branches."""
    out = []
    cur = ifnode
    while True:
        out.append(_branch(cur.test, cur.body, subject, folder, mod))
        if len(cur.orelse) == 1 and isinstance(cur.orelse[0], ast.If):
            cur = cur.orelse[0]
            continue
        if cur.orelse:
            out.append(Branch(None, cur.orelse, "else"))
            break
        # canonical form (core/program.py): no `else` after a branch that ends in return/raise/continue/break — the chain
        # goes on with the following statements of the same block
        if cur.body and isinstance(cur.body[-1], (ast.Return, ast.Raise, ast.Continue, ast.Break)):
            sibs = _following(cur)
            if sibs and isinstance(sibs[0], ast.If):
                cur = sibs[0]
                continue
            if sibs:
                out.append(Branch(None, sibs, "else"))
        break
    return out


def _following(stmt):
    p = getattr(stmt, "_parent", None)
    for fld in ("body", "orelse", "finalbody"):
        blk = getattr(p, fld, None)
        if isinstance(blk, list):
            for i, x in enumerate(blk):
                if x is stmt:
                    return blk[i + 1:]
    return []


def _fold(node, folder, mod):
    if folder is None:
        try:
            return ast.literal_eval(node)
        except Exception:
            raise Unfoldable("no folder")
    return folder.expr(node, mod)


def _branch(test, body, subject, folder, mod) -> Branch:
    t = test
    neg = False
    if isinstance(t, ast.UnaryOp) and isinstance(t.op, ast.Not):
        neg = True
        t = t.operand
    if isinstance(t, ast.Compare) and len(t.ops) == 1 and norm(t.left) == subject:
        op, right = t.ops[0], t.comparators[0]
        try:
            if isinstance(op, (ast.In, ast.NotIn)):
                vals = _fold(right, folder, mod)
                return Branch(test, body, "in", values=list(vals), negated=neg != isinstance(op, ast.NotIn))
            if isinstance(op, (ast.Eq, ast.NotEq)):
                return Branch(test, body, "eq", values=[_fold(right, folder, mod)], negated=neg != isinstance(op, ast.NotEq))
        except Unfoldable:
            pass
    if isinstance(t, ast.Call) and norm(t.func) == "isinstance" and len(t.args) == 2 and norm(t.args[0]) == subject:
        c = t.args[1]
        classes = list(c.elts) if isinstance(c, ast.Tuple) else [c]
        return Branch(test, body, "isinstance", classes=classes, negated=neg)
    if isinstance(t, ast.BoolOp) and isinstance(t.op, ast.Or):
        vals = []
        ok = True
        for v in t.values:
            b = _branch(v, body, subject, folder, mod)
            if b.kind in ("in", "eq") and not b.negated:
                vals += b.values
            else:
                ok = False
        if ok:
            return Branch(test, body, "in", values=vals, negated=neg)
    return Branch(test, body, "other")


def find_chain(f: FuncInfo, subject: str, min_branches=2) -> Optional[ast.If]:
    """First top-most If statement in f whose test is a dispatch on `subject`."""
    from ..core.program import own_statements
    for s in own_statements(f.node.body):
        if isinstance(s, ast.If):
            # skip elif parts (they are in the orelse of another If with the same subject)
            p = getattr(s, "_parent", None)
            if isinstance(p, ast.If) and p.orelse and p.orelse[0] is s:
                continue
            br = lift_chain(s, subject)
            if sum(1 for b in br if b.kind in ("in", "eq", "isinstance")) >= min_branches:
                return s
    return None
