"""Rules for the MIDI exporters/importers (C04, C06)."""
from __future__ import annotations

import ast
from typing import List, Optional, Set

from ..core.program import pos, AnalysisError, FuncInfo, own_nodes, norm
from ..core.world import world
from .dispatch import find_chain, lift_chain

EXP = "partitura.io.exportmidi"
IMP = "partitura.io.importmidi"
ROUNDERS = ("np.round", "numpy.round", "round", "np.rint", "numpy.rint", "np.around")


def _walk_with_nested(prog, f: FuncInfo):
    """Nodes of f and of functions nested in it."""
    yield from ((f, n) for n in own_nodes(f.node))
    for g in prog.functions.values():
        p = g.parent
        while p is not None:
            if p is f:
                yield from ((g, n) for n in own_nodes(g.node))
                break
            p = p.parent


def tick_conversions(prog, f: FuncInfo, ppq_name: str):
    """int(...) / .astype(int) conversions whose argument mentions the ticks-per-quarter variable."""
    for g, n in _walk_with_nested(prog, f):
        if isinstance(n, ast.Call):
            arg = None
            if isinstance(n.func, ast.Name) and n.func.id == "int" and len(n.args) == 1:
                arg = n.args[0]
            elif isinstance(n.func, ast.Attribute) and n.func.attr == "astype" and n.args and norm(n.args[0]) in ("int", "np.int64", "np.int32"):
                arg = n.func.value
            if arg is None:
                continue
            if any(isinstance(x, ast.Name) and x.id == ppq_name for x in ast.walk(arg)):
                yield g, n, arg


def is_rounded(arg) -> bool:
    """The converted expression is a rounding call (possibly parenthesised)."""
    return isinstance(arg, ast.Call) and norm(arg.func) in ROUNDERS


def floaty(arg) -> bool:
    """Expression that can be non-integral: true division, float literal, or a call of a
    non-rounding function (interpolators such as quarter_map)."""
    for x in ast.walk(arg):
        if isinstance(x, ast.BinOp) and isinstance(x.op, ast.Div):
            return True
        if isinstance(x, ast.Constant) and isinstance(x.value, float):
            return True
        if isinstance(x, ast.Call) and norm(x.func) not in ROUNDERS + ("int", "len"):
            return True
    return False


def ppq_variable(ctx, f: FuncInfo) -> str:
    """The ticks-per-quarter variable: the name given to MidiFile(ticks_per_beat=...) (a parameter or local)."""
    for n in own_nodes(f.node):
        if isinstance(n, ast.Call) and norm(n.func).endswith("MidiFile"):
            v = next((k.value for k in n.keywords if k.arg == "ticks_per_beat"), None)
            if isinstance(v, ast.Name):
                return v.id
    raise AnalysisError("F10", f.qname, "MidiFile(ticks_per_beat=<name>) not found")


def rule_F10(ctx, qname: str, ppq_name: str, floor: int):
    ctx.rule("F10", "every float->int conversion that produces a MIDI tick (its argument mentions the ticks-per-quarter "
                    "variable and can be non-integral) applies round/np.round/np.rint first: truncation is off by one "
                    "tick whenever the float product lands one ulp below an integer")
    f = ctx.prog.func(qname, "F10")
    ctx.touch(f)
    ppq_name = ppq_variable(ctx, f)
    n = 0
    for g, call, arg in tick_conversions(ctx.prog, f, ppq_name):
        if not floaty(arg):
            continue
        n += 1
        ctx.touch(g)
        ctx.check(is_rounded(arg), "F10", f"{g.qname}:{norm(call)[:50]}", func=g, node=call,
                  construct=f"truncating-tick-conversion:{norm(arg)[:40]}",
                  msg=f"`{norm(call)[:80]}` truncates a float tick value; `ppq * quarters` is not exact in binary floating "
                      f"point for divisions that are not a power of two (e.g. divisions 3, ppq 768: 1791 instead of 1792)")
    ctx.floor("F10", f"{qname}: tick conversions", n, floor)


# ----------------------------------------------------------------------- C04

def rule_velocity_taint(ctx):
    ctx.rule("TAINT-velocity", "the `velocity` parameter of save_score_midi reaches the velocity= argument of every "
                               "note_on Message it constructs")
    f = ctx.prog.func(f"{EXP}:save_score_midi", "TAINT-velocity")
    ctx.touch(f)
    ctx.require("velocity" in f.all_params, "TAINT-velocity", f.qname, "parameter `velocity` not found")
    # names that carry the parameter (simple copies)
    carriers = {"velocity"}
    changed = True
    while changed:
        changed = False
        for g, n in _walk_with_nested(ctx.prog, f):
            if isinstance(n, ast.Assign) and len(n.targets) == 1 and isinstance(n.targets[0], ast.Name) \
                    and any(isinstance(x, ast.Name) and x.id in carriers for x in ast.walk(n.value)) \
                    and n.targets[0].id not in carriers:
                carriers.add(n.targets[0].id)
                changed = True
    sinks = []
    for g, n in _walk_with_nested(ctx.prog, f):
        if isinstance(n, ast.Call) and norm(n.func).endswith("Message") and n.args and isinstance(n.args[0], ast.Constant) \
                and n.args[0].value == "note_on":
            sinks.append((g, n))
    ctx.require(sinks, "TAINT-velocity", f.qname, "no note_on Message constructor found")
    for g, n in sinks:
        v = next((k.value for k in n.keywords if k.arg == "velocity"), None)
        ok = v is not None and any(isinstance(x, ast.Name) and x.id in carriers for x in ast.walk(v))
        ctx.check(ok, "TAINT-velocity", f"{g.qname}:{norm(n)[:50]}", func=g, node=n, construct="note_on-without-requested-velocity",
                  msg=f"`{norm(n)[:70]}` does not pass the requested `velocity` (mido's default 64 is written whatever the "
                      f"caller asked for)")


def rule_ppq_defuse(ctx):
    ctx.rule("PPQ", "ticks per quarter: the value given to MidiFile(ticks_per_beat=) is the variable that to_ppq multiplies "
                    "by; it is defined from get_ppq(parts) and changed only by the doubling loop `while ppq < minimum_ppq`; "
                    "get_ppq reduces np.lcm over the quarter durations of every part of iter_parts(parts)")
    prog = ctx.prog
    f = prog.func(f"{EXP}:save_score_midi", "PPQ")
    ctx.touch(f)
    mf = [n for n in own_nodes(f.node) if isinstance(n, ast.Call) and norm(n.func).endswith("MidiFile")]
    ctx.require(len(mf) == 1, "PPQ", f.qname, "MidiFile(...) construction not found")
    tpb = next((k.value for k in mf[0].keywords if k.arg == "ticks_per_beat"), None)
    if not isinstance(tpb, ast.Name):
        ctx.check(False, "PPQ", f"{f.qname}: header ticks_per_beat", func=f, node=mf[0], construct="header-ppq-not-the-converter's",
                  msg=f"MidiFile(ticks_per_beat={norm(tpb) if tpb is not None else None}) is not the variable to_ppq multiplies by: ticks and header disagree "
                      f"whenever minimum_ppq doubled the resolution")
        return
    name = tpb.id
    defs = [n for n in own_nodes(f.node) if isinstance(n, ast.Assign) and any(norm(t) == name for t in n.targets)]
    forms = sorted(norm(d.value) for d in defs)
    ok_defs = len(defs) == 2 and any(isinstance(d.value, ast.Call) and norm(d.value.func) == "get_ppq" for d in defs) \
        and any(norm(d.value) in (f"{name} * 2", f"2 * {name}") and isinstance(getattr(d, "_parent", None), ast.While)
                and norm(d._parent.test) in (f"{name} < minimum_ppq", f"minimum_ppq > {name}") for d in defs)
    ctx.check(ok_defs, "PPQ", f"{f.qname}:definitions of {name}", func=f, node=defs[0] if defs else None,
              construct="ppq-definitions",
              msg=f"`{name}` must be get_ppq(parts), doubled while below minimum_ppq, and nothing else (found {forms}): "
                  f"ticks per quarter equal the lcm of the divisions, doubled up to the requested minimum")
    # the converter multiplies by the same variable
    conv = [g for g in prog.functions.values() if g.parent is f and g.name == "to_ppq"]
    ctx.require(len(conv) == 1, "PPQ", f.qname, "nested to_ppq not found")
    uses = any(isinstance(x, ast.Name) and x.id == name for x in ast.walk(conv[0].node))
    assigned_inside = any(isinstance(x, ast.Name) and x.id == name and isinstance(x.ctx, ast.Store) for x in ast.walk(conv[0].node))
    ctx.check(uses and not assigned_inside, "PPQ", f"{conv[0].qname}:multiplier", func=conv[0], construct="to_ppq-multiplier",
              msg=f"to_ppq must scale by the very `{name}` written into the file header")
    # every tick position goes through to_ppq: keys of the two-level event tables (defaultdict(lambda: defaultdict(list)))
    tables = {norm(a.targets[0]) for a in own_nodes(f.node) if isinstance(a, ast.Assign) and isinstance(a.value, ast.Call)
              and norm(a.value.func) == "defaultdict" and a.value.args and isinstance(a.value.args[0], ast.Lambda)}
    ctx.require(len(tables) >= 2, "PPQ", f.qname, "event tables not found")
    bad = []
    n_keys = 0
    for n in own_nodes(f.node):
        if isinstance(n, ast.Subscript) and isinstance(n.value, ast.Subscript) and norm(n.value.value) in tables \
                and isinstance(getattr(n, "_parent", None), ast.Attribute):
            key = n.slice
            n_keys += 1
            if not (isinstance(key, ast.Call) and norm(key.func) == "to_ppq") and not (isinstance(key, ast.Constant) and key.value == 0) \
                    and not isinstance(key, ast.Name):
                bad.append(n)
    ctx.check(not bad and n_keys >= 6, "PPQ", f"{f.qname}: event times are to_ppq(...)", func=f, node=bad[0] if bad else None,
              construct="event-time-not-converted", msg="an event is filed under a time that did not go through to_ppq")
    g = prog.func(f"{EXP}:get_ppq", "PPQ")
    ctx.touch(g)
    src = norm(g.node)
    ok = "np.lcm.reduce" in src and "iter_parts(parts)" in src and "quarter_durations()" in src
    ctx.check(ok, "PPQ", f"{g.qname}: lcm over all parts", func=g, construct="get_ppq",
              msg="get_ppq must be np.lcm.reduce over part.quarter_durations()[:, 1] of every part in iter_parts(parts)")


def rule_modes(ctx):
    ctx.rule("F6-modes", "map_to_track_channel (export) and assign_group_part_voice (import) dispatch on exactly the six "
                         "modes 0..5; the exporter raises for anything else and assigns both track and channel in every "
                         "branch; the importer assigns the part in every branch")
    for q, which, must_raise in ((f"{EXP}:map_to_track_channel", "all", True),
                                 (f"{IMP}:assign_group_part_voice", 1, False)):
        f = ctx.prog.func(q, "F6-modes")
        ctx.touch(f)
        # the result tables, by role: the dicts read with .get(...) in the tuple that builds the result
        gets = []
        for n in own_nodes(f.node):
            if isinstance(n, ast.Tuple) and n.elts and all(isinstance(e, ast.Call) and isinstance(e.func, ast.Attribute) and e.func.attr == "get"
                                                           and isinstance(e.func.value, ast.Name) for e in n.elts) and len(n.elts) >= 2:
                gets = [e.func.value.id for e in n.elts]
        ctx.require(gets, "F6-modes", q, "result tuple of .get(...) lookups not found")
        need = tuple(gets) if which == "all" else (gets[which],)
        chain = find_chain(f, "mode", 3)
        ctx.require(chain is not None, "F6-modes", q, "mode dispatch not found")
        br = lift_chain(chain, "mode")
        vals = sorted(v for b in br if b.kind == "eq" for v in b.values)
        ctx.check(vals == [0, 1, 2, 3, 4, 5], "F6-modes", f"{q}: modes {vals}", func=f, node=chain, construct="mode-domain",
                  msg=f"dispatch covers modes {vals}, documented are 0..5")
        if must_raise:
            ctx.check(any(b.kind == "else" and b.raises for b in br), "F6-modes", f"{q}: else raises", func=f, node=chain,
                      construct="mode-else-raise", msg="an unsupported mode must be rejected")
        # a table may also be filled after the dispatch from a local that every branch sets (`trk, ch = ..` / `track[key] = trk`)
        from .dispatch import _following
        via_local = {}
        for s_after in _following(chain):
            for n in ast.walk(s_after):
                if isinstance(n, ast.Assign) and isinstance(n.targets[0], ast.Subscript) and isinstance(n.targets[0].value, ast.Name) and isinstance(n.value, ast.Name):
                    via_local.setdefault(n.value.id, set()).add(n.targets[0].value.id)
        for b in br:
            if b.kind != "eq":
                continue
            stored = set()
            for s in b.body:
                for n in ast.walk(s):
                    if isinstance(n, ast.Name) and isinstance(n.ctx, ast.Store) and n.id in via_local:
                        stored |= via_local[n.id]
                    if isinstance(n, ast.Subscript) and isinstance(n.ctx, ast.Store) and isinstance(n.value, ast.Name):
                        stored.add(n.value.id)
                    if isinstance(n, ast.Call) and isinstance(n.func, ast.Attribute) and n.func.attr == "setdefault" \
                            and isinstance(n.func.value, ast.Name):
                        stored.add(n.func.value.id)
            ctx.check(set(need) <= stored, "F6-modes", f"{q}: mode {b.values[0]} assigns {'/'.join(need)}", func=f, node=b.test,
                      construct=f"mode{b.values[0]}-incomplete",
                      msg=f"mode {b.values[0]} does not assign {sorted(set(need) - stored)}")
    f = ctx.prog.func(f"{EXP}:save_score_midi", "F6-modes")
    # pickup policies
    lits = set()
    raises_else = False
    for n in own_nodes(f.node):
        if isinstance(n, ast.Compare) and norm(n.left) == "anacrusis_behavior" and isinstance(n.comparators[0], ast.Constant):
            lits.add(n.comparators[0].value)
    for n in own_nodes(f.node):
        if isinstance(n, ast.If) and "anacrusis_behavior" in norm(n.test):
            cur = n
            while len(cur.orelse) == 1 and isinstance(cur.orelse[0], ast.If):
                cur = cur.orelse[0]
            if cur.orelse and any(isinstance(s, ast.Raise) for s in cur.orelse):
                raises_else = True
    ctx.check(lits == {"shift", "time_sig_change", "pad_bar"} and raises_else, "F6-modes", f"{f.qname}: pickup policies", func=f,
              construct="anacrusis-policies",
              msg=f"the three documented pickup policies must be dispatched with a raising else (found {sorted(lits)}, raising else: {raises_else})")


def rule_tied_export(ctx):
    ctx.rule("TIE-midi", "tied notes are merged on export: save_score_midi iterates part.notes_tied and ends each note at "
                         "start + duration_tied")
    f = ctx.prog.func(f"{EXP}:save_score_midi", "TIE-midi")
    defs = [n for n in own_nodes(f.node) if isinstance(n, ast.Assign) and norm(n.value).endswith(".notes_tied")]
    ctx.require(defs, "TIE-midi", f.qname, "no notes_tied source")
    var = norm(defs[0].targets[0])
    loops = [n for n in own_nodes(f.node) if isinstance(n, ast.For) and norm(n.iter) == var]
    ctx.require(len(loops) == 1, "TIE-midi", f.qname, "note loop not found")
    v = norm(loops[0].target)
    offs = [n for n in ast.walk(loops[0]) if isinstance(n, ast.Call) and norm(n.func).endswith("Message") and n.args
            and isinstance(n.args[0], ast.Constant) and n.args[0].value == "note_off"]
    ons = [n for n in ast.walk(loops[0]) if isinstance(n, ast.Call) and norm(n.func).endswith("Message") and n.args
           and isinstance(n.args[0], ast.Constant) and n.args[0].value == "note_on"]
    ctx.check(len(ons) == 1 and len(offs) == 1, "TIE-midi", "one note_on and one note_off per note", func=f, node=loops[0],
              construct="note-events", msg="each exported note needs exactly one note_on and one note_off")
    uses = f"{v}.duration_tied" in norm(loops[0]) and f"{v}.duration)" not in norm(loops[0])
    ctx.check(uses, "TIE-midi", "note_off at start + duration_tied", func=f, node=loops[0], construct="note_off-not-tied",
              msg="the note_off position must be start + duration_tied: a tie chain sounds as one note")


# ----------------------------------------------------------------------- C06

def rule_F7h_tempo(ctx):
    ctx.rule("F7h", "a list appended to inside a per-track loop whose tick clock restarts for every track, and consumed by a "
                    "scan that breaks at the first later entry, must be sorted (merged) before the scan")
    w = world(ctx)
    f = ctx.prog.func(f"{IMP}:load_performance_midi", "F7h")
    ctx.touch(f)
    # per-iteration clocks: names assigned the constant 0 inside an outer For
    outer = [n for n in own_nodes(f.node) if isinstance(n, ast.For)]
    sites = []
    for loop in outer:
        clocks = {norm(s.targets[0]) for s in loop.body if isinstance(s, ast.Assign) and isinstance(s.value, ast.Constant)
                  and s.value.value == 0 and len(s.targets) == 1}
        if not clocks:
            continue
        for n in ast.walk(loop):
            if isinstance(n, ast.Call) and isinstance(n.func, ast.Attribute) and n.func.attr == "append" \
                    and isinstance(n.func.value, ast.Name) and n.args and isinstance(n.args[0], ast.Tuple) \
                    and n.args[0].elts and norm(n.args[0].elts[0]) in clocks:
                lst = n.func.value.id
                # list initialised outside the loop?
                inits = [a for a in own_nodes(f.node) if isinstance(a, ast.Assign) and any(norm(t) == lst for t in a.targets)]
                if inits and all(not any(a is x for x in ast.walk(loop)) for a in inits):
                    sites.append((lst, n, loop))
    ctx.require(sites, "F7h", f.qname, "tempo list accumulation not recognised")
    cfg = w.inf.cfg(f)
    for lst, app, loop in sites:
        consumers = []
        for n in own_nodes(f.node):
            if isinstance(n, ast.Call) and any(isinstance(a, ast.Name) and a.id == lst for a in n.args):
                tg = w.inf.callee(f, n)
                for kind, g, _ in tg:
                    if kind == "func" and _breaks_on_first_larger(g, n, lst):
                        consumers.append((n, g))
        if not consumers:
            ctx.ok("F7h", f"{f.qname}:{lst}: no order-dependent consumer")
            continue
        sorts = set()
        for m in cfg.nodes:
            if m.ast is None or m.kind != "stmt":
                continue
            s = m.ast
            if isinstance(s, ast.Expr) and isinstance(s.value, ast.Call) and norm(s.value.func) == f"{lst}.sort":
                sorts.add(m)
            if isinstance(s, ast.Assign) and any(norm(t) == lst for t in s.targets) and isinstance(s.value, ast.Call) \
                    and norm(s.value.func) in ("sorted", "list") and "sorted" in norm(s.value):
                sorts.add(m)
        # the sort must come after the accumulating loop and dominate the consumers
        dom = cfg.dominators(include_exc=False)
        loopn = cfg.node_of(loop)
        good = False
        for sn in sorts:
            if loopn in dom.get(sn, ()) and not any(sn.ast is x for x in ast.walk(loop)):
                if all(sn in dom.get(_cfgnode(cfg, c), ()) for c, _ in consumers):
                    good = True
        c0, g0 = consumers[0]
        ctx.check(good, "F7h", f"{f.qname}:{lst}->{g0.name}", func=f, node=app, construct=f"unsorted-merge:{lst}",
                  msg=f"`{lst}` collects (tick, tempo) pairs from every track, each track counting ticks from 0, and "
                      f"{g0.name} stops at the first entry beyond the event's tick — without sorting/merging by tick the "
                      f"tempo changes of a later track are integrated out of order (wrong seconds whenever set_tempo "
                      f"events live in more than one track)")


def _cfgnode(cfg, node):
    st = node
    while st is not None and cfg.node_of(st) is None:
        st = getattr(st, "_parent", None)
    return cfg.node_of(st)


def _breaks_on_first_larger(g: FuncInfo, call: ast.Call, lst: str) -> bool:
    idx = next((i for i, a in enumerate(call.args) if isinstance(a, ast.Name) and a.id == lst), None)
    if idx is None or idx >= len(g.params):
        return False
    p = g.params[idx]
    for n in own_nodes(g.node):
        if isinstance(n, ast.For) and norm(n.iter) == p:
            for s in n.body:
                if isinstance(s, ast.If) and isinstance(s.test, ast.Compare) and any(isinstance(b, ast.Break) for b in s.body):
                    return True
    return False


def rule_clock_agreement(ctx):
    ctx.rule("CLOCK", "export: the ppq/mpq that scale seconds to ticks are the variables written to MidiFile(ticks_per_beat=) "
                      "and set_tempo(tempo=); import: the file's ticks_per_beat is what adjust_time and PerformedPart(ppq=) get")
    f = ctx.prog.func(f"{EXP}:save_performance_midi", "CLOCK")
    ctx.touch(f)
    mf = [n for n in own_nodes(f.node) if isinstance(n, ast.Call) and norm(n.func).endswith("MidiFile")]
    st = [n for n in own_nodes(f.node) if isinstance(n, ast.Call) and norm(n.func).endswith("MetaMessage") and n.args
          and isinstance(n.args[0], ast.Constant) and n.args[0].value == "set_tempo"]
    ctx.require(mf and st, "CLOCK", f.qname, "MidiFile / set_tempo construction not found")
    tpb = next((norm(k.value) for k in mf[0].keywords if k.arg == "ticks_per_beat"), None)
    tempo = next((norm(k.value) for k in st[0].keywords if k.arg == "tempo"), None)
    ctx.check(tpb in f.all_params and tempo in f.all_params and tpb != tempo, "CLOCK", f"{f.qname}: header uses ppq/mpq", func=f, node=mf[0],
              construct="header-clock", msg=f"header written with ticks_per_beat={tpb}, tempo={tempo}; the tick formula uses ppq and mpq")
    n = 0
    for g, call, arg in tick_conversions(ctx.prog, f, tpb or "ppq"):
        n += 1
        inner = arg.args[0] if is_rounded(arg) and arg.args else arg
        txt = norm(inner)
        ok = isinstance(inner, ast.BinOp) and isinstance(inner.op, ast.Div) and norm(inner.right) == tempo \
            and "10 ** 6" in txt and any(isinstance(x, ast.Name) and x.id == tpb for x in ast.walk(inner.left))
        ctx.check(ok, "CLOCK", f"{f.qname}:{txt[:40]}", func=f, node=call, construct=f"tick-formula:{txt[:30]}",
                  msg=f"`{txt}` is not of the form 10**6 * ppq * seconds / mpq")
    ctx.floor("CLOCK", "tick formulas in save_performance_midi", n, 4)
    g = ctx.prog.func(f"{IMP}:load_performance_midi", "CLOCK")
    ctx.touch(g)
    ppq_def = [a for a in own_nodes(g.node) if isinstance(a, ast.Assign) and norm(a.value).endswith(".ticks_per_beat") and isinstance(a.targets[0], ast.Name)]
    ctx.check(len(ppq_def) == 1 and sum(1 for a in own_nodes(g.node) if isinstance(a, ast.Assign) and ppq_def and norm(a.targets[0]) == norm(ppq_def[0].targets[0])) == 1,
              "CLOCK", f"{g.qname}: ppq is the file's", func=g, construct="import-ppq", msg="ppq must be the file's ticks_per_beat and nothing else")
    ippq = norm(ppq_def[0].targets[0]) if ppq_def else "ppq"
    tlist = {n.func.value.id for n in own_nodes(g.node) if isinstance(n, ast.Call) and isinstance(n.func, ast.Attribute) and n.func.attr == "append"
             and isinstance(n.func.value, ast.Name) and n.args and isinstance(n.args[0], ast.Tuple) and len(n.args[0].elts) == 2
             and any(isinstance(x, ast.Attribute) and x.attr == "tempo" for a in own_nodes(g.node) if isinstance(a, ast.Assign)
                     and norm(a.targets[0]) == norm(n.args[0].elts[1]) for x in ast.walk(a.value))}
    calls = [n for n in own_nodes(g.node) if isinstance(n, ast.Call) and norm(n.func) == "adjust_time"]
    ctx.floor("CLOCK", "adjust_time call sites", len(calls), 2)
    # every kind of event the performed part carries gets its seconds from its own tick: the lists reached by the loops around
    # the conversions (directly, or through a loop over a tuple of lists) cover notes, controls, programs, both signatures and the rest
    defs_g = {}
    for a in own_nodes(g.node):
        if isinstance(a, ast.Assign) and len(a.targets) == 1 and isinstance(a.targets[0], ast.Name):
            defs_g.setdefault(a.targets[0].id, []).append(a.value)
    covered = set()

    def lists_of(e, depth=0):
        if isinstance(e, ast.Attribute):
            return {e.attr}
        if isinstance(e, (ast.Tuple, ast.List)):
            return set().union(*[lists_of(x, depth + 1) for x in e.elts]) if e.elts else set()
        if isinstance(e, ast.Name) and depth < 4:
            out = set()
            for v in defs_g.get(e.id, []):
                out |= lists_of(v, depth + 1)
            # a loop variable ranging over a display of lists
            for lp in own_nodes(g.node):
                if isinstance(lp, ast.For) and isinstance(lp.target, ast.Name) and lp.target.id == e.id:
                    out |= lists_of(lp.iter, depth + 1)
            return out
        return set()
    for c in calls:
        p_ = getattr(c, "_parent", None)
        while p_ is not None and p_ is not g.node:
            if isinstance(p_, ast.For):
                covered |= lists_of(p_.iter)
            p_ = getattr(p_, "_parent", None)
    want = {"notes", "controls", "programs", "time_signatures", "key_signatures", "meta_other"}
    ctx.check(want <= covered, "CLOCK", f"{g.qname}: every event list is time-adjusted", func=g, construct=f"event-list-not-adjusted:{','.join(sorted(want - covered))}",
              msg=f"the tempo-integrated times are not computed for {sorted(want - covered)} (lists reached by the adjust_time loops: {sorted(covered)})")
    for c in calls:
        ok = len(c.args) == 3 and norm(c.args[1]) in tlist and norm(c.args[2]) == ippq and norm(c.args[0]).endswith("_tick']")
        ctx.check(ok, "CLOCK", f"{g.qname}:{norm(c)[:50]}", func=g, node=c, construct=f"adjust_time-args:{norm(c.args[0])[:30]}",
                  msg=f"`{norm(c)[:80]}` must convert the event's own tick with the file's tempo list and ppq")
    pp = [n for n in own_nodes(g.node) if isinstance(n, ast.Call) and norm(n.func).endswith("PerformedPart")]
    ctx.require(pp, "CLOCK", g.qname, "PerformedPart construction not found")
    kw = {k.arg: norm(k.value) for k in pp[0].keywords}
    ctx.check(kw.get("ppq") == ippq, "CLOCK", f"{g.qname}: PerformedPart(ppq=ppq)", func=g, node=pp[0], construct="ppart-ppq",
              msg="the performed part must carry the file's ppq")


def rule_note_pairing(ctx):
    ctx.rule("F5e-pairing", "both MIDI readers pair note-on/off by note_hash(channel, pitch) (injective in both), start a note "
                            "on note_on with velocity > 0 and end it on note_off or note_on with velocity 0")
    h = ctx.prog.func(f"{IMP}:note_hash", "F5e-pairing")
    ctx.touch(h)
    ret = [n for n in own_nodes(h.node) if isinstance(n, ast.Return)]
    ok = len(ret) == 1 and norm(ret[0].value) in (f"{h.params[0]} * 128 + {h.params[1]}", f"{h.params[1]} + {h.params[0]} * 128",
                                                   f"128 * {h.params[0]} + {h.params[1]}")
    ctx.check(ok, "F5e-pairing", "note_hash = channel*128 + pitch", func=h, construct="note_hash",
              msg="note_hash must be injective on (channel 0..15, pitch 0..127): channel * 128 + pitch")
    for q in (f"{IMP}:load_performance_midi", f"{IMP}:load_score_midi"):
        f = ctx.prog.func(q, "F5e-pairing")
        ctx.touch(f)
        keys = [n for n in own_nodes(f.node) if isinstance(n, ast.Call) and norm(n.func) == "note_hash"]
        msgv = "msg"
        if keys:
            p_ = getattr(keys[0], "_parent", None)
            while p_ is not None and not (isinstance(p_, ast.For) and isinstance(p_.target, ast.Name)):
                p_ = getattr(p_, "_parent", None)
            if p_ is not None:
                msgv = p_.target.id
        ctx.check(len(keys) == 1 and [norm(a) for a in keys[0].args] == [f"{msgv}.channel", f"{msgv}.note"], "F5e-pairing",
                  f"{q}: key is note_hash(msg.channel, msg.note)", func=f, node=keys[0] if keys else None, construct="pairing-key",
                  msg="sounding notes must be keyed by (channel, pitch) of the message")
        start = end = None
        flags = {}
        for a in own_nodes(f.node):
            if isinstance(a, ast.Assign) and isinstance(a.value, ast.Compare) and norm(a.value.left) == f"{msgv}.type" and isinstance(a.value.comparators[0], ast.Constant) \
                    and isinstance(a.targets[0], ast.Name):
                flags[a.value.comparators[0].value] = a.targets[0].id
        on_v, off_v = flags.get("note_on", "note_on"), flags.get("note_off", "note_off")
        # the statements that open and close a sounding note, and the conditions under which they run (enclosing branches and
        # earlier `if ..: continue` guards alike, comparisons in canonical orientation)
        from .extra import _path_conditions
        key = norm(keys[0]._parent.targets[0]) if keys and isinstance(getattr(keys[0], "_parent", None), ast.Assign) else None
        opens = [n for n in own_nodes(f.node) if isinstance(n, ast.Assign) and isinstance(n.targets[0], ast.Subscript) and isinstance(n.targets[0].value, ast.Name)
                 and key is not None and norm(n.targets[0].slice) == key]
        tabs = {norm(n.targets[0].value) for n in opens}
        closes = [n for n in own_nodes(f.node) if isinstance(n, ast.Delete) and any(isinstance(t, ast.Subscript) and norm(t.value) in tabs and norm(t.slice) == key for t in n.targets)]
        ok_start = bool(opens)
        for n in opens:
            conds = _path_conditions(n, f.node)
            ok_start = ok_start and on_v in conds and f"0 < {msgv}.velocity" in conds
        ctx.check(ok_start, "F5e-pairing", f"{q}: start guard", func=f, node=opens[0] if opens else None, construct="start-guard",
                  msg="a note starts on note_on with velocity > 0")
        ok_end = bool(closes)
        for n in closes:
            conds = _path_conditions(n, f.node)
            hit = False
            for c in conds:
                try:
                    e = ast.parse(c, mode="eval").body
                except SyntaxError:
                    continue
                if isinstance(e, ast.BoolOp) and isinstance(e.op, ast.Or):
                    dis = {norm(v) for v in e.values}
                    if off_v in dis and any(d in dis for d in (f"{on_v} and {msgv}.velocity == 0", f"{msgv}.velocity == 0 and {on_v}")):
                        hit = True
            ok_end = ok_end and hit
        ctx.check(ok_end, "F5e-pairing", f"{q}: end guard", func=f, node=closes[0] if closes else None, construct="end-guard",
                  msg="a note ends on note_off or on note_on with velocity 0 (running-status files)")
        ctx.check(bool(opens) and bool(closes), "F5e-pairing", f"{q}: open/close bookkeeping", func=f, construct="sounding-bookkeeping",
                  msg="a started note is stored in sounding_notes and removed when it ends (pairs each note-on with the *next* off)")


def rule_id_order(ctx):
    ctx.rule("ID-ORDER", "performed-note ids follow the sort key (note_on, midi_pitch, note_off, channel, track)")
    f = ctx.prog.func(f"{IMP}:load_performance_midi", "ID-ORDER")
    sorts = [n for n in own_nodes(f.node) if isinstance(n, ast.Call) and isinstance(n.func, ast.Attribute) and n.func.attr == "sort"
             and any(k.arg == "key" and isinstance(k.value, ast.Lambda) and isinstance(k.value.body, ast.Tuple) for k in n.keywords)]
    ctx.require(len(sorts) == 1, "ID-ORDER", f.qname, "<notes>.sort(key=lambda x: (...)) not found")
    lst = norm(sorts[0].func.value)
    key = next((k.value for k in sorts[0].keywords if k.arg == "key"), None)
    seq = []
    if isinstance(key, ast.Lambda) and isinstance(key.body, ast.Tuple):
        for e in key.body.elts:
            if isinstance(e, ast.Subscript) and isinstance(e.slice, ast.Constant):
                seq.append(e.slice.value)
    want = ["note_on", "midi_pitch", "note_off", "channel", "track"]
    ctx.check(seq == want, "ID-ORDER", f"{f.qname}: sort key", func=f, node=sorts[0], construct="id-sort-key",
              msg=f"ids are assigned in the order of the sort key {seq}; documented order is onset, pitch, offset, channel, track")
    # the id assignment follows the sort
    idloop = [n for n in own_nodes(f.node) if isinstance(n, ast.For) and f"enumerate({lst})" in norm(n.iter)]
    ctx.check(bool(idloop) and pos(idloop[0]) > pos(sorts[0]), "ID-ORDER", f"{f.qname}: ids after sort", func=f,
              construct="id-after-sort", msg="ids must be assigned after sorting")


def rule_message_kinds(ctx):
    ctx.rule("F6-kinds", "every MIDI message type the performance exporter constructs has a branch in the performance importer")
    e = ctx.prog.func(f"{EXP}:save_performance_midi", "F6-kinds")
    i = ctx.prog.func(f"{IMP}:load_performance_midi", "F6-kinds")
    ctx.touch(e, i)
    written = set()
    for n in own_nodes(e.node):
        if isinstance(n, ast.Call) and norm(n.func).endswith("Message"):
            t = n.args[0] if n.args else next((k.value for k in n.keywords if k.arg == "type"), None)
            if isinstance(t, ast.Constant):
                written.add(t.value)
    handled = set()
    for n in own_nodes(i.node):
        if isinstance(n, ast.Compare) and isinstance(n.left, ast.Attribute) and n.left.attr == "type" and isinstance(n.comparators[0], ast.Constant):
            handled.add(n.comparators[0].value)
    ctx.require(len(written) >= 6, "F6-kinds", e.qname, f"message constructors not recognised: {written}")
    for k in sorted(written):
        ctx.check(k in handled, "F6-kinds", f"importer handles {k}", func=i, construct=f"unhandled-kind:{k}",
                  msg=f"the exporter writes `{k}` messages but load_performance_midi has no branch for that type")
