"""IDX-next: the position of a member plus one, used as an index into a sequence of the same length, without a bound check."""
from __future__ import annotations

import ast

from ..core.program import own_nodes, norm


def _is_position_plus_one(e):
    """`np.where(U == x)[0][0] + 1`, possibly inside int(): returns U's text"""
    while isinstance(e, ast.Call) and isinstance(e.func, ast.Name) and e.func.id == "int" and len(e.args) == 1:
        e = e.args[0]
    if not (isinstance(e, ast.BinOp) and isinstance(e.op, ast.Add)):
        return None
    for a, b in ((e.left, e.right), (e.right, e.left)):
        if isinstance(b, ast.Constant) and b.value == 1:
            x = a
            # [0][0] of np.where(U == v)
            if isinstance(x, ast.Subscript) and isinstance(x.value, ast.Subscript) and isinstance(x.value.value, ast.Call) \
                    and norm(x.value.value.func) in ("np.where", "numpy.where", "np.nonzero", "np.flatnonzero") and x.value.value.args:
                t = x.value.value.args[0]
                if isinstance(t, ast.Compare) and len(t.ops) == 1 and isinstance(t.ops[0], ast.Eq):
                    return norm(t.left)
    return None


def rule_successor_index_bounded(ctx, q="partitura.musicanalysis.voice_separation:VoSA.__init__"):
    rule = "IDX-next"
    ctx.rule(rule, "an index computed as (position of a member in U) + 1 and used on a sequence with one entry per element of U is "
                   "guarded by a comparison with the length on every path: for the last member the successor does not exist")
    from .extra import expand_single_defs, local_defs, _path_conditions
    f = ctx.prog.func(q, rule)
    ctx.touch(f)
    defs = local_defs(f)
    n = 0
    for s in own_nodes(f.node):
        if not (isinstance(s, ast.Subscript) and isinstance(s.ctx, ast.Load) and isinstance(s.value, ast.Name)):
            continue
        idx = expand_single_defs(s.slice, defs, depth=3, keep=()) if not isinstance(s.slice, ast.Slice) else None
        if idx is None:
            continue
        u = _is_position_plus_one(idx)
        if u is None:
            continue
        # the indexed sequence has one entry per element of U: `[... for x in U]`
        ldefs = defs.get(s.value.id, [])
        same_len = any(isinstance(d, ast.ListComp) and len(d.generators) == 1 and not d.generators[0].ifs
                       and norm(expand_single_defs(d.generators[0].iter, defs, depth=3, keep=())) == u for d in ldefs) \
            or norm(expand_single_defs(s.value, defs, depth=3, keep=())) == u
        if not same_len:
            continue
        n += 1
        conds = _path_conditions(s, f.node)
        guarded = any(("len(" in c) and any(nm in c for nm in (s.value.id, u, norm(s.slice))) for c in conds)
        ctx.check(guarded, rule, f"{q}:{norm(s)[:40]}", func=f, node=s, construct="index-past-end:successor-of-found-position",
                  msg=f"`{norm(s)}` with `{norm(s.slice)} = {norm(idx)[:60]}`: when the member is the last of `{u}` the index equals "
                      f"len({s.value.id}) and the lookup raises IndexError (a zero-duration note alone at the last onset: "
                      f"estimate_voices([(60, 0, 1), (62, 1, 0)]))")
    ctx.ok(rule, f"{n} successor-index lookup(s) examined")
