"""Rules for the match-file line classes (C07)."""
from __future__ import annotations

import ast
from typing import Dict, List, Optional

from ..core.constfold import Folder, LambdaRef, NPattern, NTuple, SymRef, Unfoldable
from ..core.program import AnalysisError, ClassInfo, own_nodes, norm
from ..core.rx import literal_text, regex_groups, regex_skeleton, template_skeleton
from ..core.types import Infer, definite
from ..core.world import world

MODS = ("partitura.io.matchfile_base", "partitura.io.matchlines_v0", "partitura.io.matchlines_v1")
BASE = "partitura.io.matchfile_base:MatchLine"


def line_classes(ctx) -> List[ClassInfo]:
    base = ctx.prog.cls(BASE, "C07")
    out = [c for c in ctx.prog.classes.values() if base in c.mro and c is not base and c.module.name in MODS]
    return sorted(out, key=lambda c: c.qname)


def _check_schema(ctx, where, file, tag, pattern, out_pattern, field_names, func=None):
    """template fields == regex named groups == field_names (as ordered lists); same literal text."""
    tsk = template_skeleton(out_pattern)
    tfields = [t for k, t in tsk if k == "field"]
    groups = regex_groups(pattern)
    rsk = regex_skeleton(pattern)
    ok_order = tfields == groups
    ctx.check(ok_order, "F5b", f"{tag}: template fields == regex groups", where=where, file=file,
              construct=f"{tag}:field-order",
              msg=f"output template fields {tfields} differ from the regular expression's groups {groups}: the text "
                  f"written would not parse back into the same fields")
    if field_names is not None:
        ctx.check(list(field_names) == groups, "F5b", f"{tag}: field_names == regex groups", where=where, file=file,
                  construct=f"{tag}:field_names",
                  msg=f"field_names {list(field_names)} differ from the regular expression's groups {groups}")
    lt, lr = literal_text(tsk), literal_text(rsk)
    ctx.check(lt == lr or lt == lr + ".", "F5b", f"{tag}: literal skeleton", where=where, file=file, construct=f"{tag}:literals",
              msg=f"literal text of the template ({lt!r}) differs from the regular expression's ({lr!r}): writing then "
                  f"parsing would not be a fixpoint")


def rule_F5b(ctx):
    ctx.rule("F5b", "for every line class / per-version table with a foldable out_pattern and pattern: the template's "
                    "fields, the regular expression's capture groups and field_names are the same ordered list, the "
                    "literal text agrees (bracket-insensitive: list formatters add their own), format_fun covers every "
                    "field, field_types has one entry per field, and the number of targets unpacked from .groups() "
                    "equals the number of groups")
    fo = world(ctx).folder
    n = 0
    for ci in line_classes(ctx):
        ctx.modules_consulted.add(ci.module.name)
        pat = fo.try_class_attr(ci, "pattern")
        outp = fo.try_class_attr(ci, "out_pattern")
        names = fo.try_class_attr(ci, "field_names")
        own = any(a in ci.class_attrs for a in ("pattern", "out_pattern", "field_names"))
        if not own:
            continue
        if isinstance(pat, NPattern) and isinstance(outp, str) and "{" in outp:
            tfields = [t for k, t in template_skeleton(outp) if k == "field"]
            composite = any(t.endswith("Line") for t in tfields)
            if not composite:
                n += 1
                _check_schema(ctx, ci.qname, ci.module.relpath, ci.name, pat.pattern, outp, names)
        ff = fo.try_class_attr(ci, "format_fun")
        ft = fo.try_class_attr(ci, "field_types")
        if isinstance(names, tuple) and isinstance(ff, dict) and "format_fun" in ci.class_attrs:
            ctx.check(set(names) <= set(ff), "F5b", f"{ci.name}: format_fun covers field_names", where=ci.qname,
                      file=ci.module.relpath, construct=f"{ci.name}:format_fun-keys",
                      msg=f"fields {sorted(set(names) - set(ff))} have no formatter: .matchline raises KeyError")
        if isinstance(names, tuple) and isinstance(ft, tuple) and "field_types" in ci.class_attrs and "field_names" in ci.class_attrs:
            if len(ft) == len(names):
                ctx.ok("F5b", f"{ci.name}: len(field_types) == len(field_names)")
            else:
                ctx.note("F5b", f"{ci.name}: {len(ft)} field types for {len(names)} fields (check_types zips, tail ignored; "
                                f"subclasses rebind the tables per version)")
        # prepare_kwargs: number of targets unpacked from .groups()
        pk = ci.methods.get("prepare_kwargs_from_matchline")
        if pk is not None and isinstance(pat, NPattern):
            for a in own_nodes(pk.node):
                if isinstance(a, ast.Assign) and isinstance(a.targets[0], ast.Tuple) and isinstance(a.value, ast.Call) \
                        and norm(a.value.func).endswith(".groups"):
                    k = len(a.targets[0].elts)
                    g = len(regex_groups(pat.pattern))
                    ctx.check(k == g, "F5b", f"{ci.name}: groups() unpacked into {k} names", func=pk, node=a,
                              construct=f"{ci.name}:groups-arity",
                              msg=f"{k} names are unpacked from a pattern with {g} groups (ValueError on every parse)")
    # per-version tables with the same schema keys
    for mod in MODS[1:]:
        m = ctx.prog.module(mod)
        for name, node in m.defs.items():
            if not isinstance(node, ast.Assign):
                continue
            v = fo.try_const(mod, name)
            for key, d in _walk_dicts(v, name):
                if isinstance(d, dict) and {"field_names", "out_pattern", "pattern"} <= set(d):
                    if isinstance(d["pattern"], NPattern) and isinstance(d["out_pattern"], str):
                        n += 1
                        _check_schema(ctx, f"{mod}:{name}", m.relpath, key, d["pattern"].pattern, d["out_pattern"], d["field_names"])
                        fi = d.get("field_interpreters")
                        if isinstance(fi, dict):
                            ctx.check(list(fi) == list(d["field_names"]), "F5b", f"{key}: field_interpreters keys == field_names",
                                      where=f"{mod}:{name}", file=m.relpath, construct=f"{key}:interpreter-keys",
                                      msg=f"field_interpreters keys {list(fi)} differ from field_names {list(d['field_names'])}")
    ctx.floor("F5b", "template/regex pairs", n, 12)


def _walk_dicts(v, path):
    if isinstance(v, dict):
        yield path, v
        for k, x in v.items():
            yield from _walk_dicts(x, f"{path}[{_k(k)}]")


def _k(k):
    if isinstance(k, NTuple):
        return ".".join(str(x) for x in k)
    return str(k)


# ------------------------------------------------------------------------ F4f

_BUILTIN_OK = {
    "int": {("b", "int"), ("b", "bool")}, "float": {("b", "float"), ("b", "int")}, "str": {("b", "str")},
    "list": {"list"}, "NoneType": {("b", "none")}, "bool": {("b", "bool")},
}


def rule_F4f(ctx):
    ctx.rule("F4f", "every entry of the per-version field tables is a triple (interpret, format, type); the return type of "
                    "`interpret`, inferred from its body (annotations not trusted), is an instance of the declared type")
    fo = world(ctx).folder
    inf = Infer(ctx.prog)
    inf.deep = True
    n = 0
    unresolved = 0
    for mod in MODS[1:]:
        m = ctx.prog.module(mod)
        for name, node in m.defs.items():
            if not isinstance(node, ast.Assign):
                continue
            v = fo.try_const(mod, name)
            for key, d in _walk_dicts(v, name):
                for fld, triple in d.items():
                    if not (isinstance(triple, tuple) and not isinstance(triple, NTuple) and len(triple) == 3
                            and isinstance(triple[0], (SymRef, LambdaRef)) and isinstance(triple[1], (SymRef, LambdaRef))):
                        continue
                    n += 1
                    interp, fmt, typ = triple
                    declared = typ if isinstance(typ, tuple) else (typ,)
                    ok_shape = all(isinstance(t, SymRef) and t.kind in ("class", "builtin", "const") or isinstance(t, tuple)
                                   for t in declared)
                    if not isinstance(interp, SymRef) or interp.kind != "func":
                        ctx.ok("F4f", f"{key}.{fld}: interpreter is a lambda/builtin (not judged)")
                        continue
                    fi = ctx.prog.functions.get(interp.qname)
                    ctx.touch(fi)
                    rt = inf.ret_type(fi)
                    if not definite(rt):
                        unresolved += 1
                        ctx.unresolved.append(f"F4f {key}.{fld}: return type of {interp.qname} not inferred")
                        continue
                    bad = []
                    for atom in rt:
                        if not _atom_ok(ctx, atom, declared):
                            bad.append(atom)
                    if bad and not any(isinstance(t, SymRef) and t.kind == "class" for t in declared):
                        # builtin-typed fields may be post-processed by the line class
                        # (e.g. Modifier goes through ensure_pitch_spelling_format): not judged
                        ctx.note("F4f", f"{key}.{fld}: {interp.qname.split(':')[1]} returns {_fmt_t(rt)} where {_tn(declared)} "
                                        f"is declared (builtin-typed field, may be post-processed: evidence only)")
                        continue
                    ctx.check(not bad, "F4f", f"{key}.{fld}: {interp.qname.split(':')[1]} -> {_tn(declared)}", func=fi,
                              construct=f"interpret-returns-wrong-type:{fld}:{interp.qname.split(':')[1]}",
                              msg=f"table {key} declares field `{fld}` as {_tn(declared)} but `{interp.qname.split(':')[1]}` "
                                  f"returns {_fmt_t(rt)}: the parsed value cannot be formatted back by "
                                  f"`{fmt.qname.split(':')[1] if isinstance(fmt, SymRef) else 'lambda'}` (which expects the declared "
                                  f"type) and check_types fails")
    ctx.floor("F4f", "codec triples", n, 60)
    ctx.extra["F4f_triples"] = n
    ctx.extra["F4f_unresolved"] = unresolved


def _tn(declared):
    return "/".join(t.qname.split(":")[-1] if isinstance(t, SymRef) else str(t) for t in declared)


def _fmt_t(t):
    out = []
    for a in t:
        if a[0] == "inst":
            out.append(a[1].split(":")[1])
        elif a[0] == "b":
            out.append(a[1])
        else:
            out.append(a[0])
    return "/".join(sorted(out))


def _atom_ok(ctx, atom, declared) -> bool:
    for t in declared:
        if not isinstance(t, SymRef):
            return True  # unknown declaration: not judged
        if t.kind == "class":
            if atom[0] == "inst":
                ci, di = ctx.prog.classes.get(atom[1]), ctx.prog.classes.get(t.qname)
                if ci is not None and di is not None and di in ci.mro:
                    return True
        elif t.kind == "builtin":
            okset = _BUILTIN_OK.get(t.qname)
            if okset is None:
                return True
            if atom in okset or atom[0] in okset:
                return True
        else:
            return True  # e.g. Version namedtuple: not judged
    return False


# ------------------------------------------------------------------------ F6

# kind changes that are by design (read and frozen)
TO_V1_EXCEPTIONS = {
    ("BaseInfoLine", "MatchScoreProp"): "v0 stores key/time signatures as info lines; v1 has a dedicated scoreprop line",
    ("MatchMeta", "MatchScoreProp"): "v0 meta lines carry score properties; v1 expresses them as scoreprop lines",
}


def rule_to_v1(ctx):
    ctx.rule("F6-to_v1", "for every `isinstance(matchline, B)` branch of to_v1 the class whose from_instance is called is a "
                         "subclass of B (kind preserved; two reasoned exceptions); every class of the v0 parser list reaches "
                         "a branch through its MRO")
    prog = ctx.prog
    f = prog.func("partitura.io.matchlines_v1:to_v1", "F6-to_v1")
    ctx.touch(f)
    branches = []
    for n in own_nodes(f.node):
        if isinstance(n, ast.If) and isinstance(n.test, ast.Call) and norm(n.test.func) == "isinstance" \
                and norm(n.test.args[0]) == f.params[0]:
            par = getattr(n, "_parent", None)
            if isinstance(par, ast.For) and isinstance(n.test.args[1], ast.Name) and any(isinstance(t, ast.Name) and t.id == n.test.args[1].id for t in ast.walk(par.target)):
                continue  # the body of a table-driven dispatch loop: expanded below
            b = _resolve_class(prog, f, n.test.args[1])
            targets = []
            for r in ast.walk(n):
                if isinstance(r, ast.Return) and isinstance(r.value, ast.Call) and isinstance(r.value.func, ast.Attribute) \
                        and r.value.func.attr == "from_instance":
                    # only returns directly in this branch's body (not in the else chain)
                    if any(r is x for s in n.body for x in ast.walk(s)):
                        targets.append((_resolve_class(prog, f, r.value.func.value), r))
            branches.append((b, targets, n))
    # the same dispatch written as a table: `for kind, cls in ((A, B), ..): if isinstance(line, kind): return cls.from_instance(..)`
    for lp in own_nodes(f.node):
        if not (isinstance(lp, ast.For) and isinstance(lp.target, ast.Tuple) and len(lp.target.elts) == 2 and all(isinstance(e, ast.Name) for e in lp.target.elts)):
            continue
        kind_v, cls_v = (e.id for e in lp.target.elts)
        tests = [i for i in lp.body if isinstance(i, ast.If) and isinstance(i.test, ast.Call) and norm(i.test.func) == "isinstance" and len(i.test.args) == 2
                 and norm(i.test.args[0]) == f.params[0] and norm(i.test.args[1]) == kind_v]
        if not tests or not any(isinstance(r, ast.Return) and isinstance(r.value, ast.Call) and norm(r.value.func) == f"{cls_v}.from_instance" for r in ast.walk(tests[0])):
            continue
        table = lp.iter
        if isinstance(table, ast.Name):
            ds = [a.value for a in own_nodes(f.node) if isinstance(a, ast.Assign) and len(a.targets) == 1 and norm(a.targets[0]) == table.id]
            table = ds[0] if len(ds) == 1 else None
        if not isinstance(table, (ast.Tuple, ast.List)):
            raise AnalysisError("F6-to_v1", f.qname, "dispatch table of the loop over (kind, class) pairs not found")
        for row in table.elts:
            if not (isinstance(row, (ast.Tuple, ast.List)) and len(row.elts) == 2):
                raise AnalysisError("F6-to_v1", f.qname, f"dispatch table row not a pair: {norm(row)[:40]}")
            fake = ast.copy_location(ast.Return(value=ast.Call(func=ast.Attribute(value=row.elts[1], attr="from_instance", ctx=ast.Load()), args=[], keywords=[])), row)
            fake_if = ast.copy_location(ast.If(test=ast.Call(func=ast.Name(id="isinstance", ctx=ast.Load()), args=[ast.Name(id=f.params[0], ctx=ast.Load()), row.elts[0]], keywords=[]),
                                               body=[fake], orelse=[]), row)
            branches.append((_resolve_class(prog, f, row.elts[0]), [(_resolve_class(prog, f, row.elts[1]), fake)], fake_if))
    ctx.floor("F6-to_v1", "isinstance branches", len(branches), 5)
    for b, targets, node in branches:
        ctx.require(b is not None, "F6-to_v1", f.qname, f"guard class not resolved: {norm(node.test)}")
        for x, r in targets:
            ctx.require(x is not None, "F6-to_v1", f.qname, f"target class not resolved: {norm(r.value.func)}")
            ok = b in x.mro or (b.name, x.name) in TO_V1_EXCEPTIONS
            ctx.check(ok, "F6-to_v1", f"{b.name} -> {x.name}", func=f, node=r, construct=f"kind-lost:{b.name}->{x.name}",
                      msg=f"a `{b.name}` is converted with {x.name}.from_instance, but {x.name} is not a {b.name}: the "
                          f"line changes kind (and {x.name}.from_instance rejects it)")
            # from_instance exists and its own guard accepts B
            fi = x.lookup("from_instance")
            ctx.check(fi is not None, "F6-to_v1", f"{x.name}.from_instance exists", func=f, node=r,
                      construct=f"no-from_instance:{x.name}", msg=f"{x.name} has no from_instance")
    # coverage of the v0 parser list
    fo = world(ctx).folder
    v0 = prog.module("partitura.io.matchlines_v0")
    node = v0.defs.get("FROM_MATCHLINE_METHODS")
    ctx.require(isinstance(node, ast.Assign) and isinstance(node.value, ast.List), "F6-to_v1", "FROM_MATCHLINE_METHODS", "list literal expected")
    guards = [b for b, _, _ in branches]
    for e in node.value.elts:
        r = prog.resolve_expr(v0, e.value) if isinstance(e, ast.Attribute) else None
        ctx.require(r is not None and r[0] == "class", "F6-to_v1", "FROM_MATCHLINE_METHODS", f"entry not a class method: {norm(e)}")
        ci = r[1]
        covered = any(g in ci.mro for g in guards)
        ctx.check(covered, "F6-to_v1", f"v0 {ci.name} has a to_v1 branch", func=f, construct=f"uncovered:{ci.name}",
                  msg=f"lines of v0 class {ci.name} match no isinstance branch of to_v1 (MatchError for a valid pre-1.0 line)")


def _resolve_class(prog, f, expr) -> Optional[ClassInfo]:
    r = prog.resolve_expr(f.module, expr)
    if r and r[0] == "class":
        return r[1]
    # function-level import
    if isinstance(expr, ast.Name):
        for n in ast.walk(f.node):
            if isinstance(n, ast.ImportFrom):
                for a in n.names:
                    if (a.asname or a.name) == expr.id:
                        r = prog.resolve_symbol(n.module, a.name)
                        if r and r[0] == "class":
                            return r[1]
    return None


def rule_parser_lists(ctx):
    ctx.rule("F6-parsers", "every concrete line class that defines from_matchline is listed exactly once in its version's "
                           "FROM_MATCHLINE_METHODS (or is a component parsed by a listed composite class)")
    fo = world(ctx).folder
    prog = ctx.prog
    for mod in MODS[1:]:
        node = prog.module(mod).defs.get("FROM_MATCHLINE_METHODS")
        ctx.require(isinstance(node, ast.Assign) and isinstance(node.value, ast.List), "F6-parsers", f"{mod}:FROM_MATCHLINE_METHODS", "list literal expected")
        lst = node.value.elts
        listed = []
        for e in lst:
            if isinstance(e, ast.Attribute) and e.attr == "from_matchline":
                r = prog.resolve_expr(prog.module(mod), e.value)
                if r and r[0] == "class":
                    listed.append(r[1].qname)
        ctx.check(len(listed) == len(set(listed)) == len(lst), "F6-parsers", f"{mod}: entries distinct", where=f"{mod}:FROM_MATCHLINE_METHODS",
                  file=prog.module(mod).relpath, construct="duplicate-parser", msg="a parser is listed twice or an entry is not a method")
        for ci in line_classes(ctx):
            if ci.module.name != mod or "from_matchline" not in ci.methods:
                continue
            if ci.qname in listed:
                ctx.ok("F6-parsers", f"{ci.name} listed")
                continue
            # component classes (snote, note, stime, ptime) are parsed by composites: referenced by a listed class
            used = False
            for lq in listed:
                lc = prog.classes[lq]
                for c in lc.mro:
                    for ms in c.all_methods.values():
                        for m in ms:
                            if any(isinstance(x, ast.Name) and x.id == ci.name for x in ast.walk(m.node)):
                                used = True
            # or a base of a listed class
            if any(ci in prog.classes[lq].mro for lq in listed):
                used = True
            ctx.check(used, "F6-parsers", f"{ci.name} reachable from the parser list", where=ci.qname, file=ci.module.relpath,
                      construct=f"unlisted-parser:{ci.name}",
                      msg=f"{ci.name} defines from_matchline but no entry of FROM_MATCHLINE_METHODS reaches it: its lines are never parsed")


def rule_version_gates(ctx):
    ctx.rule("GATE", "every v1 line class rejects versions < 1.0.0 and every v0 line class rejects versions >= 1.0.0 in "
                     "__init__ or from_matchline (guard present on the way to construction)")
    for ci in line_classes(ctx):
        if ci.module.name == MODS[0]:
            continue
        v1 = ci.module.name.endswith("v1")
        own = [c.methods[name] for c in ci.mro if c.module.name == ci.module.name
               for name in ("__init__", "from_matchline") if name in c.methods]
        if not own:
            continue
        found = False
        for m in own:
            ctx.touch(m)
            for n in own_nodes(m.node):
                if isinstance(n, ast.If) and isinstance(n.test, ast.Compare) and any(isinstance(s, ast.Raise) for s in n.body):
                    t = norm(n.test)
                    if v1 and t in ("version < Version(1, 0, 0)", "Version(1, 0, 0) > version"):
                        found = True
                    if not v1 and t in ("version >= Version(1, 0, 0)", "Version(1, 0, 0) <= version"):
                        found = True
                    if not v1 and "not in" in t and "version" in t:
                        found = True  # version must be a key of the v0 table
                    if v1 and "not in" in t and "version" in t:
                        found = True
        # inherited gate through a version-module parent class
        if not found:
            for c in ci.mro[1:]:
                if c.module.name == ci.module.name and "__init__" in c.methods and "__init__" not in ci.methods:
                    found = True
        ctx.check(found, "GATE", f"{ci.name}: version gate", where=ci.qname, file=ci.module.relpath,
                  construct=f"no-version-gate:{ci.name}",
                  msg=f"{ci.name} ({'v1' if v1 else 'v0'}) accepts any version: a line object could be built for a format "
                      f"version whose syntax it does not write")
