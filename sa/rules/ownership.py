"""F1 rules: read-only entry points, re-entrant containers, hidden module state."""
from __future__ import annotations

import ast
from typing import Dict, Iterable, List, Optional, Tuple

from ..core.program import AnalysisError, FuncInfo, own_nodes, norm
from ..core.world import ownership, world


def _short(q):
    return q.split(":")[1]


def rule_F1(ctx, entries: List[Tuple[str, Optional[List[str]]]], label: str, rule="F1"):
    """entries: (function qname, parameters that must stay untouched | None = all parameters)."""
    ctx.rule(rule, "read-only entry points: no parameter declared read-only is in the entry point's *mutates* summary "
                   "(ownership/effect abstract interpretation, summaries to a fixpoint over the whole package; a mutation is "
                   "a store/del/in-place update/built-in mutator call on an object that definitely belongs to the parameter, "
                   "directly or through a callee, a property getter or __iter__)")
    O = ownership(ctx)
    ctx.extra["F1_fixpoint_rounds"] = O.rounds
    ctx.extra["F1_functions_summarised"] = len(O.summaries)
    ctx.extra["F1_functions_with_mutations"] = sum(1 for s in O.summaries.values() if s.mutates)
    n = 0
    for q, params in entries:
        f = ctx.prog.func(q, rule)
        ctx.touch(f)
        s = O.summaries[f.qname]
        plist = params if params is not None else [p for p in f.params]
        for p in plist:
            ctx.require(p in f.all_params, rule, q, f"parameter `{p}` not found")
            idx = f.all_params.index(p)
            n += 1
            evs = s.all_mutations.get(idx, [])
            if not evs:
                ctx.ok(rule, f"{_short(q)}({p}): not mutated")
                continue
            for ev in evs:
                path = [_short(x) for x in ev["path"]]
                root_fn = path[-1]
                # the first callee on the way (a different call site reaching the same root cause is a different finding)
                hop = path[1] if len(path) > 2 else None
                what = ev["root"].split("|", 1)[1] if "|" in ev["root"] else ""
                ctx.check(False, rule, f"{_short(q)}({p}) via {root_fn}: {what[:40]}", func=f, node=ev["node"],
                          construct=f"mutates:{p}:via:{(hop + '>') if hop and hop != root_fn else ''}{root_fn}:{what[:40]}",
                          msg=f"read-only entry point {_short(q)} mutates its argument `{p}`: {ev['desc'][:220]}", path=path)
    ctx.floor(rule, f"{label}: (entry, parameter) pairs", n, max(1, len(entries)))


def rule_iterators(ctx, classes=("partitura.score:Score", "partitura.performance:Performance")):
    ctx.rule("ITER", "re-entrant containers: __iter__ returns a new iterator (neither `self` nor a store on `self`), and "
                     "__len__, __getitem__ and __iter__ read the same list attribute")
    for cq in classes:
        ci = ctx.prog.cls(cq, "ITER")
        it = ci.lookup("__iter__")
        ctx.require(it is not None, "ITER", cq, "__iter__ not found")
        ctx.touch(it)
        selfn = it.params[0]
        rets = [n for n in own_nodes(it.node) if isinstance(n, ast.Return)]
        returns_self = any(isinstance(r.value, ast.Name) and r.value.id == selfn for r in rets)
        stores = [n for n in own_nodes(it.node) if isinstance(n, ast.Attribute) and isinstance(n.ctx, ast.Store)
                  and isinstance(n.value, ast.Name) and n.value.id == selfn]
        ctx.check(not returns_self and not stores, "ITER", f"{ci.name}.__iter__ is re-entrant", func=it,
                  node=stores[0] if stores else (rets[0] if rets else None), construct=f"shared-cursor:{ci.name}",
                  msg=f"{ci.name}.__iter__ {'stores `' + norm(stores[0]) + '` on the container and ' if stores else ''}"
                      f"{'returns the container itself' if returns_self else ''}: nested or interleaved iterations share one "
                      f"cursor (the inner loop exhausts it and the outer loop stops early), and iterating writes to the object")
        attrs = {}
        for mn in ("__iter__", "__len__", "__getitem__"):
            m = ci.lookup(mn)
            ctx.require(m is not None, "ITER", f"{cq}.{mn}", "missing")
            ctx.touch(m)
            used = {n.attr for n in own_nodes(m.node) if isinstance(n, ast.Attribute) and isinstance(n.value, ast.Name)
                    and n.value.id == m.params[0] and isinstance(n.ctx, ast.Load) and n.attr not in ("iter_idx",)}
            attrs[mn] = used
        common = set.intersection(*attrs.values()) if attrs else set()
        ctx.check(len(common) >= 1 and all(len(v) == 1 for v in attrs.values()), "ITER",
                  f"{ci.name}: len/getitem/iter read the same list", func=it, construct=f"protocol-source:{ci.name}",
                  msg=f"{ci.name}: __iter__/__len__/__getitem__ read {attrs}; they must agree on one underlying list")


def rule_global_state(ctx, entry_qnames: List[str]):
    ctx.rule("GLOBAL", "repeatability: no function reachable from a read-only entry point assigns a name declared `global` or "
                       "mutates a module-level container")
    w = world(ctx)
    reach = w.cg.reachable(entry_qnames, weak=False)
    n = 0
    for q, path in reach.items():
        f = ctx.prog.functions.get(q)
        if f is None:
            continue
        n += 1
        declared = set()
        for x in own_nodes(f.node):
            if isinstance(x, ast.Global):
                declared |= set(x.names)
        for x in own_nodes(f.node):
            hit = None
            if isinstance(x, ast.Name) and isinstance(x.ctx, (ast.Store, ast.Del)) and x.id in declared:
                hit = (x, f"assigns the module-level name `{x.id}`")
            elif isinstance(x, ast.Call) and isinstance(x.func, ast.Attribute) and isinstance(x.func.value, ast.Name) \
                    and x.func.attr in ("append", "extend", "insert", "remove", "pop", "clear", "update", "setdefault", "add", "sort"):
                nm = x.func.value.id
                if nm not in _locals(f) and _module_container(ctx, f, nm):
                    hit = (x, f"mutates the module-level container `{nm}` with .{x.func.attr}()")
            elif isinstance(x, ast.Subscript) and isinstance(x.ctx, (ast.Store, ast.Del)) and isinstance(x.value, ast.Name):
                nm = x.value.id
                if nm not in _locals(f) and _module_container(ctx, f, nm):
                    hit = (x, f"stores into the module-level container `{nm}`")
            if hit:
                ctx.check(False, "GLOBAL", f"{q}:{norm(hit[0])[:40]}", func=f, node=hit[0], construct=f"module-state:{norm(hit[0])[:40]}",
                          msg=f"{_short(q)} {hit[1]}: a later call of the same read-only entry point can observe the change",
                          path=[_short(p) for p in path])
    ctx.ok("GLOBAL", f"{n} functions reachable from {len(entry_qnames)} read-only entry points scanned")


def _locals(f: FuncInfo):
    from ..core.cfg import local_names
    return local_names(f.node) | set(f.all_params)


def _module_container(ctx, f: FuncInfo, name: str) -> bool:
    r = ctx.prog.resolve_name(f.module, name)
    if r is None or r[0] != "const":
        return False
    node = r[3]
    val = getattr(node, "value", None)
    return isinstance(val, (ast.List, ast.Dict, ast.Set, ast.ListComp, ast.DictComp)) or \
        (isinstance(val, ast.Call) and norm(val.func) in ("dict", "list", "set", "defaultdict", "OrderedDict"))


OBSERVER_DUNDERS = ("__str__", "__repr__", "__eq__", "__ne__", "__lt__", "__le__", "__gt__", "__ge__", "__hash__", "__len__",
                    "__float__", "__int__", "__bool__", "__add__", "__radd__", "__sub__", "__rsub__", "__mul__", "__rmul__",
                    "__truediv__", "__neg__", "__abs__", "__contains__", "__getitem__", "__format__")


def observer_entries(ctx, modnames, properties=True, extra_names=()):
    out = []
    for m in modnames:
        for f in ctx.prog.functions_in(m):
            if f.cls is None or f.is_setter:
                continue
            if f.name in OBSERVER_DUNDERS or f.name in extra_names or (properties and f.is_property):
                if f.params:
                    out.append((f.qname, None))
    return out


def rule_observers_pure(ctx, modnames, label, properties=True, extra_names=(), floor=3):
    """value semantics of the classes of a module: operators, comparisons, conversions, string forms and property getters
    are observers — F1 with every such method as a read-only entry point (all operands)."""
    entries = observer_entries(ctx, modnames, properties, extra_names)
    ctx.require(len(entries) >= floor, "F1-obs", label, f"only {len(entries)} observer methods found")
    rule_F1(ctx, entries, label, rule="F1-obs")
