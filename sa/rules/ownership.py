"""F1 rules: read-only entry points, re-entrant containers, hidden module state."""
from __future__ import annotations

import ast
from typing import Dict, Iterable, List, Optional, Tuple

from ..core.program import AnalysisError, FuncInfo, own_nodes, norm
from ..core.world import ownership, world


def _short(q):
    return q.split(":")[1]


def rule_F1(ctx, entries: List[Tuple[str, Optional[List[str]]]], label: str, rule="F1"):
    """entries: (function qname, parameters that must stay untouched | None = all parameters)."""
    ctx.rule(rule, "read-only entry points: no parameter declared read-only is in the entry point's *mutates* summary "
                   "(ownership/effect abstract interpretation, summaries to a fixpoint over the whole package; a mutation is "
                   "a store/del/in-place update/built-in mutator call on an object that definitely belongs to the parameter, "
                   "directly or through a callee, a property getter or __iter__)")
    O = ownership(ctx)
    ctx.extra["F1_fixpoint_rounds"] = O.rounds
    ctx.extra["F1_functions_summarised"] = len(O.summaries)
    ctx.extra["F1_functions_with_mutations"] = sum(1 for s in O.summaries.values() if s.mutates)
    n = 0
    for q, params in entries:
        f = ctx.prog.func(q, rule)
        ctx.touch(f)
        s = O.summaries[f.qname]
        plist = params if params is not None else [p for p in f.params]
        for p in plist:
            ctx.require(p in f.all_params, rule, q, f"parameter `{p}` not found")
            idx = f.all_params.index(p)
            n += 1
            evs = s.all_mutations.get(idx, [])
            if not evs:
                ctx.ok(rule, f"{_short(q)}({p}): not mutated")
                continue
            for ev in evs:
                path = [_short(x) for x in ev["path"]]
                root_fn = path[-1]
                # the first callee on the way (a different call site reaching the same root cause is a different finding)
                hop = path[1] if len(path) > 2 else None
                what = ev["root"].split("|", 1)[1] if "|" in ev["root"] else ""
                ctx.check(False, rule, f"{_short(q)}({p}) via {root_fn}: {what[:40]}", func=f, node=ev["node"],
                          construct=f"mutates:{p}:via:{(hop + '>') if hop and hop != root_fn else ''}{root_fn}:{what[:40]}",
                          msg=f"read-only entry point {_short(q)} mutates its argument `{p}`: {ev['desc'][:220]}", path=path)
    ctx.floor(rule, f"{label}: (entry, parameter) pairs", n, max(1, len(entries)))


def rule_iterators(ctx, classes=("partitura.score:Score", "partitura.performance:Performance")):
    ctx.rule("ITER", "re-entrant containers: __iter__ returns a new iterator (neither `self` nor a store on `self`), and "
                     "__len__, __getitem__ and __iter__ read the same list attribute")
    for cq in classes:
        ci = ctx.prog.cls(cq, "ITER")
        it = ci.lookup("__iter__")
        ctx.require(it is not None, "ITER", cq, "__iter__ not found")
        ctx.touch(it)
        selfn = it.params[0]
        rets = [n for n in own_nodes(it.node) if isinstance(n, ast.Return)]
        returns_self = any(isinstance(r.value, ast.Name) and r.value.id == selfn for r in rets)
        stores = [n for n in own_nodes(it.node) if isinstance(n, ast.Attribute) and isinstance(n.ctx, ast.Store)
                  and isinstance(n.value, ast.Name) and n.value.id == selfn]
        ctx.check(not returns_self and not stores, "ITER", f"{ci.name}.__iter__ is re-entrant", func=it,
                  node=stores[0] if stores else (rets[0] if rets else None), construct=f"shared-cursor:{ci.name}",
                  msg=f"{ci.name}.__iter__ {'stores `' + norm(stores[0]) + '` on the container and ' if stores else ''}"
                      f"{'returns the container itself' if returns_self else ''}: nested or interleaved iterations share one "
                      f"cursor (the inner loop exhausts it and the outer loop stops early), and iterating writes to the object")
        attrs = {}
        for mn in ("__iter__", "__len__", "__getitem__"):
            m = ci.lookup(mn)
            ctx.require(m is not None, "ITER", f"{cq}.{mn}", "missing")
            ctx.touch(m)
            used = {n.attr for n in own_nodes(m.node) if isinstance(n, ast.Attribute) and isinstance(n.value, ast.Name)
                    and n.value.id == m.params[0] and isinstance(n.ctx, ast.Load) and n.attr not in ("iter_idx",)}
            attrs[mn] = used
        common = set.intersection(*attrs.values()) if attrs else set()
        ctx.check(len(common) >= 1 and all(len(v) == 1 for v in attrs.values()), "ITER",
                  f"{ci.name}: len/getitem/iter read the same list", func=it, construct=f"protocol-source:{ci.name}",
                  msg=f"{ci.name}: __iter__/__len__/__getitem__ read {attrs}; they must agree on one underlying list")


def rule_global_state(ctx, entry_qnames: List[str]):
    ctx.rule("GLOBAL", "repeatability: no function reachable from a read-only entry point assigns a name declared `global` or "
                       "mutates a module-level container")
    w = world(ctx)
    reach = w.cg.reachable(entry_qnames, weak=False)
    n = 0
    for q, path in reach.items():
        f = ctx.prog.functions.get(q)
        if f is None:
            continue
        n += 1
        declared = set()
        for x in own_nodes(f.node):
            if isinstance(x, ast.Global):
                declared |= set(x.names)
        for x in own_nodes(f.node):
            hit = None
            if isinstance(x, ast.Name) and isinstance(x.ctx, (ast.Store, ast.Del)) and x.id in declared:
                hit = (x, f"assigns the module-level name `{x.id}`")
            elif isinstance(x, ast.Call) and isinstance(x.func, ast.Attribute) and isinstance(x.func.value, ast.Name) \
                    and x.func.attr in ("append", "extend", "insert", "remove", "pop", "clear", "update", "setdefault", "add", "sort"):
                nm = x.func.value.id
                if nm not in _locals(f) and _module_container(ctx, f, nm):
                    hit = (x, f"mutates the module-level container `{nm}` with .{x.func.attr}()")
            elif isinstance(x, ast.Subscript) and isinstance(x.ctx, (ast.Store, ast.Del)) and isinstance(x.value, ast.Name):
                nm = x.value.id
                if nm not in _locals(f) and _module_container(ctx, f, nm):
                    hit = (x, f"stores into the module-level container `{nm}`")
            if hit:
                ctx.check(False, "GLOBAL", f"{q}:{norm(hit[0])[:40]}", func=f, node=hit[0], construct=f"module-state:{norm(hit[0])[:40]}",
                          msg=f"{_short(q)} {hit[1]}: a later call of the same read-only entry point can observe the change",
                          path=[_short(p) for p in path])
    ctx.ok("GLOBAL", f"{n} functions reachable from {len(entry_qnames)} read-only entry points scanned")


def _locals(f: FuncInfo):
    from ..core.cfg import local_names
    return local_names(f.node) | set(f.all_params)


def _module_container(ctx, f: FuncInfo, name: str) -> bool:
    r = ctx.prog.resolve_name(f.module, name)
    if r is None or r[0] != "const":
        return False
    node = r[3]
    val = getattr(node, "value", None)
    return isinstance(val, (ast.List, ast.Dict, ast.Set, ast.ListComp, ast.DictComp)) or \
        (isinstance(val, ast.Call) and norm(val.func) in ("dict", "list", "set", "defaultdict", "OrderedDict"))


OBSERVER_DUNDERS = ("__str__", "__repr__", "__eq__", "__ne__", "__lt__", "__le__", "__gt__", "__ge__", "__hash__", "__len__",
                    "__float__", "__int__", "__bool__", "__add__", "__radd__", "__sub__", "__rsub__", "__mul__", "__rmul__",
                    "__truediv__", "__neg__", "__abs__", "__contains__", "__getitem__", "__format__")


def observer_entries(ctx, modnames, properties=True, extra_names=()):
    out = []
    for m in modnames:
        for f in ctx.prog.functions_in(m):
            if f.cls is None or f.is_setter:
                continue
            if f.name in OBSERVER_DUNDERS or f.name in extra_names or (properties and f.is_property):
                if f.params:
                    out.append((f.qname, None))
    return out


def rule_observers_pure(ctx, modnames, label, properties=True, extra_names=(), floor=3):
    """value semantics of the classes of a module: operators, comparisons, conversions, string forms and property getters
    are observers — F1 with every such method as a read-only entry point (all operands)."""
    entries = observer_entries(ctx, modnames, properties, extra_names)
    ctx.require(len(entries) >= floor, "F1-obs", label, f"only {len(entries)} observer methods found")
    rule_F1(ctx, entries, label, rule="F1-obs")


def _parents(n):
    p = getattr(n, "_parent", None)
    while p is not None:
        yield p
        p = getattr(p, "_parent", None)


def rule_shallow_copy_shares_lists(ctx):
    """Shared mutable state through copy(): derived from three facts of the source —
    (1) a property setter appends `self` to a list attribute of the object it is given (`note.slur_starts.append(self)`),
    (2) a class initialises that attribute to a fresh list per instance, i.e. the list is per-object state,
    (3) a function shallow-copies objects that may be of that class and lets the copies' references be re-targeted through
        those setters (replace_refs) without first giving each copy its own lists."""
    rule = "SHARE-copy"
    ctx.rule(rule, "a shallow copy of a score object does not share per-object reference lists with its original while setters can "
                   "still append to them: after `x = copy(o)` every list attribute that some property setter appends to "
                   "(`<obj>.<attr>.append(self)`) is re-bound on the copy before the copy's references are re-targeted")
    S = "partitura.score"
    shared = {}
    for f in ctx.prog.functions_in(S):
        if not f.is_setter or len(f.params) < 2:
            continue
        for c in own_nodes(f.node):
            if isinstance(c, ast.Call) and isinstance(c.func, ast.Attribute) and c.func.attr == "append" and len(c.args) == 1 \
                    and isinstance(c.args[0], ast.Name) and c.args[0].id == f.params[0] and isinstance(c.func.value, ast.Attribute) \
                    and isinstance(c.func.value.value, ast.Name) and c.func.value.value.id == f.params[1]:
                shared.setdefault(c.func.value.attr, []).append(f.qname.split(":")[1])
    ctx.require(len(shared) >= 2, rule, S, f"setter-appended list attributes not found ({sorted(shared)})")
    holders = {}
    for ci in ctx.prog.classes.values():
        if not ci.qname.startswith(S + ":"):
            continue
        init = ci.methods.get("__init__")
        if init is None:
            continue
        for s in own_nodes(init.node):
            if isinstance(s, ast.Assign) and isinstance(s.targets[0], ast.Attribute) and s.targets[0].attr in shared and isinstance(s.value, ast.List) and not s.value.elts:
                holders.setdefault(ci.name, set()).add(s.targets[0].attr)
    ctx.require(holders, rule, S, "no class initialises the shared list attributes")
    ctx.extra["SHARE_copy"] = {"appended_by_setters": {k: sorted(v) for k, v in shared.items()}, "held_by": {k: sorted(v) for k, v in holders.items()}}
    f = ctx.prog.func(f"{S}:ScoreVariant.create_variant_part", rule)
    ctx.touch(f)
    copies = [s for s in own_nodes(f.node) if isinstance(s, ast.Assign) and isinstance(s.targets[0], ast.Name) and isinstance(s.value, ast.Call)
              and norm(s.value.func) in ("copy", "copy.copy")]
    ctx.require(copies, rule, f.qname, "no copy() found")
    retarget = any(isinstance(c, ast.Call) and isinstance(c.func, ast.Attribute) and c.func.attr == "replace_refs" for c in own_nodes(f.node))
    n = 0
    for s in copies:
        name = s.targets[0].id
        # the copied objects come from a registry slot of one class that holds none of the lists (`..starting_objects[Fermata]`)
        src = s.value.args[0] if s.value.args else None
        loop = next((p for p in [getattr(s, "_parent", None)] + list(_parents(s)) if isinstance(p, ast.For) and isinstance(src, ast.Name)
                     and any(isinstance(t, ast.Name) and t.id == src.id for t in ast.walk(p.target))), None)
        if loop is not None and isinstance(loop.iter, ast.Subscript) and isinstance(loop.iter.slice, ast.Name):
            r = ctx.prog.resolve_name(f.module, loop.iter.slice.id)
            if r and r[0] == "class" and not any(h in [c.name for c in r[1].mro] for h in holders) and \
                    not any(h in [c.name for sc in r[1].all_subclasses() for c in sc.mro] for h in holders):
                ctx.ok(rule, f"`{norm(s)[:30]}` copies {r[1].name} objects only")
                continue
        n += 1
        rebinds = {t.attr for a in own_nodes(f.node) if isinstance(a, ast.Assign) for t in a.targets if isinstance(t, ast.Attribute)
                   and isinstance(t.value, ast.Name) and t.value.id == name}
        generic_unshare = any(isinstance(c, ast.Call) and norm(c.func) == "setattr" and c.args and isinstance(c.args[0], ast.Name) and c.args[0].id == name
                              for c in own_nodes(f.node))
        missing = sorted(a for a in shared if a not in rebinds)
        registered_only = not retarget
        ctx.check(generic_unshare or not missing or registered_only, rule, f"`{norm(s)[:30]}` un-shares its reference lists", func=f, node=s,
                  construct=f"shallow-copy-shares-lists:{','.join(missing)[:60]}",
                  msg=f"`{norm(s)}` is a shallow copy: for a {'/'.join(sorted(holders))} it shares {missing} with the original. When the copies' references are re-targeted "
                      f"(replace_refs -> {sorted({x for v in shared.values() for x in v})[:2]}...), the setter appends the *new* slur/tuplet to that shared list: the original "
                      f"notes of the caller's part grow an extra entry per unfolding and the copies end up with wrong lists")
    ctx.floor(rule, "shallow copies in create_variant_part", n, 1)


# ------------------------------------------------------------------ SET-ORDER
# repeatability: the iteration order of a set of objects hashed by identity (no __hash__/__eq__) depends on their addresses, which
# differ between two calls on the same argument; no reachable function may turn such a set into an ordered sequence.

_ORDER_FREE_CONSUMERS = {"sorted", "min", "max", "len", "any", "all", "set", "frozenset", "sum"}
_SET_METHODS = {"difference", "union", "intersection", "symmetric_difference", "copy"}
_SEQ_MAKERS = {"list", "tuple", "np.array", "numpy.array", "np.asarray", "numpy.asarray", "np.fromiter", "numpy.fromiter", "iter", "next",
               "enumerate", "zip"}


def _self_attrs_of_class(ci) -> set:
    out = set(ci.class_attrs) | set(ci.methods) | set(ci.setters)
    for fs in ci.all_methods.values():
        for m in fs:
            for n in own_nodes(m.node):
                if isinstance(n, ast.Attribute) and isinstance(n.ctx, ast.Store) and isinstance(n.value, ast.Name) and n.value.id == "self":
                    out.add(n.attr)
    return out


def _identity_hashed(ci) -> Optional[bool]:
    """True: instances hash by address; False: value hash / unhashable; None: unknown (external base)."""
    for c in ci.mro or [ci]:
        if "__hash__" in c.all_methods or "__eq__" in c.all_methods or "__hash__" in c.class_attrs:
            return False
        for b in c.bases:
            if isinstance(b, str) and b not in ("object",):
                return None
    return True


def _set_source(e, defs, depth=0):
    """The element source of a set-valued expression (the iterable it was built from), or None if `e` is not recognisably a set."""
    if depth > 4:
        return None
    if isinstance(e, ast.Call):
        fn = norm(e.func)
        if fn in ("set", "frozenset") and len(e.args) == 1 and not e.keywords:
            return e.args[0]
        if isinstance(e.func, ast.Attribute) and e.func.attr in _SET_METHODS:
            return _set_source(e.func.value, defs, depth + 1)
    if isinstance(e, ast.SetComp):
        return e
    if isinstance(e, ast.BinOp) and isinstance(e.op, (ast.BitOr, ast.BitAnd, ast.Sub, ast.BitXor)):
        return _set_source(e.left, defs, depth + 1)
    if isinstance(e, ast.Name) and len(defs.get(e.id, [])) == 1:
        return _set_source(defs[e.id][0], defs, depth + 1)
    return None


def _element_classes(ctx, f: FuncInfo, src, defs):
    """Repo classes the elements of `src` can be instances of, from how the code uses them: a constructor call as the element
    expression, or the attributes read from a loop variable iterating the same expression in the function / the class family."""
    prog = ctx.prog
    # 1. a comprehension building the objects
    if isinstance(src, (ast.ListComp, ast.SetComp, ast.GeneratorExp)) and isinstance(src.elt, ast.Call):
        r = prog.resolve_name(f.module, norm(src.elt.func).split(".")[0]) if isinstance(src.elt.func, ast.Name) else None
        if r is not None and r[0] == "class":
            return [r[1]], {"<constructor>"}
    if isinstance(src, (ast.ListComp, ast.SetComp, ast.GeneratorExp)) and isinstance(src.elt, ast.Name) and len(src.generators) == 1 \
            and isinstance(src.generators[0].target, ast.Name) and src.generators[0].target.id == src.elt.id:
        src = src.generators[0].iter
    from .extra import resolve_alias
    src = resolve_alias(src, defs)
    key = norm(src)
    scope = [f]
    if key.startswith("self.") and f.cls is not None:
        ci = prog.classes.get(f.cls.qname if hasattr(f.cls, "qname") else f.cls)
        fam = []
        if ci is not None:
            seen = set()
            todo = list(ci.mro or [ci]) + list(ci.subclasses)
            while todo:
                c = todo.pop()
                if c.qname in seen:
                    continue
                seen.add(c.qname)
                fam.append(c)
                todo.extend(c.subclasses)
            scope = [m for c in fam for fs in c.all_methods.values() for m in fs]
    attrs = set()
    for g in scope:
        gdefs = defs if g is f else None
        for n in own_nodes(g.node):
            it, tgt = None, None
            if isinstance(n, ast.For):
                it, tgt = n.iter, n.target
            elif isinstance(n, ast.comprehension):
                it, tgt = n.iter, n.target
            if it is None or not isinstance(tgt, ast.Name):
                continue
            if gdefs is not None:
                it = resolve_alias(it, gdefs)
            if norm(it) != key:
                continue
            for x in own_nodes(g.node):
                if isinstance(x, ast.Attribute) and isinstance(x.ctx, ast.Load) and isinstance(x.value, ast.Name) and x.value.id == tgt.id:
                    attrs.add(x.attr)
    if not attrs:
        return [], attrs
    cands = []
    mods = {f.module}
    for c in prog.classes.values():
        if c.module in mods or getattr(c.module, "name", None) in mods:
            have = set()
            for k in (c.mro or [c]):
                have |= _self_attrs_of_class(k)
            if attrs <= have:
                cands.append(c)
    return cands, attrs


def set_order_sites(ctx, f: FuncInfo):
    """[(node, source expression, classes, attrs)] — conversions of a set of identity-hashed repo objects into an ordered sequence."""
    from .extra import local_defs
    defs = local_defs(f)
    out = []
    for n in own_nodes(f.node):
        setexpr = None
        if isinstance(n, ast.Call) and n.args and (norm(n.func) in _SEQ_MAKERS):
            setexpr = n.args[0]
        elif isinstance(n, ast.For):
            setexpr = n.iter
        elif isinstance(n, ast.comprehension):
            comp = getattr(n, "_parent", None)
            if isinstance(comp, ast.SetComp):
                continue
            par = getattr(comp, "_parent", None)
            if isinstance(par, ast.Call) and norm(par.func) in _ORDER_FREE_CONSUMERS and par.args and par.args[0] is comp:
                continue
            setexpr = n.iter
        elif isinstance(n, ast.Starred):
            setexpr = n.value
        elif isinstance(n, ast.Call) and isinstance(n.func, ast.Attribute) and n.func.attr == "pop" and not n.args:
            setexpr = n.func.value
        if setexpr is None:
            continue
        src = _set_source(setexpr, defs)
        if src is None:
            continue
        par = getattr(n, "_parent", None)
        if isinstance(n, ast.Call) and isinstance(par, ast.Call) and norm(par.func) in _ORDER_FREE_CONSUMERS and par.args and par.args[0] is n:
            continue
        classes, attrs = _element_classes(ctx, f, src, defs)
        if not classes:
            continue
        kinds = [_identity_hashed(c) for c in classes]
        if all(k is True for k in kinds):
            out.append((n, src, classes, attrs))
    return out


_SET_ORDER_SELFTEST = '''
class _N(object):
    def __init__(self, onset):
        self.onset = onset

class _B(object):
    def __init__(self, notes):
        self.notes = notes
    def setup(self):
        self.notes = list(set(self.notes))
        return [n.onset for n in self.notes]
'''


def rule_set_order(ctx, entry_qnames: List[str]):
    rule = "SET-ORDER"
    ctx.rule(rule, "repeatability: no function reachable from a read-only entry point turns a set of objects hashed by identity "
                   "(instances of a class of the package without __hash__/__eq__) into an ordered sequence (list/tuple/array/iteration) "
                   "— the order of such a set follows the objects' addresses, which differ from one call to the next; consumers that "
                   "do not depend on order (sorted, min, max, len, any, all, set) are exempt")
    w = world(ctx)
    reach = w.cg.reachable(entry_qnames, weak=False)
    scanned, sets = 0, 0
    for q, path in reach.items():
        f = ctx.prog.functions.get(q)
        if f is None:
            continue
        scanned += 1
        from .extra import local_defs
        defs = local_defs(f)
        for n in own_nodes(f.node):
            if isinstance(n, (ast.Call, ast.SetComp)) and _set_source(n, defs) is not None:
                sets += 1
        for n, src, classes, attrs in set_order_sites(ctx, f):
            ctx.touch(f)
            ctx.check(False, rule, f"{q}:{norm(src)[:40]}", func=f, node=n, construct=f"set-order:{norm(src)[:40]}",
                      msg=f"{_short(q)} materialises the iteration order of set({norm(src)}) — its elements are used as "
                          f"{'/'.join(sorted(c.name for c in classes))} objects (attributes {sorted(attrs)}), hashed by address: the order, and "
                          f"whatever is derived from it, changes between two calls on the same argument",
                      path=[_short(p) for p in path])
    # the rule's expected count is zero: a positive example must match on every run
    from ..core.program import Program
    try:
        import os
        rel = os.path.join("partitura", "utils", "generic.py")
        with open(os.path.join(ctx.prog.repo, rel), encoding="utf-8") as fh:
            base = ctx.prog.overrides.get(rel) or fh.read()
        probe = Program(repo=ctx.prog.repo, overrides={rel: base + "\n" + _SET_ORDER_SELFTEST})
        pf = probe.functions.get("partitura.utils.generic:_B.setup")
        class _C:  # minimal context for the helper
            prog = probe
        hits = set_order_sites(_C, pf) if pf is not None else []
    except Exception as e:  # pragma: no cover
        raise AnalysisError(rule, "self-test", f"probe failed: {e!r}")
    ctx.require(len(hits) == 1, rule, "self-test", f"the positive example must be reported exactly once (got {len(hits)})")
    ctx.ok(rule, f"{scanned} functions reachable from {len(entry_qnames)} read-only entry points scanned, {sets} set constructions "
                 f"classified, positive example reported")


# ------------------------------------------------------------ FIELD-owner
# who-may-write: the navigation fields of a Segment (`to`, `await_to`, ...) describe the part; the Segment objects are shared by the
# part's time line and by every Path of a search.  Outside Segment's own methods they may be written only on a provably fresh copy.

_FRESH_MAKERS = {"copy", "deepcopy", "copy.copy", "copy.deepcopy"}
_LIST_MUTATORS = {"append", "extend", "insert", "remove", "pop", "clear", "sort", "reverse"}


def exclusive_fields(prog, cls_qname: str) -> set:
    ci = prog.classes.get(cls_qname)
    if ci is None:
        return set()
    own_fields = set()
    init = ci.methods.get("__init__")
    if init is not None:
        for n in own_nodes(init.node):
            if isinstance(n, ast.Attribute) and isinstance(n.ctx, ast.Store) and isinstance(n.value, ast.Name) and n.value.id == "self":
                own_fields.add(n.attr)
    family = {c.qname for c in (ci.mro or [ci])} | {c.qname for c in ci.subclasses}
    others = set()
    for c in prog.classes.values():
        if c.qname in family:
            continue
        others |= _self_attrs_of_class(c)
    return own_fields - others


def foreign_field_writes(ctx_prog, inf, f: FuncInfo, fields: set, cls_name: str):
    """[(node, field, why)] stores / in-place list mutations of `<X>.<field>` in f where X is not provably a fresh copy."""
    from ..core.cfg import stores_of
    out = []
    sites = []
    for n in own_nodes(f.node):
        if isinstance(n, ast.Attribute) and n.attr in fields:
            par = getattr(n, "_parent", None)
            if isinstance(n.ctx, (ast.Store, ast.Del)):
                sites.append((n, n.value, "store"))
            elif isinstance(par, ast.Attribute) and par.value is n and par.attr in _LIST_MUTATORS and isinstance(getattr(par, "_parent", None), ast.Call) \
                    and getattr(par, "_parent").func is par:
                sites.append((n, n.value, f".{par.attr}()"))
            elif isinstance(par, ast.Subscript) and par.value is n and isinstance(par.ctx, (ast.Store, ast.Del)):
                sites.append((n, n.value, "item store"))
            elif isinstance(par, ast.AugAssign) and par.target is n:
                sites.append((n, n.value, "augmented assignment"))
    if not sites:
        return out
    cfg = inf.cfg(f)
    for n, obj, how in sites:
        if isinstance(obj, ast.Name) and obj.id == "self" and f.cls is not None and f.name == "__init__":
            continue
        if not isinstance(obj, ast.Name):
            out.append((n, n.attr, f"{how} through `{norm(obj)[:40]}` (not a local copy)"))
            continue
        # statement holding the site
        st = n
        while getattr(st, "_parent", None) is not None and cfg.node_of(st) is None:
            st = st._parent
        target = cfg.node_of(st)
        if target is None:
            out.append((n, n.attr, f"{how}: statement not in the flow graph"))
            continue
        fresh_nodes, other_nodes = set(), set()
        for node in cfg.nodes:
            if obj.id in stores_of(node):
                a = node.ast
                fresh = False
                if node.kind == "stmt" and isinstance(a, ast.Assign) and len(a.targets) == 1 and isinstance(a.targets[0], ast.Name) \
                        and isinstance(a.value, ast.Call):
                    fn = norm(a.value.func)
                    fresh = fn in _FRESH_MAKERS or fn == cls_name
                (fresh_nodes if fresh else other_nodes).add(node)
        starts = set(other_nodes)
        if obj.id in f.all_params or not (fresh_nodes or other_nodes):
            starts.add(cfg.entry)
        bad = [s for s in starts if s is target or cfg.paths_avoiding(s, fresh_nodes, {target})]
        if bad:
            out.append((n, n.attr, f"{how} on `{obj.id}`, which can still be the shared object here (bound at line "
                                   f"{min((getattr(b.ast, 'lineno', 0) or 0) for b in bad)})"))
    return out


_FIELD_OWNER_SELFTEST = '''
def _probe_rewrite(path_segments):
    for segid in path_segments.keys():
        seg = path_segments[segid]
        seg.to = [idx for idx in seg.to if idx <= seg.id]

def _probe_copy_first(path_segments):
    for segid in path_segments.keys():
        seg = path_segments[segid]
        seg = copy(seg)
        seg.to = [idx for idx in seg.to if idx <= seg.id]
        path_segments[segid] = seg
'''


def rule_field_owner(ctx, cls_qname="partitura.score:Segment", floor=2):
    rule = "FIELD-owner"
    cname = cls_qname.split(":")[1]
    ctx.rule(rule, f"the fields only {cname} has (assigned in its constructor, in no other class) describe the part and are shared by "
                   f"the part's time line and every Path of a search: outside {cname}.__init__ they are written (attribute store, "
                   f"item store, in-place list method) only on a local that on every path was last bound to copy()/deepcopy()/{cname}(...)")
    fields = exclusive_fields(ctx.prog, cls_qname)
    ctx.floor(rule, f"fields exclusive to {cname}", len(fields), floor)
    w = world(ctx)
    scanned = 0
    for f in ctx.prog.functions.values():
        scanned += 1
        for n, field, why in foreign_field_writes(ctx.prog, w.inf, f, fields, cname):
            ctx.touch(f)
            ctx.check(False, rule, f"{f.qname}:{field}", func=f, node=n, construct=f"foreign-write:{cname}.{field}",
                      msg=f"{_short(f.qname)} writes `{cname}.{field}` — {why}: the {cname} objects are the part's own (and shared by "
                          f"all paths of the search), so a later unfolding of the same part sees the rewritten value")
    # positive / negative example on every run (expected count on the tree is zero)
    import os
    from ..core.program import Program
    from ..core.types import Infer
    rel = os.path.join("partitura", "utils", "generic.py")
    with open(os.path.join(ctx.prog.repo, rel), encoding="utf-8") as fh:
        base = ctx.prog.overrides.get(rel) or fh.read()
    probe = Program(repo=ctx.prog.repo, overrides={rel: base + "\n" + _FIELD_OWNER_SELFTEST})
    pinf = Infer(probe)
    pos = foreign_field_writes(probe, pinf, probe.functions["partitura.utils.generic:_probe_rewrite"], fields, cname)
    neg = foreign_field_writes(probe, pinf, probe.functions["partitura.utils.generic:_probe_copy_first"], fields, cname)
    ctx.require(len(pos) == 1 and not neg, rule, "self-test", f"positive example reported {len(pos)} time(s), copy-first twin {len(neg)}")
    ctx.ok(rule, f"{scanned} functions scanned for writes to {sorted(fields)}; positive example reported, copy-first twin silent")
