# self-validation battery (see runner.py): mutants must be reported under the named rule, neutral rewrites must stay silent
MUTANTS = [
    {'name': 'revert: requested note velocity', 'revert': 'requested note velocity', 'expect': 'TAINT-velocity'},
    {'name': 'revert: nearest tick', 'revert': 'nearest tick', 'expect': 'F10'},
    {'name': 'header gets a different ppq variable', 'file': 'partitura/io/exportmidi.py', 'old': '    mf = MidiFile(type=midi_type, ticks_per_beat=ppq)\n\n    for track in tracks:', 'new': '    mf = MidiFile(type=midi_type, ticks_per_beat=int(get_ppq(parts)))\n\n    for track in tracks:', 'expect': 'PPQ'},
    {'name': 'ppq tripled instead of doubled', 'file': 'partitura/io/exportmidi.py', 'old': '        ppq = ppq * 2', 'new': '        ppq = ppq * 3', 'expect': 'PPQ'},
    {'name': 'exporter loses mode 5', 'file': 'partitura/io/exportmidi.py', 'old': '        elif mode == 5:\n            trk = tr_helper.setdefault((p, v), len(tr_helper))', 'new': '        elif mode == 6:\n            trk = tr_helper.setdefault((p, v), len(tr_helper))', 'expect': 'F6-modes'},
    {'name': 'mode 3 forgets channel', 'file': 'partitura/io/exportmidi.py', 'old': '            track[(pg, p, v)] = trk\n            channel[(pg, p, v)] = 1\n        elif mode == 4:', 'new': '            track[(pg, p, v)] = trk\n        elif mode == 4:', 'expect': 'F6-modes'},
    {'name': 'note_off at untied duration', 'file': 'partitura/io/exportmidi.py', 'old': '            events[key][to_ppq(note.start.t + note.duration_tied)].append(', 'new': '            events[key][to_ppq(note.start.t + note.duration)].append(', 'expect': 'TIE-midi'},
    {'name': 'key signature time not converted', 'file': 'partitura/io/exportmidi.py', 'old': '            meta_events[part][to_ppq(ks.start.t)].append(', 'new': '            meta_events[part][ks.start.t * 2].append(', 'expect': 'PPQ'}]

NEUTRALS = [{'name': 'velocity via local alias', 'file': 'partitura/io/exportmidi.py', 'old': '                Message("note_on", note=note.midi_pitch, velocity=velocity)', 'new': '                Message("note_on", velocity=velocity, note=note.midi_pitch)'},
    {'name': 'np.rint instead of np.round', 'file': 'partitura/io/exportmidi.py', 'old': '            return int(np.round(ppq * (qm(t) - ftp)))', 'new': '            return int(np.rint(ppq * (qm(t) - ftp)))'}]

# changes made by sub-agents that were given only the property text (see /verif/seeded/<id>/): each must stay reported
SEEDED = [
    {'name': 'seeded change C04-r5b', 'seed': 'C04-r5b', 'expect': '|F5e-pairing|'},
    {'name': 'seeded change C04-r5a', 'seed': 'C04-r5a', 'expect': '|PPQ-all|'},
    {'name': 'seeded change C04-r4b', 'seed': 'C04-r4b', 'expect': '|SETDEFAULT|'},
    {'name': 'seeded change C04-r4a', 'seed': 'C04-r4a', 'expect': '|PPQ-all|'},
    {'name': 'seeded change C04-r3', 'seed': 'C04-r3', 'expect': '|F10-pre|'},
    {'name': 'seeded change C04-r2', 'seed': 'C04-r2', 'expect': '|F6-modes|'},
    {'name': 'seeded change C04', 'seed': 'C04', 'expect': '|ORDER-midi|'},
]
MUTANTS += SEEDED
