# self-validation battery (see runner.py): mutants must be reported under the named rule, neutral rewrites must stay silent
MUTANTS = [
    {'name': 'revert: np.vstack', 'revert': 'np.vstack', 'expect': 'F8a'},
    {'name': 'revert: back-fills a single late', 'revert': 'back-fills a single late', 'expect': 'SIB-backfill'},
    {'name': 'revert: install their default', 'revert': 'install their default', 'expect': 'F7d'},
    {'name': 'revert: without any clef', 'revert': 'without any clef', 'expect': 'EMPTY2D'},
    {'name': 'key map linear interpolation', 'file': 'partitura/score.py', 'old': '            kss[:, 0],\n            kss[:, 1:],\n            axis=0,\n            kind="previous",', 'new': '            kss[:, 0],\n            kss[:, 1:],\n            axis=0,\n            kind="linear",', 'expect': 'SIB-interp'},
    {'name': 'key map loses back-fill', 'file': 'partitura/score.py', 'old': '        elif kss[0, 0] > self.first_point.t:\n            kss = np.vstack(((self.first_point.t, kss[0, 1], kss[0, 2]), kss))\n', 'new': '', 'expect': 'SIB-backfill'},
    {'name': 'CLEF_TO_INT duplicate code', 'file': 'partitura/utils/globals.py', 'old': 'INT_TO_CLEF = {v: k for k, v in CLEF_TO_INT.items()}', 'new': 'INT_TO_CLEF = {v + 1: k for k, v in CLEF_TO_INT.items()}', 'expect': 'F3-codes'},
    {'name': 'key_int_to_mode maps -1 to major', 'file': 'partitura/utils/music.py', 'old': '    if mode in ("minor", -1):\n        return "minor"\n    elif mode in ("major", None, "none", 1):\n        return "major"', 'new': '    if mode in ("minor",):\n        return "minor"\n    elif mode in ("major", None, "none", 1, -1):\n        return "major"', 'expect': 'F3-codes'},
    {'name': 'consumer unpacks two key columns as three', 'file': 'partitura/io/exportmatch.py', 'old': '            ts_num, ts_den, _ = spart.time_signature_map(snote.start.t)', 'new': '            ts_num, ts_den = spart.time_signature_map(snote.start.t)', 'expect': 'F4b'}]

NEUTRALS = [{'name': 'guard with nested if already present: rename default var', 'file': 'partitura/score.py', 'old': '            kss = np.array([(t0, fifths, mode), (tN, fifths, mode)])', 'new': '            kss = np.array([(t0, fifths, mode), (tN, fifths, mode)], dtype=float)'}]

# changes made by sub-agents that were given only the property text (see /verif/seeded/<id>/): each must stay reported
SEEDED = [
    {'name': 'seeded change C10-r5b', 'seed': 'C10-r5b', 'expect': '|SIB-backfill|'},
    {'name': 'seeded change C10-r4b', 'seed': 'C10-r4b', 'expect': '|F3-codes|'},
    {'name': 'seeded change C10-r4a', 'seed': 'C10-r4a', 'expect': '|F4a|'},
    {'name': 'seeded change C10-r3', 'seed': 'C10-r3', 'expect': '|RESCALE|'},
    {'name': 'seeded change C10-r2', 'seed': 'C10-r2', 'expect': '|NONE-test|'},
    {'name': 'seeded change C10', 'seed': 'C10', 'expect': '|SIB-backfill|'},
]
MUTANTS += SEEDED
