# self-validation battery (see runner.py): mutants must be reported under the named rule, neutral rewrites must stay silent
MUTANTS = [
    {'name': 'revert: flat and minor key signatures', 'revert': 'keep flat and minor key signatures', 'expect': '|CASE-fold|'},
    {'name': 'revert: soft pedal lines with MatchSoftPedal', 'revert': 'soft pedal lines with MatchSoftPedal', 'expect': 'F6-to_v1'},
    {'name': 'revert: returns a MatchTempoIndication', 'revert': 'returns a MatchTempoIndication', 'expect': 'F4f'},
    {'name': 'stime template swaps fields', 'file': 'partitura/io/matchfile_base.py', 'old': '    out_pattern = "stime({Measure}:{Beat},{Offset},{OnsetInBeats},{AnnotationType})"', 'new': '    out_pattern = "stime({Beat}:{Measure},{Offset},{OnsetInBeats},{AnnotationType})"', 'expect': 'F5b'},
    {'name': 'sustain template says pedal', 'file': 'partitura/io/matchfile_base.py', 'old': '    out_pattern: str = "sustain({Time},{Value})."', 'new': '    out_pattern: str = "sustainpedal({Time},{Value})."', 'expect': 'F5b'},
    {'name': 'v0 parser list drops trill', 'file': 'partitura/io/matchlines_v0.py', 'old': '    MatchTrillNote.from_matchline,\n    MatchSustainPedal.from_matchline,\n    MatchSoftPedal.from_matchline,\n    MatchInfo.from_matchline,\n    MatchMeta.from_matchline,', 'new': '    MatchSustainPedal.from_matchline,\n    MatchSoftPedal.from_matchline,\n    MatchInfo.from_matchline,\n    MatchMeta.from_matchline,', 'expect': 'F6-parsers'},
    {'name': 'to_v1 loses the ornament branch', 'file': 'partitura/io/matchlines_v1.py', 'old': '    if isinstance(matchline, BaseOrnamentLine):\n        return MatchOrnamentNote.from_instance(instance=matchline, version=version)\n', 'new': '', 'expect': 'F6-to_v1'},
    {'name': 'snote formatter table misses a field', 'file': 'partitura/io/matchfile_base.py', 'old': '        OffsetInBeats=format_float_unconstrained,\n        ScoreAttributesList=format_list,\n    )\n\n    def __init__(\n        self,\n        version: Version,\n        anchor: str,', 'new': '        ScoreAttributesList=format_list,\n    )\n\n    def __init__(\n        self,\n        version: Version,\n        anchor: str,', 'expect': 'F5b'}]

NEUTRALS = [{'name': 'reorder independent class attributes', 'file': 'partitura/io/matchfile_base.py', 'old': '    field_names = ("Onsets",)\n    field_types = (list,)\n', 'new': '    field_types = (list,)\n    field_names = ("Onsets",)\n'}]

# changes made by sub-agents that were given only the property text (see /verif/seeded/<id>/): each must stay reported
SEEDED = [
    {'name': 'seeded change C07-r5b', 'seed': 'C07-r5b', 'expect': '|F11|'},
    {'name': 'seeded change C07-r5a', 'seed': 'C07-r5a', 'expect': '|SIB-fmt|'},
    {'name': 'seeded change C07-r4b', 'seed': 'C07-r4b', 'expect': '|ATTR-norm|'},
    {'name': 'seeded change C07-r4a', 'seed': 'C07-r4a', 'expect': '|SIB-fmt|'},
    {'name': 'seeded change C07-r3', 'seed': 'C07-r3', 'expect': '|F1-obs|'},
    {'name': 'seeded change C07-r2', 'seed': 'C07-r2', 'expect': '|F10-conv|'},
    {'name': 'seeded change C07', 'seed': 'C07', 'expect': '|FMT-drop|'},
]
MUTANTS += SEEDED
