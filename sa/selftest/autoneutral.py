"""Automatic neutral rewrites: behaviour-preserving whole-module transformations that every check must survive silently.

  reformat   ast.unparse(ast.parse(src)) of every consulted module (all positions and layout change)
  rename     every local variable of every analysed function is renamed v -> v_rn (parameters, globals, attributes,
             keywords and names captured/rebound by nested scopes are left alone)
"""
from __future__ import annotations

import ast
import os
import sys


class _Renamer(ast.NodeTransformer):
    def __init__(self, names):
        self.names = names

    def visit_Name(self, node):
        if node.id in self.names:
            return ast.copy_location(ast.Name(id=node.id + "_rn", ctx=node.ctx), node)
        return node


def _local_candidates(fnode):
    params = {a.arg for a in fnode.args.posonlyargs + fnode.args.args + fnode.args.kwonlyargs}
    if fnode.args.vararg:
        params.add(fnode.args.vararg.arg)
    if fnode.args.kwarg:
        params.add(fnode.args.kwarg.arg)
    assigned, declared, nested_bound = set(), set(), set()
    for n in ast.walk(fnode):
        if isinstance(n, (ast.Global, ast.Nonlocal)):
            declared |= set(n.names)
    todo = list(ast.iter_child_nodes(fnode))
    while todo:
        n = todo.pop()
        if isinstance(n, (ast.FunctionDef, ast.AsyncFunctionDef, ast.Lambda, ast.ClassDef)):
            # names bound inside nested scopes must not be touched
            for m in ast.walk(n):
                if isinstance(m, ast.Name) and isinstance(m.ctx, ast.Store):
                    nested_bound.add(m.id)
                if isinstance(m, ast.arg):
                    nested_bound.add(m.arg)
            if hasattr(n, "name"):
                assigned.discard(n.name)
                nested_bound.add(n.name)
            continue
        if isinstance(n, ast.Name) and isinstance(n.ctx, ast.Store):
            assigned.add(n.id)
        if isinstance(n, ast.ExceptHandler) and n.name:
            nested_bound.add(n.name)
        if isinstance(n, (ast.Import, ast.ImportFrom)):
            for a in n.names:
                nested_bound.add((a.asname or a.name).split(".")[0])
        todo.extend(ast.iter_child_nodes(n))
    return {v for v in assigned - params - declared - nested_bound if not v.startswith("__")}


def rename_locals(src: str, func_names=None) -> str:
    tree = ast.parse(src)
    for n in ast.walk(tree):
        if isinstance(n, (ast.FunctionDef, ast.AsyncFunctionDef)):
            if func_names is not None and n.name not in func_names:
                continue
            names = _local_candidates(n)
            if names:
                r = _Renamer(names)
                n.body = [r.visit(s) for s in n.body]
    ast.fix_missing_locations(tree)
    return ast.unparse(tree)


def reformat(src: str) -> str:
    return ast.unparse(ast.parse(src))


def run(prop):
    sys.path.insert(0, os.path.dirname(os.path.dirname(os.path.dirname(os.path.abspath(__file__)))))
    from sa.core.program import Program, AnalysisError, REPO
    from sa.check import analyse
    base = analyse(prop, "quick", Program())
    basekeys = {f.key for f in base.findings}
    mods = sorted(base.modules_consulted)
    funcs = {}
    for q in base.functions_analysed:
        m, f = q.split(":")
        funcs.setdefault(m, set()).add(f.split(".")[-1].split("#")[0])
    out = {}
    for kind in ("reformat", "rename"):
        ov = {}
        for m in mods:
            mod = base.prog.modules.get(m)
            if mod is None:
                continue
            src = mod.source
            ov[mod.relpath] = reformat(src) if kind == "reformat" else rename_locals(src, funcs.get(m))
            compile(ov[mod.relpath], mod.relpath, "exec")
        try:
            ctx = analyse(prop, "quick", Program(overrides=ov))
            new = sorted(f.key for f in ctx.findings if f.key not in basekeys)
            out[kind] = {"alarms": new, "error": None}
        except AnalysisError as e:
            out[kind] = {"alarms": [], "error": str(e)}
    return out


if __name__ == "__main__":
    import json
    for p in sys.argv[1:]:
        r = run(p)
        print(p, json.dumps(r)[:1500])
