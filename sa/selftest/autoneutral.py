"""Automatic neutral rewrites: behaviour-preserving whole-module transformations that every check must survive silently.

  reformat   ast.unparse(ast.parse(src)) of every consulted module (all positions and layout change)
  rename     every local variable of every analysed function is renamed v -> v_rn (parameters, globals, attributes,
             keywords and names captured/rebound by nested scopes are left alone)
  invert_if  every `if c: A else: B` (else present, not an elif chain) becomes `if not (c): B else: A`
  flip_cmp   every single comparison of call-free operands is mirrored: a < b -> b > a, a == b -> b == a, ...
  kwargs     the keyword arguments of every call (no ** argument) are written in reverse order
  noop       a statement `_verif_noop = None` is inserted at the top of every function (every statement index and line moves)
  dedent_else  `if c: ...; return/raise/continue/break  else: B` becomes `if c: ...` followed by B (no else after a jump)
  extract    in every function, the first call-valued argument of a call statement whose earlier operands are call-free is
             computed into a fresh local first: `r = f(a, g(b))` -> `_xt1 = g(b); r = f(a, _xt1)`
"""
from __future__ import annotations

import ast
import os
import sys


class _Renamer(ast.NodeTransformer):
    def __init__(self, names):
        self.names = names

    def visit_Name(self, node):
        if node.id in self.names:
            return ast.copy_location(ast.Name(id=node.id + "_rn", ctx=node.ctx), node)
        return node


def _local_candidates(fnode):
    params = {a.arg for a in fnode.args.posonlyargs + fnode.args.args + fnode.args.kwonlyargs}
    if fnode.args.vararg:
        params.add(fnode.args.vararg.arg)
    if fnode.args.kwarg:
        params.add(fnode.args.kwarg.arg)
    assigned, declared, nested_bound = set(), set(), set()
    for n in ast.walk(fnode):
        if isinstance(n, (ast.Global, ast.Nonlocal)):
            declared |= set(n.names)
    todo = list(ast.iter_child_nodes(fnode))
    while todo:
        n = todo.pop()
        if isinstance(n, (ast.FunctionDef, ast.AsyncFunctionDef, ast.Lambda, ast.ClassDef)):
            # names bound inside nested scopes must not be touched
            for m in ast.walk(n):
                if isinstance(m, ast.Name) and isinstance(m.ctx, ast.Store):
                    nested_bound.add(m.id)
                if isinstance(m, ast.arg):
                    nested_bound.add(m.arg)
            if hasattr(n, "name"):
                assigned.discard(n.name)
                nested_bound.add(n.name)
            continue
        if isinstance(n, ast.Name) and isinstance(n.ctx, ast.Store):
            assigned.add(n.id)
        if isinstance(n, ast.ExceptHandler) and n.name:
            nested_bound.add(n.name)
        if isinstance(n, (ast.Import, ast.ImportFrom)):
            for a in n.names:
                nested_bound.add((a.asname or a.name).split(".")[0])
        todo.extend(ast.iter_child_nodes(n))
    return {v for v in assigned - params - declared - nested_bound if not v.startswith("__")}


def rename_locals(src: str, func_names=None) -> str:
    tree = ast.parse(src)
    for n in ast.walk(tree):
        if isinstance(n, (ast.FunctionDef, ast.AsyncFunctionDef)):
            if func_names is not None and n.name not in func_names:
                continue
            names = _local_candidates(n)
            if names:
                r = _Renamer(names)
                n.body = [r.visit(s) for s in n.body]
    ast.fix_missing_locations(tree)
    return ast.unparse(tree)


def reformat(src: str) -> str:
    return ast.unparse(ast.parse(src))


class _InvertIf(ast.NodeTransformer):
    def visit_If(self, node):
        self.generic_visit(node)
        if node.orelse and not (len(node.orelse) == 1 and isinstance(node.orelse[0], ast.If)):
            t = node.test
            if isinstance(t, ast.UnaryOp) and isinstance(t.op, ast.Not):
                nt = t.operand
            else:
                nt = ast.UnaryOp(op=ast.Not(), operand=t)
            return ast.copy_location(ast.If(test=nt, body=node.orelse, orelse=node.body), node)
        return node


_MIRROR = {ast.Lt: ast.Gt, ast.Gt: ast.Lt, ast.LtE: ast.GtE, ast.GtE: ast.LtE, ast.Eq: ast.Eq, ast.NotEq: ast.NotEq}


class _FlipCmp(ast.NodeTransformer):
    def visit_Compare(self, node):
        self.generic_visit(node)
        if len(node.ops) == 1 and type(node.ops[0]) in _MIRROR:
            a, b = node.left, node.comparators[0]
            if not any(isinstance(x, (ast.Call, ast.NamedExpr, ast.Await, ast.Yield)) for e in (a, b) for x in ast.walk(e)):
                return ast.copy_location(ast.Compare(left=b, ops=[_MIRROR[type(node.ops[0])]()], comparators=[a]), node)
        return node


class _Kwargs(ast.NodeTransformer):
    def visit_Call(self, node):
        self.generic_visit(node)
        if len(node.keywords) >= 2 and all(k.arg is not None for k in node.keywords) and \
                not any(isinstance(x, (ast.Call, ast.NamedExpr)) for k in node.keywords for x in ast.walk(k.value)):
            node.keywords = list(reversed(node.keywords))
        return node


class _Noop(ast.NodeTransformer):
    def visit_FunctionDef(self, node):
        self.generic_visit(node)
        stmt = ast.Assign(targets=[ast.Name(id="_verif_noop", ctx=ast.Store())], value=ast.Constant(value=None))
        i = 1 if node.body and isinstance(node.body[0], ast.Expr) and isinstance(node.body[0].value, ast.Constant) and isinstance(node.body[0].value.value, str) else 0
        node.body.insert(i, stmt)
        return node


def _dedent_block(stmts):
    out = []
    for s in stmts:
        for fld in ("body", "orelse", "finalbody"):
            b = getattr(s, fld, None)
            if isinstance(b, list) and b and isinstance(b[0], ast.stmt):
                setattr(s, fld, _dedent_block(b))
        for h in getattr(s, "handlers", []) or []:
            h.body = _dedent_block(h.body)
        if isinstance(s, ast.If) and s.orelse and s.body and isinstance(s.body[-1], (ast.Return, ast.Raise, ast.Continue, ast.Break)):
            tail = s.orelse
            s.orelse = []
            out.append(s)
            out.extend(tail)
        else:
            out.append(s)
    return out


class _DedentElse(ast.NodeTransformer):
    def visit_FunctionDef(self, node):
        self.generic_visit(node)
        node.body = _dedent_block(node.body)
        return node


class _Extract(ast.NodeTransformer):
    def visit_FunctionDef(self, node):
        self.generic_visit(node)
        self.k = 0
        node.body = self._block(node.body)
        return node

    def _block(self, stmts):
        out = []
        for s in stmts:
            for fld in ("body", "orelse", "finalbody"):
                b = getattr(s, fld, None)
                if isinstance(b, list) and b and isinstance(b[0], ast.stmt) and not isinstance(s, (ast.FunctionDef, ast.AsyncFunctionDef, ast.ClassDef)):
                    setattr(s, fld, self._block(b))
            for h in getattr(s, "handlers", []) or []:
                h.body = self._block(h.body)
            call = None
            if isinstance(s, (ast.Assign, ast.Expr, ast.Return, ast.AugAssign)) and isinstance(getattr(s, "value", None), ast.Call):
                call = s.value
            if call is not None and not any(isinstance(a, ast.Starred) for a in call.args) and all(k.arg is not None for k in call.keywords):
                simple = lambda e: not any(isinstance(x, (ast.Call, ast.NamedExpr, ast.Await, ast.Yield, ast.YieldFrom, ast.Lambda, ast.ListComp, ast.SetComp,
                                                          ast.DictComp, ast.GeneratorExp)) for x in ast.walk(e))
                if simple(call.func) and (not isinstance(s, ast.Assign) or all(simple(t) for t in s.targets)):
                    operands = [("a", i, a) for i, a in enumerate(call.args)] + [("k", i, k.value) for i, k in enumerate(call.keywords)]
                    for kind, i, e in operands:
                        if isinstance(e, ast.Call) and simple(e.func) and all(simple(a) for a in e.args) and all(simple(k.value) for k in e.keywords):
                            self.k += 1
                            name = f"_xt{self.k}"
                            out.append(ast.copy_location(ast.Assign(targets=[ast.Name(id=name, ctx=ast.Store())], value=e), s))
                            ref = ast.copy_location(ast.Name(id=name, ctx=ast.Load()), e)
                            if kind == "a":
                                call.args[i] = ref
                            else:
                                call.keywords[i].value = ref
                            break
                        if not simple(e):
                            break
            out.append(s)
        return out


def transform(src: str, T) -> str:
    tree = T().visit(ast.parse(src))
    ast.fix_missing_locations(tree)
    return ast.unparse(tree)


REWRITES = {
    "reformat": lambda src, fn: reformat(src),
    "rename": lambda src, fn: rename_locals(src, fn),
    "invert_if": lambda src, fn: transform(src, _InvertIf),
    "flip_cmp": lambda src, fn: transform(src, _FlipCmp),
    "kwargs": lambda src, fn: transform(src, _Kwargs),
    "noop": lambda src, fn: transform(src, _Noop),
    "dedent_else": lambda src, fn: transform(src, _DedentElse),
    "extract": lambda src, fn: transform(src, _Extract),
}


def _one(args):
    prop, kind, mods_src, funcs, basekeys = args
    sys.path.insert(0, os.path.dirname(os.path.dirname(os.path.dirname(os.path.abspath(__file__)))))
    from sa.core.program import Program, AnalysisError
    from sa.check import analyse
    ov = {}
    try:
        for m, (relpath, src) in mods_src.items():
            ov[relpath] = REWRITES[kind](src, funcs.get(m))
            compile(ov[relpath], relpath, "exec")
        ctx = analyse(prop, "quick", Program(overrides=ov))
        new = sorted(f.key for f in ctx.findings if f.key not in basekeys)
        return kind, {"alarms": new, "error": None}
    except AnalysisError as e:
        return kind, {"alarms": [], "error": str(e)}
    except Exception as e:
        return kind, {"alarms": [], "error": f"internal: {type(e).__name__}: {e}"}


def run(prop, only=None):
    sys.path.insert(0, os.path.dirname(os.path.dirname(os.path.dirname(os.path.abspath(__file__)))))
    from sa.core.program import Program, AnalysisError, REPO
    from sa.check import analyse
    base = analyse(prop, "quick", Program())
    basekeys = {f.key for f in base.findings}
    mods = sorted(base.modules_consulted)
    funcs = {}
    for q in base.functions_analysed:
        m, f = q.split(":")
        funcs.setdefault(m, set()).add(f.split(".")[-1].split("#")[0])
    mods_src = {m: (base.prog.modules[m].relpath, base.prog.modules[m].source) for m in mods if m in base.prog.modules}
    import multiprocessing as mp
    kinds = [k for k in REWRITES if only is None or k in only]
    with mp.Pool(min(8, len(kinds))) as pool:
        res = pool.map(_one, [(prop, k, mods_src, funcs, basekeys) for k in kinds])
    out = dict(res)
    return out


if __name__ == "__main__":
    import json
    for p in [a for a in sys.argv[1:] if a.startswith("C")]:
        r = run(p, only=[a for a in sys.argv[1:] if not a.startswith("C")] or None)
        print(p, json.dumps(r)[:1500])
