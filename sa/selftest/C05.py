# self-validation battery (see runner.py): mutants must be reported under the named rule, neutral rewrites must stay silent
MUTANTS = [
    {'name': 'revert: pairs each non-empty part', 'revert': 'pairs each non-empty part', 'expect': '|ZIP-PAR|'},
    {'name': 'revert: rescales the metrical-position columns', 'revert': 'rescales the metrical-position columns', 'expect': 'RESCALE'},
    {'name': 'revert: passes only keywords its callees accept', 'revert': 'passes only keywords its callees accept', 'expect': 'F4d'},
    {'name': 'revert: unpacks the three-column', 'revert': 'unpacks the three-column', 'expect': 'F4b'},
    {'name': 'dtype group without row group', 'file': 'partitura/utils/music.py', 'old': '        fields += [("ts_beats", "i4"), ("ts_beat_type", "i4"), ("ts_mus_beats", "i4")]', 'new': '        fields += [("ts_beats", "i4"), ("ts_beat_type", "i4")]', 'expect': 'F4a'},
    {'name': 'unstable onset sort in note builder', 'file': 'partitura/utils/music.py', 'old': '    onset_sort_idx = np.argsort(note_array[onset_unit], kind="mergesort")\n    note_array = note_array[onset_sort_idx]\n\n    return note_array\n\n\ndef rest_array_from_rest_list', 'new': '    onset_sort_idx = np.argsort(note_array[onset_unit])\n    note_array = note_array[onset_sort_idx]\n\n    return note_array\n\n\ndef rest_array_from_rest_list', 'expect': 'F9c'},
    {'name': 'part builder passes all notes', 'file': 'partitura/utils/music.py', 'old': '        note_list=part.notes_tied,\n        beat_map=part.beat_map,', 'new': '        note_list=part.notes,\n        beat_map=part.beat_map,', 'expect': 'TIE'},
    {'name': 'key signature taken at note end', 'file': 'partitura/utils/music.py', 'old': '            fifths, mode = key_signature_map(note.start.t)', 'new': '            fifths, mode = key_signature_map(note.end.t)', 'expect': 'ONSET'},
    {'name': 'row guard differs from dtype guard', 'file': 'partitura/utils/music.py', 'old': '        if include_staff:\n            note_info += ((note.staff if note.staff else 0),)', 'new': '        if include_staff and note.staff:\n            note_info += ((note.staff if note.staff else 0),)', 'expect': 'F4a'}]

NEUTRALS = [{'name': 'stable instead of mergesort', 'file': 'partitura/utils/music.py', 'old': '    onset_sort_idx = np.argsort(note_array[onset_unit], kind="mergesort")\n    note_array = note_array[onset_sort_idx]\n\n    return note_array\n\n\ndef rest_array_from_rest_list', 'new': '    onset_sort_idx = np.argsort(note_array[onset_unit], kind="stable")\n    note_array = note_array[onset_sort_idx]\n\n    return note_array\n\n\ndef rest_array_from_rest_list'}]

# changes made by sub-agents that were given only the property text (see /verif/seeded/<id>/): each must stay reported
SEEDED = [
    {'name': 'seeded change C05-r6', 'seed': 'C05-r6', 'expect': '|LIMIT-sib|'},
    {'name': 'seeded change C05-r5b', 'seed': 'C05-r5b', 'expect': '|F4a|'},
    {'name': 'seeded change C05-r4b', 'seed': 'C05-r4b', 'expect': '|PARAM-used|'},
    {'name': 'seeded change C05-r4a', 'seed': 'C05-r4a', 'expect': '|DIVS-single|'},
    {'name': 'seeded change C05-r3', 'seed': 'C05-r3', 'expect': '|BEAT-TYPE|'},
    {'name': 'seeded change C05-r2', 'seed': 'C05-r2', 'expect': '|F4a|'},
    {'name': 'seeded change C05', 'seed': 'C05', 'expect': '|RESCALE|'},
]
MUTANTS += SEEDED
