# self-validation battery (see runner.py): mutants must be reported under the named rule, neutral rewrites must stay silent
MUTANTS = [
    {'name': 'revert: key signatures at their own position', 'revert': 'key signatures at their own position', 'expect': 'F7c'},
    {'name': 'revert: start of their bar', 'revert': 'start of their bar', 'expect': 'SIB-sig'},
    {'name': 'revert: rounds signature positions', 'revert': 'rounds signature positions', 'expect': 'F10-sib'},
    {'name': 'revert: clock units and rate', 'revert': 'clock units and rate', 'expect': 'CLOCK'},
    {'name': 'revert: first matching index as a scalar', 'revert': 'first matching index as a scalar', 'expect': 'F8b'},
    {'name': 'revert: single best variant', 'revert': 'single best variant', 'expect': 'F8b'},
    {'name': 'soft pedal exported as controller 66', 'file': 'partitura/io/exportmatch.py', 'old': '        if c["number"] == 67:', 'new': '        if c["number"] == 66:', 'expect': 'F5e'},
    {'name': 'importer labels ornaments as insertions', 'file': 'partitura/io/importmatch.py', 'old': '                    label="ornament",', 'new': '                    label="insertion",', 'expect': 'F6-labels'},
    {'name': 'exporter converts pedal time with default clock', 'file': 'partitura/io/exportmatch.py', 'old': '        t = seconds_to_midi_ticks(c["time"], mpq=mpq, ppq=ppq)\n        value = int(c["value"])', 'new': '        t = seconds_to_midi_ticks(c["time"])\n        value = int(c["value"])', 'expect': 'CLOCK'}]

NEUTRALS = [{'name': 'tick conversion through a local wrapper', 'file': 'partitura/io/exportmatch.py', 'old': '        t = seconds_to_midi_ticks(c["time"], mpq=mpq, ppq=ppq)\n', 'new': '        to_ticks = lambda sec: seconds_to_midi_ticks(sec, mpq=mpq, ppq=ppq)\n        t = to_ticks(c["time"])\n'}, ]

# changes made by sub-agents that were given only the property text (see /verif/seeded/<id>/): each must stay reported
SEEDED = [
    {'name': 'seeded change C08-r5b', 'seed': 'C08-r5b', 'expect': '|EQ-complete|'},
    {'name': 'seeded change C08-r4b', 'seed': 'C08-r4b', 'expect': '|CLOCK|'},
    {'name': 'seeded change C08-r4a', 'seed': 'C08-r4a', 'expect': '|F7c|'},
    {'name': 'seeded change C08-r3', 'seed': 'C08-r3', 'expect': '|ITER-MUT|'},
    {'name': 'seeded change C08-r2', 'seed': 'C08-r2', 'expect': '|TICK-src|'},
    {'name': 'seeded change C08', 'seed': 'C08', 'expect': '|SIB-dedupe|'},
]
MUTANTS += SEEDED
