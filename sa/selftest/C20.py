# self-validation battery (see runner.py): mutants must be reported under the named rule, neutral rewrites must stay silent
MUTANTS = [
    {'name': 'revert: destinations rewritten on a copy of the segment', 'revert': 'rewrites destinations on its own copy', 'expect': '|FIELD-owner|'},
    {'name': 'waiting destinations appended to the shared segment', 'file': 'partitura/score.py', 'old': '                        seg = copy(seg)\n                        seg.to = to\n', 'new': '                        seg.to.clear()\n                        seg.to.extend(to)\n                        seg = copy(seg)\n', 'expect': '|FIELD-owner|'},
    {'name': 'revert: own slur/tuplet lists', 'revert': 'its own slur/tuplet lists', 'expect': '|SHARE-copy|'},
    {'name': 'revert: de-duplicates notes in input order', 'revert': 'de-duplicates notes in input order', 'expect': '|SET-ORDER|'},
    {'name': 'voice table rows listed from a set of the notes', 'file': 'partitura/musicanalysis/voice_separation.py', 'old': '        out_array = []\n\n        for n in self.notes:\n            out_note = (', 'new': '        out_array = []\n        unique_notes = {n for n in self.notes}\n\n        for n in unique_notes:\n            out_note = (', 'expect': '|SET-ORDER|'},
    {'name': 'revert: fresh iterator per iteration', 'revert': 'fresh iterator per iteration', 'expect': 'ITER'},
    {'name': 'revert: transposes every note of the copy', 'revert': 'transposes every note of the copy', 'expect': 'F1'},
    {'name': 'pretty printing stores on the part', 'file': 'partitura/score.py', 'old': '    def pretty(self):', 'new': '    def pretty(self):\n        self._pretty_calls = getattr(self, "_pretty_calls", 0) + 1\n        return self._pretty()\n\n    def _pretty(self):', 'expect': 'F1'},
    {'name': 'array builder normalises voices in place', 'file': 'partitura/utils/music.py', 'old': '    note_array = []\n    for note in note_list:\n        note_info = tuple()', 'new': '    note_array = []\n    for note in note_list:\n        if note.voice is None:\n            note.voice = 1\n        note_info = tuple()', 'expect': 'F1'},
    {'name': "midi exporter sorts the caller's list", 'file': 'partitura/io/exportmidi.py', 'old': '    elif isinstance(score_data, Iterable):\n        parts = score_data\n', 'new': '    elif isinstance(score_data, Iterable):\n        parts = score_data\n        parts.sort(key=lambda p: p.id)\n', 'expect': 'F1'},
    {'name': 'piano roll registers inputs in a module list', 'file': 'partitura/utils/music.py', 'old': '    note_array = ensure_notearray(note_info)\n\n    if time_unit not in TIME_UNITS + ["auto"]:', 'new': '    note_array = ensure_notearray(note_info)\n    TIME_UNITS.append("auto")\n\n    if time_unit not in TIME_UNITS + ["auto"]:', 'expect': 'GLOBAL'}]

NEUTRALS = [
    {'name': 'a set of notes consumed by order-free functions only', 'file': 'partitura/musicanalysis/voice_separation.py', 'old': '        # sort notes by onset\n        self.notes = self.notes[np.argsort([n.onset for n in self.notes])]', 'new': '        # sort notes by onset\n        assert len(set(self.notes)) == len(self.notes)\n        self.notes = self.notes[np.argsort([n.onset for n in self.notes])]'},
    {'name': 'de-duplicated track numbers (a set of numbers) listed', 'file': 'partitura/musicanalysis/voice_separation.py', 'old': '        # Get unique onsets\n        self.unique_onsets = np.unique(self.note_onsets)', 'new': '        # Get unique onsets\n        _pitches = list(set(n.pitch for n in self.notes))\n        self.unique_onsets = np.unique(self.note_onsets)'}]

# changes made by sub-agents that were given only the property text (see /verif/seeded/<id>/): each must stay reported
SEEDED = [
    {'name': 'seeded change C20-r5b', 'seed': 'C20-r5b', 'expect': '|F1|'},
    {'name': 'seeded change C20-r5a', 'seed': 'C20-r5a', 'expect': '|F1|'},
    {'name': 'seeded change C20-r4b', 'seed': 'C20-r4b', 'expect': '|F1|'},
    {'name': 'seeded change C20-r4a', 'seed': 'C20-r4a', 'expect': '|ITER|'},
    {'name': 'seeded change C20-r3', 'seed': 'C20-r3', 'expect': '|F1|'},
    {'name': 'seeded change C20-r2', 'seed': 'C20-r2', 'expect': '|F1|'},
    {'name': 'seeded change C20', 'seed': 'C20', 'expect': '|F1|'},
]
MUTANTS += SEEDED
