# self-validation battery (see runner.py): mutants must be reported under the named rule, neutral rewrites must stay silent
MUTANTS = [
    {'name': 'revert: tuplet estimation rounds', 'revert': 'tuplet estimation rounds', 'expect': '|F10-tuplet|'},
    {'name': 'DURS row value wrong', 'file': 'partitura/utils/globals.py', 'old': '        1.5625000e-02,\n        2.3437500e-02,', 'new': '        1.5625000e-02,\n        2.3437600e-02,', 'expect': 'F3'},
    {'name': 'SYM_DURS row dots wrong', 'file': 'partitura/utils/globals.py', 'old': '    {"type": "256th", "dots": 2},', 'new': '    {"type": "256th", "dots": 3},', 'expect': 'F3'},
    {'name': 'composite component wrong', 'file': 'partitura/utils/globals.py', 'old': '        {"type": "16th", "dots": 0},\n        {"type": "16th", "dots": 0, "actual_notes": 3, "normal_notes": 2},', 'new': '        {"type": "16th", "dots": 0},\n        {"type": "32nd", "dots": 0, "actual_notes": 3, "normal_notes": 2},', 'expect': 'F3'},
    {'name': 'continuation note takes staff 1', 'file': 'partitura/score.py', 'old': '            voice=note.voice,\n            id=note_id,\n            staff=note.staff,\n        )\n        cur_note.tie_next = next_note', 'new': '            voice=note.voice,\n            id=note_id,\n            staff=1,\n        )\n        cur_note.tie_next = next_note', 'expect': 'PROV'},
    {'name': 'tie_prev link forgotten in tie_notes', 'file': 'partitura/score.py', 'old': '            cur_note.tie_next = next_note\n            next_note.tie_prev = cur_note\n\n            cur_note = next_note\n\n            next_measure', 'new': '            cur_note.tie_next = next_note\n\n            cur_note = next_note\n\n            next_measure', 'expect': 'PAIR'},
    {'name': 'split_note drops outgoing tie', 'file': 'partitura/score.py', 'old': '    cur_note.tie_next = orig_tie_next\n', 'new': '', 'expect': 'PAIR'},
    {'name': 'find_tuplets respells', 'file': 'partitura/score.py', 'old': '                            for note in note_tuplet:\n                                note.symbolic_duration = dur_type.copy()', 'new': '                            for note in note_tuplet:\n                                note.symbolic_duration = dur_type.copy()\n                                note.alter = note.alter or 0', 'expect': 'NOPITCH'}]

NEUTRALS = []

# changes made by sub-agents that were given only the property text (see /verif/seeded/<id>/): each must stay reported
SEEDED = [
    {'name': 'seeded change C11-r5a', 'seed': 'C11-r5a', 'expect': '|READ|'},
    {'name': 'seeded change C11-r4b', 'seed': 'C11-r4b', 'expect': '|GLOBAL-leak|'},
    {'name': 'seeded change C11-r4a', 'seed': 'C11-r4a', 'expect': '|TIE-all|'},
    {'name': 'seeded change C11-r3', 'seed': 'C11-r3', 'expect': '|READ|'},
    {'name': 'seeded change C11-r2', 'seed': 'C11-r2', 'expect': '|COUNTER|'},
    {'name': 'seeded change C11', 'seed': 'C11', 'expect': '|DIVS-at-start|'},
]
MUTANTS += SEEDED
