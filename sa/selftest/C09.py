# self-validation battery (see runner.py): mutants must be reported under the named rule, neutral rewrites must stay silent
MUTANTS = [
    {'name': 'revert: destinations rewritten on a copy of the segment', 'revert': 'rewrites destinations on its own copy', 'expect': '|FIELD-owner|'},
    {'name': 'waiting destinations appended to the shared segment', 'file': 'partitura/score.py', 'old': '                        seg = copy(seg)\n                        seg.to = to\n', 'new': '                        seg.to.clear()\n                        seg.to.extend(to)\n                        seg = copy(seg)\n', 'expect': '|FIELD-owner|'},
    {'name': 'revert: own slur/tuplet lists', 'revert': 'its own slur/tuplet lists', 'expect': '|SHARE-copy|'},
    {'name': 'DaCapo copied into the unfolded part', 'file': 'partitura/score.py', 'old': '                            ToCoda,\n                            DaCapo,\n                            DalSegno,', 'new': '                            ToCoda,\n                            DalSegno,', 'expect': 'EXCL'},
    {'name': 'copies not recorded in o_map', 'file': 'partitura/score.py', 'old': '                    o_map[o] = o_copy\n', 'new': '', 'expect': 'REFS'},
    {'name': 'grace links not registered', 'file': 'partitura/score.py', 'old': '        self._ref_attrs.extend(["grace_next", "grace_prev"])', 'new': '        self._ref_attrs.extend(["grace_next"])', 'expect': 'REFS'},
    {'name': 'relink loop forgets prev', 'file': 'partitura/score.py', 'old': '            tp.next = tp_next\n            tp_next.prev = tp\n\n        return part', 'new': '            tp.next = tp_next\n\n        return part', 'expect': 'LINKS'},
    {'name': 'minimal unfolding suffixes ids', 'file': 'partitura/score.py', 'old': '    unfolded_score = new_part_from_path(paths[0], score, update_ids=False)', 'new': '    unfolded_score = new_part_from_path(paths[0], score, update_ids=True)', 'expect': 'IDS'},
    {'name': 'ids always updated', 'file': 'partitura/score.py', 'old': '    if update_ids:\n        update_note_ids_after_unfolding(new_part)\n    return new_part', 'new': '    update_note_ids_after_unfolding(new_part)\n    return new_part', 'expect': 'IDS'},
    {'name': 'new_part_from_path marks the original', 'file': 'partitura/score.py', 'old': '    scorevariant = ScoreVariant(part)\n    for segment_id in path.path:', 'new': '    scorevariant = ScoreVariant(part)\n    part.part_name = part.part_name or "unfolded"\n    for segment_id in path.path:', 'expect': 'F1'},
    {'name': 'revert: single best variant', 'revert': 'single best variant', 'expect': 'F8b'}]

NEUTRALS = [{'name': 'object map hoisted but cleared per segment', 'file': 'partitura/score.py', 'old': '            o_map = {}\n', 'new': '            o_map = dict()\n            o_map.clear()\n'}, {'name': 'exclusion tuple reordered', 'file': 'partitura/score.py', 'old': '                            Repeat,\n                            Ending,\n                            ToCoda,', 'new': '                            Ending,\n                            Repeat,\n                            ToCoda,'}]

# changes made by sub-agents that were given only the property text (see /verif/seeded/<id>/): each must stay reported
SEEDED = [
    {'name': 'seeded change C09-r5b', 'seed': 'C09-r5b', 'expect': '|IDS-all|'},
    {'name': 'seeded change C09-r5a', 'seed': 'C09-r5a', 'expect': '|RECURSE-fwd|'},
    {'name': 'seeded change C09-r4b', 'seed': 'C09-r4b', 'expect': '|DEDUP|'},
    {'name': 'seeded change C09-r4a', 'seed': 'C09-r4a', 'expect': '|IDS-all|'},
    {'name': 'seeded change C09-r3', 'seed': 'C09-r3', 'expect': '|RESET-rec|'},
    {'name': 'seeded change C09-r2', 'seed': 'C09-r2', 'expect': '|MAP-scope|'},
    {'name': 'seeded change C09', 'seed': 'C09', 'expect': '|REFSET|'},
]
MUTANTS += SEEDED
