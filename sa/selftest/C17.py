# self-validation battery (see runner.py): mutants must be reported under the named rule, neutral rewrites must stay silent
MUTANTS = [
    {'name': 'revert: key profile names accepted', 'revert': 'key profile names accepted', 'expect': 'F6-profiles'},
    {'name': 'revert: key name returned by estimate_key', 'revert': 'key name returned by estimate_key', 'expect': 'F4c'},
    {'name': "revert: grace note's onset as a scalar", 'revert': "grace note's onset as a scalar", 'expect': 'F8b'},
    {'name': 'revert: per track over the time signature table', 'revert': 'per track over the time signature table', 'expect': 'KEYSRC'},
    {'name': 'octave array not unsorted', 'file': 'partitura/musicanalysis/pitch_spelling.py', 'old': '    octave = octave[re_idx]\n', 'new': '', 'expect': 'F9b'},
    {'name': 'step unsorted twice', 'file': 'partitura/musicanalysis/pitch_spelling.py', 'old': '    step = step[re_idx]\n', 'new': '    step = step[re_idx]\n    step = step[re_idx]\n', 'expect': 'F9b'},
    {'name': 'ids start at one', 'file': 'partitura/musicanalysis/voice_separation.py', 'old': '            np.arange(len(notearray)),', 'new': '            np.arange(1, len(notearray) + 1),', 'expect': 'ID'},
    {'name': 'KEYS row fifths wrong', 'file': 'partitura/utils/globals.py', 'old': '    ("Eb", "major", -3),', 'new': '    ("Eb", "major", 3),', 'expect': 'F3-KEYS'}]

NEUTRALS = []

# changes made by sub-agents that were given only the property text (see /verif/seeded/<id>/): each must stay reported
SEEDED = [
    {'name': 'seeded change C17-r6', 'seed': 'C17-r6', 'expect': '|F3-KEYS|'},
    {'name': 'seeded change C17-r5b', 'seed': 'C17-r5b', 'expect': '|INT-acc|'},
    {'name': 'seeded change C17-r5a', 'seed': 'C17-r5a', 'expect': '|OCT-letter|'},
    {'name': 'seeded change C17-r4b', 'seed': 'C17-r4b', 'expect': '|F5e-pairing|'},
    {'name': 'seeded change C17-r4a', 'seed': 'C17-r4a', 'expect': '|F3-ps13|'},
    {'name': 'seeded change C17-r3', 'seed': 'C17-r3', 'expect': '|TOTAL-ord|'},
    {'name': 'seeded change C17-r2', 'seed': 'C17-r2', 'expect': '|GROUPBY|'},
]
MUTANTS += SEEDED
