# self-validation battery (see runner.py): mutants must be reported under the named rule, neutral rewrites must stay silent
MUTANTS = [
    {'name': 'inverse map built from (y, y)', 'file': 'partitura/score.py', 'old': '            return interp1d(y, x)\n', 'new': '            return interp1d(y, y)\n', 'expect': 'SIB-inv'},
    {'name': 'inv_quarter_map forgets quarter=True', 'file': 'partitura/score.py', 'old': '        return self._time_interpolator(quarter=True, inv=True)', 'new': '        return self._time_interpolator(inv=True)', 'expect': 'SIB-inv'},
    {'name': 'inv_beat_map ignores musical beat', 'file': 'partitura/score.py', 'old': '            return self._time_interpolator(inv=True, musical_beat=True)', 'new': '            return self._time_interpolator(inv=True)', 'expect': 'SIB-inv'},
    {'name': 'integrand divides by the beat column', 'file': 'partitura/score.py', 'old': '(keypoints[:-1, 2] * np.diff(keypoints[:, 0])) / keypoints[:-1, 1]', 'new': '(keypoints[:-1, 1] * np.diff(keypoints[:, 0])) / keypoints[:-1, 2]', 'expect': 'INTEGRAND'},
    {'name': 'beat factor beat_type/2', 'file': 'partitura/score.py', 'old': '                    keypoints[ts.start.t][1] = ts.beat_type / 4\n', 'new': '                    keypoints[ts.start.t][1] = ts.beat_type / 2\n', 'expect': 'INTEGRAND'},
    {'name': 'pickup shift dropped', 'file': 'partitura/score.py', 'old': '                if actual_dur < normal_dur:\n                    y -= actual_dur\n', 'new': '                if actual_dur < normal_dur:\n                    pass\n', 'expect': 'PICKUP'},
    {'name': 'foreign writer of beat mode', 'file': 'partitura/score.py', 'old': '    new_part = Part(parts[0].id, quarter_duration=lcm)\n', 'new': '    new_part = Part(parts[0].id, quarter_duration=lcm)\n    new_part._use_musical_beat = parts[0]._use_musical_beat\n', 'expect': 'OWN-beat'},
    {'name': 'quarter_duration_map linear', 'file': 'partitura/score.py', 'old': '            x, y, kind="previous", bounds_error=False, fill_value=(y[0], y[-1])', 'new': '            x, y, kind="linear", bounds_error=False, fill_value=(y[0], y[-1])', 'expect': 'QDMAP'}]

NEUTRALS = [{'name': 'swap multiplication order in integrand', 'file': 'partitura/score.py', 'old': '(keypoints[:-1, 2] * np.diff(keypoints[:, 0])) / keypoints[:-1, 1]', 'new': '(np.diff(keypoints[:, 0]) * keypoints[:-1, 2]) / keypoints[:-1, 1]'},
    {'name': 'flip pickup comparison', 'file': 'partitura/score.py', 'old': '                if actual_dur < normal_dur:\n                    y -= actual_dur\n', 'new': '                if normal_dur > actual_dur:\n                    y -= actual_dur\n'}]

# changes made by sub-agents that were given only the property text (see /verif/seeded/<id>/): each must stay reported
SEEDED = [
    {'name': 'seeded change C02-r5b', 'seed': 'C02-r5b', 'expect': '|SIB-inv|'},
    {'name': 'seeded change C02-r5a', 'seed': 'C02-r5a', 'expect': '|MODE-param|'},
    {'name': 'seeded change C02-r4b', 'seed': 'C02-r4b', 'expect': '|F2c|'},
    {'name': 'seeded change C02-r4a', 'seed': 'C02-r4a', 'expect': '|OWN-beat|'},
    {'name': 'seeded change C02-r3', 'seed': 'C02-r3', 'expect': '|SIB-inv|'},
    {'name': 'seeded change C02-r2', 'seed': 'C02-r2', 'expect': '|F2c|'},
    {'name': 'seeded change C02', 'seed': 'C02', 'expect': '|PICKUP-src|'},
]
MUTANTS += SEEDED
