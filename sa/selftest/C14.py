# self-validation battery (see runner.py): mutants must be reported under the named rule, neutral rewrites must stay silent
MUTANTS = [
    {'name': 'revert: re-strike while the key is still down', 'revert': 're-strike while the key is still down', 'expect': '|SOUND-ge|'},
    {'name': 'track 0 treated as missing', 'file': 'partitura/performance.py', 'old': 'n.get("track", -1)', 'new': '(n.get("track") or -1)', 'expect': '|F11|'},
    {'name': 'setter stops recomputing', 'file': 'partitura/performance.py', 'old': '        self._sustain_pedal_threshold = value\n        if len(self.notes) > 0:\n            adjust_offsets_w_sustain(\n                self.notes, self.controls, self._sustain_pedal_threshold\n            )', 'new': '        self._sustain_pedal_threshold = value', 'expect': 'MUSTCALL'},
    {'name': 'setter recomputes with the default threshold', 'file': 'partitura/performance.py', 'old': '                self.notes, self.controls, self._sustain_pedal_threshold\n', 'new': '                self.notes, self.controls, 64\n', 'expect': 'MUSTCALL'},
    {'name': 'threshold set before controls', 'file': 'partitura/performance.py', 'old': '        self.controls = controls or []\n        self.programs = programs or []', 'new': '        self.sustain_pedal_threshold = sustain_pedal_threshold\n        self.controls = controls or []\n        self.programs = programs or []', 'expect': 'INIT'},
    {'name': 'early exit forgets sound_off', 'file': 'partitura/performance.py', 'old': '    if len(pedal) == 0:\n        for note in notes:\n            note["sound_off"] = note["note_off"]\n        return', 'new': '    if len(pedal) == 0:\n        return', 'expect': 'ALLPATHS'},
    {'name': 'pedal down at the threshold', 'file': 'partitura/performance.py', 'old': '        [(x["time"], x["value"] > threshold) for x in controls if x["number"] == 64]', 'new': '        [(x["time"], x["value"] >= threshold) for x in controls if x["number"] == 64]', 'expect': 'CMP'},
    {'name': 'soft pedal taken for sustain', 'file': 'partitura/performance.py', 'old': '        [(x["time"], x["value"] > threshold) for x in controls if x["number"] == 64]', 'new': '        [(x["time"], x["value"] > threshold) for x in controls if x["number"] == 67]', 'expect': 'CC64'},
    {'name': 'track map keyed by track only', 'file': 'partitura/performance.py', 'old': '                note["track"] = track_map[(i, note.get("track", -1))]', 'new': '                note["track"] = track_map[(0, note.get("track", -1))]', 'expect': 'TRACKKEY'},
    {'name': 'note_array row loses a value', 'file': 'partitura/performance.py', 'old': '                    n.get("track", 0),\n                    n.get("channel", 1),\n                    n["id"],', 'new': '                    n.get("track", 0),\n                    n["id"],', 'expect': 'F4a'}]

NEUTRALS = [{'name': 'flip threshold comparison', 'file': 'partitura/performance.py', 'old': '        [(x["time"], x["value"] > threshold) for x in controls if x["number"] == 64]', 'new': '        [(x["time"], threshold < x["value"]) for x in controls if x["number"] == 64]'}]

# changes made by sub-agents that were given only the property text (see /verif/seeded/<id>/): each must stay reported
SEEDED = [
    {'name': 'seeded change C13-r6', 'seed': 'C13-r6', 'expect': '|RESTRIKE-eq|'},
    {'name': 'seeded change C14-r5b', 'seed': 'C14-r5b', 'expect': '|F10-quot|'},
    {'name': 'seeded change C14-r5a', 'seed': 'C14-r5a', 'expect': '|CLOCK-fwd|'},
    {'name': 'seeded change C14-r4b', 'seed': 'C14-r4b', 'expect': '|F10-ticks|'},
    {'name': 'seeded change C14-r4a', 'seed': 'C14-r4a', 'expect': '|ROUND-all|'},
    {'name': 'seeded change C14-r3', 'seed': 'C14-r3', 'expect': '|VALID-dom|'},
    {'name': 'seeded change C14-r2', 'seed': 'C14-r2', 'expect': '|ALLPATHS|'},
    {'name': 'seeded change C14', 'seed': 'C14', 'expect': '|MUSTCALL|'},
]
MUTANTS += SEEDED
