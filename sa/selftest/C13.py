# self-validation battery (see runner.py): mutants must be reported under the named rule, neutral rewrites must stay silent
MUTANTS = [
    {'name': 'revert: velocity column', 'revert': 'velocity column', 'expect': 'F9a'},
    {'name': 'index rows left in sorted order', 'file': 'partitura/utils/music.py', 'old': '        return pianoroll, pr_idx[idx.argsort()]', 'new': '        return pianoroll, pr_idx', 'expect': 'F9b'},
    {'name': 'onset shifted in place before the copy', 'file': 'partitura/utils/music.py', 'old': '    idx = np.argsort(onset)\n    # sort notes\n    pr_pitch = pr_pitch[idx]\n    onset = onset[idx]', 'new': '    idx = np.argsort(onset)\n    # sort notes\n    pr_pitch = pr_pitch[idx]\n    onset -= 0\n    onset = onset[idx]', 'expect': 'VIEW'},
    {'name': 'option not forwarded', 'file': 'partitura/utils/music.py', 'old': '        remove_silence=remove_silence,\n        end_time=end_time,\n        binary=binary,\n    )\n\n\ndef _make_pianoroll', 'new': '        remove_silence=True,\n        end_time=end_time,\n        binary=binary,\n    )\n\n\ndef _make_pianoroll', 'expect': 'F4d-plumb'},
    {'name': 'pitch-class roll built from a binary roll', 'file': 'partitura/utils/music.py', 'old': '        end_time=end_time,\n        binary=False,\n    )\n\n    if return_idxs:\n        pianoroll, pr_idxs = pianoroll', 'new': '        end_time=end_time,\n        binary=binary,\n    )\n\n    if return_idxs:\n        pianoroll, pr_idxs = pianoroll', 'expect': 'F4d-plumb'},
    {'name': 'piano range off by one', 'file': 'partitura/utils/music.py', 'old': '        pianoroll = pianoroll[21:109, :]', 'new': '        pianoroll = pianoroll[21:108, :]', 'expect': 'RANGE'}]

NEUTRALS = []

# changes made by sub-agents that were given only the property text (see /verif/seeded/<id>/): each must stay reported
SEEDED = [
    {'name': 'seeded change C13-r6', 'seed': 'C13-r6', 'expect': '|RESTRIKE-eq|'},
    {'name': 'seeded change C13-r5b', 'seed': 'C13-r5b', 'expect': '|NA-lcm|'},
    {'name': 'seeded change C13-r5a', 'seed': 'C13-r5a', 'expect': '|ENSURE-whole|'},
    {'name': 'seeded change C13-r4b', 'seed': 'C13-r4b', 'expect': '|UNIT-pair|'},
    {'name': 'seeded change C13-r4a', 'seed': 'C13-r4a', 'expect': '|F4d-plumb|'},
    {'name': 'seeded change C13-r3', 'seed': 'C13-r3', 'expect': '|F4d-plumb|'},
    {'name': 'seeded change C13-r2', 'seed': 'C13-r2', 'expect': '|ROUND-all|'},
    {'name': 'seeded change C13', 'seed': 'C13', 'expect': '|CLAMP|'},
]
MUTANTS += SEEDED
