# self-validation battery (see runner.py): mutants must be reported under the named rule, neutral rewrites must stay silent
MUTANTS = [
    {'name': 'revert: pairs note records', 'revert': 'pairs note records', 'expect': 'ROWRANK'},
    {'name': 'revert: first matching index as a scalar', 'revert': 'first matching index as a scalar', 'expect': 'F8b'},
    {'name': 'rescale reads a name nobody writes', 'file': 'partitura/musicanalysis/performance_codec.py', 'old': '    return tempo_params["beat_period_ratio"] * tempo_params["beat_period_mean"]', 'new': '    return tempo_params["beat_period_ratio"] * tempo_params["beat_period_avg"]', 'expect': 'F5c'},
    {'name': 'param_names misses std', 'file': 'partitura/musicanalysis/performance_codec.py', 'old': '        param_names=("beat_period_standardized", "beat_period_mean", "beat_period_std"),', 'new': '        param_names=("beat_period_standardized", "beat_period_mean"),', 'expect': 'F5c'},
    {'name': 'decoder sorts pitch primary', 'file': 'partitura/musicanalysis/performance_codec.py', 'old': '    sort_idx = np.lexsort((snote_info["pitch"], snote_info["onset_div"]))', 'new': '    sort_idx = np.lexsort((snote_info["onset_div"], snote_info["pitch"]))', 'expect': 'ORDER'},
    {'name': 'encoder misnames timing', 'file': 'partitura/musicanalysis/performance_codec.py', 'old': '    parameter_names = ["beat_period", "velocity", "timing", "articulation_log"]', 'new': '    parameter_names = ["beat_period", "velocity", "micro_timing", "articulation_log"]', 'expect': 'NAMES'}]

NEUTRALS = []

# changes made by sub-agents that were given only the property text (see /verif/seeded/<id>/): each must stay reported
SEEDED = [
    {'name': 'seeded change C18-r5a', 'seed': 'C18-r5a', 'expect': '|LABEL-match|'},
    {'name': 'seeded change C18-r4a', 'seed': 'C18-r4a', 'expect': '|ORDER|'},
    {'name': 'seeded change C18-r3', 'seed': 'C18-r3', 'expect': '|NAMES|'},
    {'name': 'seeded change C18-r2', 'seed': 'C18-r2', 'expect': '|F9a-mask|'},
    {'name': 'seeded change C18', 'seed': 'C18', 'expect': '|ORDER|'},
]
MUTANTS += SEEDED
