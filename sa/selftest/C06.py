# self-validation battery (see runner.py): mutants must be reported under the named rule, neutral rewrites must stay silent
MUTANTS = [
    {'name': 'revert: accepts a list of performed parts', 'revert': 'accepts a list of performed parts', 'expect': 'F7a'},
    {'name': 'revert: integrates tempo changes', 'revert': 'integrates tempo changes', 'expect': 'F7h'},
    {'name': 'control time truncated', 'file': 'partitura/io/exportmidi.py', 'old': '            ch = c.get("channel", 1)\n            t = int(np.round(10**6 * ppq * c["time"] / mpq))', 'new': '            ch = c.get("channel", 1)\n            t = int(10**6 * ppq * c["time"] / mpq)', 'expect': 'F10'},
    {'name': 'pairing by pitch only', 'file': 'partitura/io/importmidi.py', 'old': '    return channel * 128 + pitch', 'new': '    return pitch', 'expect': 'F5e-pairing'},
    {'name': 'zero-velocity note_on not an off', 'file': 'partitura/io/importmidi.py', 'old': '                elif note_off or (note_on and msg.velocity == 0):\n                    if note not in sounding_notes:\n                        warnings.warn(f"ignoring MIDI message {msg}")', 'new': '                elif note_off:\n                    if note not in sounding_notes:\n                        warnings.warn(f"ignoring MIDI message {msg}")', 'expect': 'F5e-pairing'},
    {'name': 'id order pitch before onset', 'file': 'partitura/io/importmidi.py', 'old': '                x["note_on"],\n                x["midi_pitch"],\n                x["note_off"],', 'new': '                x["midi_pitch"],\n                x["note_on"],\n                x["note_off"],', 'expect': 'ID-ORDER'},
    {'name': 'importer passes wrong ppq to adjust_time', 'file': 'partitura/io/importmidi.py', 'old': '            control["time"] = adjust_time(control["time_tick"], tempo_changes, ppq)', 'new': '            control["time"] = adjust_time(control["time_tick"], tempo_changes, 480)', 'expect': 'CLOCK'},
    {'name': 'header tempo constant', 'file': 'partitura/io/exportmidi.py', 'old': '            track.append(MetaMessage("set_tempo", tempo=mpq, time=0))', 'new': '            track.append(MetaMessage("set_tempo", tempo=500000, time=0))', 'expect': 'CLOCK'}]

NEUTRALS = [{'name': 'first-track guard as j < 1', 'file': 'partitura/io/exportmidi.py', 'old': '        if j == 0:\n            track.append(MetaMessage("set_tempo"', 'new': '        if j < 1:\n            track.append(MetaMessage("set_tempo"'}, {'name': 'sort tempo changes with sorted()', 'file': 'partitura/io/importmidi.py', 'old': '    tempo_changes.sort(key=lambda tc: tc[0])', 'new': '    tempo_changes = sorted(tempo_changes, key=lambda tc: tc[0])'}]

# changes made by sub-agents that were given only the property text (see /verif/seeded/<id>/): each must stay reported
SEEDED = [
    {'name': 'seeded change C06-r5b', 'seed': 'C06-r5b', 'expect': '|F7c|'},
    {'name': 'seeded change C06-r5a', 'seed': 'C06-r5a', 'expect': '|F5e-pairing|'},
    {'name': 'seeded change C06-r4b', 'seed': 'C06-r4b', 'expect': '|VALID-dom|'},
    {'name': 'seeded change C06-r4a', 'seed': 'C06-r4a', 'expect': '|F5e-pairing|'},
    {'name': 'seeded change C06-r3', 'seed': 'C06-r3', 'expect': '|CARRY|'},
    {'name': 'seeded change C06-r2', 'seed': 'C06-r2', 'expect': '|TEMPO-first|'},
    {'name': 'seeded change C06', 'seed': 'C06', 'expect': '|F7h-read|'},
]
MUTANTS += SEEDED
