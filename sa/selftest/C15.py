# self-validation battery (see runner.py): mutants must be reported under the named rule, neutral rewrites must stay silent
MUTANTS = [
    {'name': 'revert: builds the merged part with its quarter duration', 'revert': 'builds the merged part with its quarter duration', 'expect': 'F2a'},
    {'name': 'revert: iter_parts accepts a Score', 'revert': 'iter_parts accepts a Score', 'expect': 'F6-flat'},
    {'name': 'end not rescaled', 'file': 'partitura/score.py', 'old': '                    e.end.t * time_multiplier_per_part[p_ind]\n', 'new': '                    e.end.t\n', 'expect': 'RESC'},
    {'name': 'voice offset by part count', 'file': 'partitura/score.py', 'old': '                        e.voice = e.voice + sum(maximum_voices[:p_ind])', 'new': '                        e.voice = e.voice + p_ind', 'expect': 'OFFSET'},
    {'name': 'staff offset includes own staves', 'file': 'partitura/score.py', 'old': '                        e.staff = (e.staff if e.staff is not None else 1) + sum(\n                            maximum_staves[:p_ind]\n                        )', 'new': '                        e.staff = (e.staff if e.staff is not None else 1) + sum(\n                            maximum_staves[: p_ind + 1]\n                        )', 'expect': 'OFFSET'},
    {'name': 'measures duplicated in voice mode', 'file': 'partitura/score.py', 'old': '        el_to_discard = (\n            Barline,\n            Page,\n            System,\n            Clef,\n            Measure,', 'new': '        el_to_discard = (\n            Barline,\n            Page,\n            System,\n            Clef,', 'expect': 'DISCARD'},
    {'name': 'validator accepts an undispatched mode', 'file': 'partitura/score.py', 'old': '    if reassign not in ["staff", "voice", "auto"]:', 'new': '    if reassign not in ["staff", "voice", "auto", "both"]:', 'expect': 'F6-modes'}]

NEUTRALS = [{'name': 'voice offset with augmented assignment', 'file': 'partitura/score.py', 'old': '                        e.voice = e.voice + sum(maximum_voices[:p_ind])', 'new': '                        e.voice += sum(maximum_voices[:p_ind])'}]

# changes made by sub-agents that were given only the property text (see /verif/seeded/<id>/): each must stay reported
SEEDED = [
    {'name': 'seeded change C15-r5b', 'seed': 'C15-r5b', 'expect': '|PARTS-all|'},
    {'name': 'seeded change C15-r5a', 'seed': 'C15-r5a', 'expect': '|IDENTITY-hash|'},
    {'name': 'seeded change C15-r3', 'seed': 'C15-r3', 'expect': '|ZIP-PAR|'},
    {'name': 'seeded change C15-r2', 'seed': 'C15-r2', 'expect': '|FLAT-all|'},
    {'name': 'seeded change C15', 'seed': 'C15', 'expect': '|OFFSET-src|'},
]
MUTANTS += SEEDED
