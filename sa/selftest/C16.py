# self-validation battery (see runner.py): mutants must be reported under the named rule, neutral rewrites must stay silent
MUTANTS = [
    {'name': 'revert: transposing down', 'revert': 'transposing down moves the step', 'expect': '|DIR-mirror|'},
    {'name': 'abs() back in the step arithmetic', 'file': 'partitura/utils/music.py', 'old': 'else (x - y) % 7', 'new': 'else abs(x - y) % 7', 'expect': '|MOD-abs|'},
    {'name': 'revert: transposes every note of the copy', 'revert': 'transposes every note of the copy', 'expect': 'COPY'},
    {'name': 'part branch loops over the argument', 'file': 'partitura/utils/music.py', 'old': '        for note in new_score.notes:\n            _transpose_note_inplace(note, interval)', 'new': '        for note in score.notes:\n            _transpose_note_inplace(note, interval)', 'expect': 'COPY'},
    {'name': 'score branch skips tied continuations', 'file': 'partitura/utils/music.py', 'old': '            for note in part.notes:\n                _transpose_note_inplace(note, interval)', 'new': '            for note in part.notes_tied:\n                _transpose_note_inplace(note, interval)', 'expect': 'COVER'},
    {'name': 'returns the argument', 'file': 'partitura/utils/music.py', 'old': '            _transpose_note_inplace(note, interval)\n    return new_score', 'new': '            _transpose_note_inplace(note, interval)\n    return score', 'expect': 'RET'},
    {'name': 'STEPS table broken', 'file': 'partitura/utils/globals.py', 'old': '    "F": 3,\n    "G": 4,', 'new': '    "F": 4,\n    "G": 3,', 'expect': 'F3'}]

NEUTRALS = [{'name': 'identity guard on quality and number separately', 'file': 'partitura/utils/music.py', 'old': '    if interval.quality + str(interval.number) == "P1":\n        pass\n', 'new': '    if interval.quality == "P" and interval.number == 1:\n        pass\n'}, {'name': 'rename the copy', 'file': 'partitura/utils/music.py', 'old': '    new_score = copy.deepcopy(score)\n    # Reset recursion limit to previous value to avoid side effects\n    sys.setrecursionlimit(old_recursion_depth)\n    if isinstance(score, s.Score):\n        for part in new_score.parts:\n            for note in part.notes:\n                _transpose_note_inplace(note, interval)\n    elif isinstance(score, s.Part):\n        for note in new_score.notes:\n            _transpose_note_inplace(note, interval)\n    return new_score', 'new': '    result = copy.deepcopy(score)\n    # Reset recursion limit to previous value to avoid side effects\n    sys.setrecursionlimit(old_recursion_depth)\n    if isinstance(score, s.Score):\n        for part in result.parts:\n            for note in part.notes:\n                _transpose_note_inplace(note, interval)\n    elif isinstance(score, s.Part):\n        for note in result.notes:\n            _transpose_note_inplace(note, interval)\n    return result'}]

# changes made by sub-agents that were given only the property text (see /verif/seeded/<id>/): each must stay reported
SEEDED = [
    {'name': 'seeded change C16-r5b', 'seed': 'C16-r5b', 'expect': '|COLL-whole|'},
    {'name': 'seeded change C16-r5a', 'seed': 'C16-r5a', 'expect': '|PITCH-linear|'},
    {'name': 'seeded change C16-r4b', 'seed': 'C16-r4b', 'expect': '|P1-only|'},
    {'name': 'seeded change C16-r3', 'seed': 'C16-r3', 'expect': '|READ|'},
    {'name': 'seeded change C16-r2', 'seed': 'C16-r2', 'expect': '|P1-only|'},
    {'name': 'seeded change C16', 'seed': 'C16', 'expect': '|COVER|'},
]
MUTANTS += SEEDED
