# self-validation battery (see runner.py): mutants must be reported under the named rule, neutral rewrites must stay silent
MUTANTS = [
    {'name': 'revert: rejects fifths below -7', 'revert': 'rejects fifths below -7', 'expect': 'F7f'},
    {'name': 'revert: astype(int)', 'revert': 'astype(int)', 'expect': 'F8a'},
    {'name': 'MAJOR_KEYS out of order', 'file': 'partitura/utils/globals.py', 'old': '    "Db",\n    "Ab",\n    "Eb",\n    "Bb",\n    "F",\n    "C",\n    "G",', 'new': '    "Ab",\n    "Db",\n    "Eb",\n    "Bb",\n    "F",\n    "C",\n    "G",', 'expect': 'F3'},
    {'name': 'BASE_PC F wrong', 'file': 'partitura/utils/globals.py', 'old': 'BASE_PC = {\n    "C": 0,\n    "D": 2,\n    "E": 4,\n    "F": 5,', 'new': 'BASE_PC = {\n    "C": 0,\n    "D": 2,\n    "E": 4,\n    "F": 6,', 'expect': 'F3'},
    {'name': 'interval semitone offsets', 'file': 'partitura/utils/globals.py', 'old': '            for generic in [1, 3, 8, 10]\n            for specific in [-2, -1, 0, 1, 2, 3]', 'new': '            for generic in [1, 3, 8, 10]\n            for specific in [-2, -1, 0, 1, 2, 4]', 'expect': 'F3'},
    {'name': 'INT_TO_ALT flat sign unreadable', 'file': 'partitura/utils/globals.py', 'old': 'INT_TO_ALT = {\n    -2: "--",\n    -1: "-",', 'new': 'INT_TO_ALT = {\n    -2: "--",\n    -1: "f",', 'expect': 'F3'},
    {'name': 'dotted multiplier wrong', 'file': 'partitura/utils/globals.py', 'old': 'DOT_MULTIPLIERS = (1, 1 + 1 / 2, 1 + 3 / 4, 1 + 7 / 8)', 'new': 'DOT_MULTIPLIERS = (1, 1 + 1 / 2, 1 + 3 / 4, 1 + 5 / 8)', 'expect': 'F3'},
    {'name': 'ticks not rounded for arrays', 'file': 'partitura/utils/music.py', 'old': '        return midi_ticks.astype(int)', 'new': '        return (1e6 * ppq * time_in_seconds / mpq).astype(int)', 'expect': 'RET'},
    {'name': 'DUMMY_PS spelling wrong', 'file': 'partitura/utils/globals.py', 'old': '    3: ("d", 1),', 'new': '    3: ("e", 1),', 'expect': 'F3'}]

NEUTRALS = [{'name': 'bound check as chained comparison', 'file': 'partitura/utils/music.py', 'old': '    if fifths < -7:\n        raise Exception("Unknown number of fifths {}".format(fifths))', 'new': '    if not -7 <= fifths <= 7:\n        raise Exception("Unknown number of fifths {}".format(fifths))'}]

# changes made by sub-agents that were given only the property text (see /verif/seeded/<id>/): each must stay reported
SEEDED = [
    {'name': 'seeded change C12-r5b', 'seed': 'C12-r5b', 'expect': '|RET|'},
    {'name': 'seeded change C12-r5a', 'seed': 'C12-r5a', 'expect': '|PITCH-linear|'},
    {'name': 'seeded change C12-r4b', 'seed': 'C12-r4b', 'expect': '|ACC-repeat|'},
    {'name': 'seeded change C12-r4a', 'seed': 'C12-r4a', 'expect': '|PARAM-used|'},
    {'name': 'seeded change C12-r3', 'seed': 'C12-r3', 'expect': '|F3|'},
    {'name': 'seeded change C12-r2', 'seed': 'C12-r2', 'expect': '|F7f|'},
    {'name': 'seeded change C12', 'seed': 'C12', 'expect': '|RET|'},
]
MUTANTS += SEEDED
