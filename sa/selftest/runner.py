"""Both-ways self-validation of the checker (thorough tier).

For each property a battery of *mutants* (one instance of one rule broken by a
source edit that still compiles — each must be reported, naming that rule) and
*neutral rewrites* (behaviour-preserving edits — each must stay silent).  The
edits are applied to an in-memory copy of the parsed source (Program overrides);
/repo is never written and nothing is executed.
"""
from __future__ import annotations

import importlib
import multiprocessing as mp
import os
import random
import sys
import traceback


def _analyse(prop, overrides):
    from sa.core.program import Program, AnalysisError
    from sa.check import analyse
    try:
        ctx = analyse(prop, "quick", Program(overrides=overrides))
        files = sorted(ctx.prog.modules[m].relpath for m in ctx.modules_consulted if m in ctx.prog.modules)
        return {"keys": [f.key for f in ctx.findings], "error": None, "files": files}
    except AnalysisError as e:
        return {"keys": [], "error": str(e)}
    except Exception as e:
        return {"keys": [], "error": "internal: " + "".join(traceback.format_exception_only(type(e), e)).strip()}


_REVERTS = None


def _revert_edits(key):
    global _REVERTS
    if _REVERTS is None:
        import json
        with open(os.path.join(os.path.dirname(os.path.abspath(__file__)), "reverts.json")) as fh:
            _REVERTS = json.load(fh)
    hits = [r for r in _REVERTS if key in r["subject"]]
    if len(hits) != 1:
        raise SyntaxError(f"revert key {key!r} matches {len(hits)} fix commits")
    return [tuple(e) for e in hits[0]["edits"]]


def _seed_edits(seed_id):
    """(file, old, new) per hunk of /verif/seeded/<seed_id>/patch.diff (a change made by a sub-agent that breaks the property)."""
    path = os.path.join(os.path.dirname(os.path.dirname(os.path.dirname(os.path.abspath(__file__)))), "seeded", seed_id, "patch.diff")
    edits, file, old, new = [], None, None, None

    def flush():
        if file and old is not None and (old or new):
            edits.append((file, "".join(old), "".join(new)))
    with open(path, encoding="utf-8") as fh:
        for line in fh:
            if line.startswith("+++ "):
                flush()
                old = new = None
                file = line[4:].strip()
                file = file[2:] if file.startswith("b/") else file
            elif line.startswith("@@"):
                flush()
                old, new = [], []
            elif line.startswith(("diff ", "index ", "--- ", "new file", "deleted file", "similarity", "rename ")):
                continue
            elif old is not None:
                if line.startswith(" "):
                    old.append(line[1:])
                    new.append(line[1:])
                elif line.startswith("-"):
                    old.append(line[1:])
                elif line.startswith("+"):
                    new.append(line[1:])
                elif line.startswith("\\"):
                    pass
                elif line == "\n":
                    old.append(line)
                    new.append(line)
    flush()
    if not edits:
        raise SyntaxError(f"no hunks in {path}")
    return edits


def _patch_edits(path):
    edits, file, old, new = [], None, None, None

    def flush():
        if file and old is not None and (old or new):
            edits.append((file, "".join(old), "".join(new)))
    with open(path, encoding="utf-8") as fh:
        for line in fh:
            if line.startswith("+++ "):
                flush()
                old = new = None
                file = line[4:].strip()
                file = file[2:] if file.startswith("b/") else file
            elif line.startswith("@@"):
                flush()
                old, new = [], []
            elif line.startswith(("diff ", "index ", "--- ", "new file", "deleted file", "similarity", "rename ")):
                continue
            elif old is not None:
                if line.startswith(" "):
                    old.append(line[1:])
                    new.append(line[1:])
                elif line.startswith("-"):
                    old.append(line[1:])
                elif line.startswith("+"):
                    new.append(line[1:])
                elif line == "\n":
                    old.append(line)
                    new.append(line)
    flush()
    return edits


def _apply_patch_file(path, repo):
    """apply a unified diff in memory, hunk by hunk at its line position (nearest exact match of the hunk's old text)"""
    import re
    files, cur, hunks = {}, None, None
    with open(path, encoding="utf-8") as fh:
        for line in fh:
            if line.startswith("+++ "):
                cur = line[4:].strip()
                cur = cur[2:] if cur.startswith("b/") else cur
                hunks = files.setdefault(cur, [])
            elif line.startswith("@@") and hunks is not None:
                m = re.match(r"@@ -(\d+)", line)
                hunks.append([int(m.group(1)), [], []])
            elif line.startswith(("diff ", "index ", "--- ", "new file", "deleted file", "similarity", "rename ")):
                continue
            elif hunks:
                h = hunks[-1]
                if line.startswith(" ") or line == "\n":
                    h[1].append(line[1:] if line.startswith(" ") else line)
                    h[2].append(line[1:] if line.startswith(" ") else line)
                elif line.startswith("-"):
                    h[1].append(line[1:])
                elif line.startswith("+"):
                    h[2].append(line[1:])
    ov = {}
    for file, hs in files.items():
        with open(os.path.join(repo, file), encoding="utf-8") as fh:
            lines = fh.read().splitlines(keepends=True)
        shift = 0
        for start, old, new in hs:
            pos = start - 1 + shift
            cands = [k for k in range(0, len(lines) - len(old) + 1) if lines[k:k + len(old)] == old]
            if not cands:
                return None
            k = min(cands, key=lambda c: abs(c - pos))
            lines[k:k + len(old)] = new
            shift += len(new) - len(old)
        ov[file] = "".join(lines)
        compile(ov[file], file, "exec")
    return ov


def _apply(case, repo):
    if "revert" in case:
        edits = _revert_edits(case["revert"])
    elif "seed" in case:
        return _apply_patch_file(os.path.join(os.path.dirname(os.path.dirname(os.path.dirname(os.path.abspath(__file__)))), "seeded", case["seed"], "patch.diff"), repo)
    elif "neutral_patch" in case:
        return _apply_patch_file(os.path.join(os.path.dirname(os.path.dirname(os.path.dirname(os.path.abspath(__file__)))), "neutral", case["neutral_patch"], "patch.diff"), repo)
    else:
        edits = case.get("edits") or [(case["file"], case["old"], case["new"])]
    ov = {}
    for file, old, new in edits:
        src = ov.get(file)
        if src is None:
            with open(os.path.join(repo, file), encoding="utf-8") as fh:
                src = fh.read()
        if src.count(old) < 1:
            return None
        ov[file] = src.replace(old, new, 1)
    # must still compile
    for file, src in ov.items():
        compile(src, file, "exec")
    return ov


def _job(args):
    prop, kind, case, repo = args
    try:
        ov = _apply(case, repo)
    except SyntaxError as e:
        return (kind, case["name"], "broken-case", str(e))
    if ov is None:
        return (kind, case["name"], "inapplicable", "source text not found (tree drifted)")
    r = _analyse(prop, ov)
    return (kind, case["name"], r, case.get("expect"))


def run_battery(prop: str, seed: int = 0) -> dict:
    from sa.core.program import REPO
    try:
        mod = importlib.import_module(f"sa.selftest.{prop}")
    except ModuleNotFoundError:
        return {"mutants": 0, "neutrals": 0, "failed": [], "note": "no battery for this property"}
    base = _analyse(prop, {})
    if base["error"]:
        return {"failed": [f"baseline analysis error: {base['error']}"]}
    basekeys = set(base["keys"])
    jobs = [(prop, "mutant", c, REPO) for c in mod.MUTANTS] + [(prop, "neutral", c, REPO) for c in mod.NEUTRALS]
    # behaviour-preserving refactorings made by sub-agents (/verif/neutral/<id>): every one that touches a file this check
    # consults must leave it silent
    ndir = os.path.join(os.path.dirname(os.path.dirname(os.path.dirname(os.path.abspath(__file__)))), "neutral")
    n_ref = 0
    if os.path.isdir(ndir):
        import json as _json
        for nid in sorted(os.listdir(ndir)):
            mp_ = os.path.join(ndir, nid, "meta.json")
            pp_ = os.path.join(ndir, nid, "patch.diff")
            if not (os.path.exists(mp_) and os.path.exists(pp_)) or not _json.load(open(mp_)).get("equivalence_confirmed"):
                continue
            touched = {l[6:].strip() for l in open(pp_) if l.startswith("+++ b/")}
            if touched & set(base.get("files", [])):
                jobs.append((prop, "neutral", {"name": f"refactoring {nid}", "neutral_patch": nid}, REPO))
                n_ref += 1
    random.Random(seed).shuffle(jobs)
    with mp.Pool(min(16, max(1, len(jobs)))) as pool:
        results = pool.map(_job, jobs)
    out = {"mutants": len(mod.MUTANTS), "neutrals": len(mod.NEUTRALS) + n_ref, "refactorings_by_sub_agents": n_ref, "detected": 0, "detected_fail_closed": 0,
           "silent_on_neutral": 0, "inapplicable": [], "failed": [], "cases": []}
    # automatic neutral rewrites: whole-module reformat and renaming of every local of every analysed function
    try:
        from sa.selftest import autoneutral
        auto = autoneutral.run(prop)
        for kind2, res in auto.items():
            out["neutrals"] += 1
            if res["error"]:
                out["failed"].append(f"automatic neutral rewrite `{kind2}` broke the analysis: {res['error'][:160]}")
            elif res["alarms"]:
                out["failed"].append(f"automatic neutral rewrite `{kind2}` raised an alarm: {res['alarms'][:3]}")
            else:
                out["silent_on_neutral"] += 1
        out["automatic_neutral_rewrites"] = sorted(auto)
    except Exception as e:  # pragma: no cover
        out["failed"].append(f"automatic neutral rewrites crashed: {type(e).__name__}: {e}")
    for kind, name, r, expect in results:
        if r == "inapplicable":
            out["inapplicable"].append(name)
            continue
        if r == "broken-case":
            out["failed"].append(f"{kind} {name}: edit does not compile ({expect})")
            continue
        new = [k for k in r["keys"] if k not in basekeys]
        if kind == "mutant":
            if r["error"]:
                out["detected_fail_closed"] += 1
                out["cases"].append({"mutant": name, "result": "ANALYSIS-ERROR (fail-closed)", "detail": r["error"][:160]})
            elif any((expect or "") in k for k in new):
                out["detected"] += 1
                out["cases"].append({"mutant": name, "result": "reported", "finding": [k for k in new if (expect or "") in k][0]})
            else:
                out["failed"].append(f"mutant {name} not reported (expected a new finding containing {expect!r}; new={new[:3]})")
        else:
            if r["error"]:
                out["failed"].append(f"neutral rewrite {name} broke the analysis: {r['error'][:160]}")
            elif new:
                out["failed"].append(f"neutral rewrite {name} raised an alarm: {new[:3]}")
            else:
                out["silent_on_neutral"] += 1
    return out


if __name__ == "__main__":
    sys.path.insert(0, os.path.dirname(os.path.dirname(os.path.dirname(os.path.abspath(__file__)))))
    import json
    print(json.dumps(run_battery(sys.argv[1]), indent=1))
