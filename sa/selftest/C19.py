# self-validation battery (see runner.py): mutants must be reported under the named rule, neutral rewrites must stay silent
MUTANTS = [
    {'name': 'revert: knows the maxima', 'revert': 'knows the maxima', 'expect': 'UNIVERSE'},
    {'name': 'revert: lower-cases the extension of URLs', 'revert': 'lower-cases the extension of URLs', 'expect': 'F6-load'},
    {'name': 'revert: kern export converts tempo', 'revert': 'kern export converts tempo', 'expect': 'F4d'},
    {'name': 'kern exporter octave letters shifted', 'file': 'partitura/io/exportkern.py', 'old': '    ("C", 4): "c",', 'new': '    ("C", 4): "cc",', 'expect': 'F5d'},
    {'name': 'kern flat sign unreadable', 'file': 'partitura/io/exportkern.py', 'old': '    -1: "-",', 'new': '    -1: "_",', 'expect': 'F5d'},
    {'name': 'MEI sharp code unreadable', 'file': 'partitura/io/exportmei.py', 'old': '    1: "s",', 'new': '    1: "sh",', 'expect': 'F5d'},
    {'name': '.midi routed to the performance loader name', 'file': 'partitura/io/__init__.py', 'old': '    elif extension in [".midi", ".mid"]:', 'new': '    elif extension in [".midi"]:', 'expect': 'F6-load'},
    {'name': 'kern duration code wrong', 'file': 'partitura/io/exportkern.py', 'old': '    "eighth": "8",', 'new': '    "eighth": "16",', 'expect': 'F5d'}]

NEUTRALS = []

# changes made by sub-agents that were given only the property text (see /verif/seeded/<id>/): each must stay reported
SEEDED = [
    {'name': 'seeded change C19-r6', 'seed': 'C19-r6', 'expect': '|DOTS-fold|'},
    {'name': 'seeded change C19-r5b', 'seed': 'C19-r5b', 'expect': '|RX-number|'},
    {'name': 'seeded change C19-r5a', 'seed': 'C19-r5a', 'expect': '|ORDER-sib|'},
    {'name': 'seeded change C19-r4b', 'seed': 'C19-r4b', 'expect': '|DEAD-KEY|'},
    {'name': 'seeded change C19-r3', 'seed': 'C19-r3', 'expect': '|DIVS-lcm|'},
    {'name': 'seeded change C19-r2', 'seed': 'C19-r2', 'expect': '|ITER-local|'},
    {'name': 'seeded change C19', 'seed': 'C19', 'expect': '|F10-trunc|'},
]
MUTANTS += SEEDED
