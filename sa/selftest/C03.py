# self-validation battery (see runner.py): mutants must be reported under the named rule, neutral rewrites must stay silent
MUTANTS = [
    {'name': 'revert: soft-accent', 'revert': 'soft-accent', 'expect': 'VOCAB'},
    {'name': 'revert: counts the staves', 'revert': 'counts the staves', 'expect': 'F7c'},
    {'name': 'revert: <sound tempo', 'revert': '<sound tempo', 'expect': 'F7b'},
    {'name': 'exporter writes an unread tag', 'file': 'partitura/io/exportmusicxml.py', 'old': '        stem_e = etree.SubElement(note_e, "stem")', 'new': '        stem_e = etree.SubElement(note_e, "stem-direction")', 'expect': 'F5a'},
    {'name': 'importer drops the sound tempo', 'file': 'partitura/io/importmusicxml.py', 'old': '        _add_tempo_if_unique(position, part, tempo)\n\n\ndef _handle_note', 'new': '        tempo\n\n\ndef _handle_note', 'expect': 'F7b'},
    {'name': 'group popped without stop', 'file': 'partitura/io/exportmusicxml.py', 'old': '            # close group\n            etree.SubElement(\n                partlist_e,\n                "part-group",\n                number="{}".format(group_stack[-1].number),\n                type="stop",\n            )\n            # remove from stack\n            group_stack.pop()', 'new': '            # remove from stack\n            group_stack.pop()', 'expect': 'GROUPS'},
    {'name': 'exporter mutates the part', 'file': 'partitura/io/exportmusicxml.py', 'old': '        for measure in part.iter_all(score.Measure):\n            part_e.append', 'new': '        for measure in part.iter_all(score.Measure):\n            measure.number = measure.number\n            part_e.append', 'expect': 'F1'},
    {'name': 'stack not drained', 'file': 'partitura/io/exportmusicxml.py', 'old': '    close_group_stack()\n\n    if out:', 'new': '    if out:', 'expect': 'GROUPS'}]

NEUTRALS = [{'name': 'tie key through a local', 'file': 'partitura/io/importmusicxml.py', 'old': '        tie_key = ("tie", getattr(note, "midi_pitch", "rest"))\n', 'new': '        sounding = getattr(note, "midi_pitch", "rest")\n        tie_key = ("tie", sounding)\n'}, {'name': 'rename local in _handle_sound', 'file': 'partitura/io/importmusicxml.py', 'old': '        tempo = score.Tempo(int(e.attrib["tempo"]), "q")\n        # part.add_starting_object(position, tempo)\n        _add_tempo_if_unique(position, part, tempo)', 'new': '        tmp = score.Tempo(int(e.attrib["tempo"]), "q")\n        _add_tempo_if_unique(position, part, tmp)'},
    {'name': 'reorder articulation list', 'file': 'partitura/io/exportmusicxml.py', 'old': '    "accent",\n    "breath-mark",', 'new': '    "breath-mark",\n    "accent",'}]

# changes made by sub-agents that were given only the property text (see /verif/seeded/<id>/): each must stay reported
SEEDED = [
    {'name': 'seeded change C03-r6', 'seed': 'C03-r6', 'expect': '|VOCAB|'},
    {'name': 'seeded change C03-r4b', 'seed': 'C03-r4b', 'expect': '|MAXTIME|'},
    {'name': 'seeded change C03-r4a', 'seed': 'C03-r4a', 'expect': '|STACK-top|'},
    {'name': 'seeded change C03-r3', 'seed': 'C03-r3', 'expect': '|CARRY|'},
    {'name': 'seeded change C03-r2', 'seed': 'C03-r2', 'expect': '|TIE-key|'},
    {'name': 'seeded change C03', 'seed': 'C03', 'expect': '|ORDTYPE|'},
]
MUTANTS += SEEDED
