"""Per-property registration: what is claimed, at which level, with which technique.
`tools/manifest.py` renders MANIFEST.json from this table."""

CLAIMS = {}
NOT_APPLICABLE = {}


def claim(pid, text, note, technique, design_ref):
    CLAIMS[pid] = {"text": text, "note": note, "technique": technique, "design_ref": design_ref}


_NOTE = ("Trusted base: CPython's ast parser, /verif/sa/core (resolver, CFG, constant folder, type/callee inference), "
         "and the rule tables in sa/props. Necessary structural conditions only: the behavioural remainder listed in "
         "the evidence file under not_decided is NOT decided. Only must-facts alarm; unresolved receivers stay silent.")

claim("C01",
      "Static analysis (level other): decides, for every edit history at once, the structural clauses of the timeline "
      "invariant — ownership of Part/TimePoint/TimedObject private state (all stores in the package classified), "
      "quarter-cache refresh on every path, index discipline of every computed subscript of the three timeline arrays "
      "over the finite order-type domain of (index,len), link completeness of the point inserter/deleter in every cell, "
      "registry/back-reference pairing, negative-time guard dominance, query/registry agreement, quarter propagation "
      "slice. Equality of query results with a reference model is not decided.",
      _NOTE, "ast-based ownership scan + CFG must-pass-through + order-type abstract interpretation of index arithmetic",
      "DESIGN.md §3 F2, §4 C01")

claim("C10",
      "Static analysis (level other): decides the structural clauses of the six map properties of Part — library names "
      "resolve, the measure tables are not indexed before the emptiness default, the three previous-value maps back-fill "
      "the first element on every non-default branch, interpolator keyword agreement, map row width vs. every "
      "unpacking/indexing site in the package, clef/mode code tables mutually inverse. Values returned at arbitrary t are "
      "not decided.",
      _NOTE, "ast rules: link-time name resolution against installed numpy, CFG dominators, sibling decision tables, "
             "constant-folded table identities, arity agreement", "DESIGN.md §4 C10")

claim("C05",
      "Static analysis (level other): decides the layout clauses of the note/rest array builders — dtype list vs. row "
      "tuple group by group under identical guards, map row width vs. unpacking sites, stable onset-then-pitch sort in "
      "all four builders, keyword conformance of every call among the builders, completeness of the lcm rescaling over "
      "all division-unit columns, tie-chain row source, optional columns evaluated at the note's onset. Column values "
      "and the array->score->array round trip are not decided.",
      _NOTE, "ast rules: schema/arity agreement, call-signature conformance over resolved callees, sort-idiom "
             "recognition, field-set inclusion", "DESIGN.md §4 C05")
