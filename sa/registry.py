"""Per-property registration: what is claimed, at which level, with which technique.
`tools/manifest.py` renders MANIFEST.json from this table."""

CLAIMS = {}
NOT_APPLICABLE = {}


def claim(pid, text, note, technique, design_ref):
    CLAIMS[pid] = {"text": text, "note": note, "technique": technique, "design_ref": design_ref}


_NOTE = ("Trusted base: CPython's ast parser, /verif/sa/core (resolver, CFG, constant folder, type/callee inference), "
         "and the rule tables in sa/props. Necessary structural conditions only: the behavioural remainder listed in "
         "the evidence file under not_decided is NOT decided. Only must-facts alarm; unresolved receivers stay silent.")

claim("C01",
      "Static analysis (level other): decides, for every edit history at once, the structural clauses of the timeline "
      "invariant — ownership of Part/TimePoint/TimedObject private state (all stores in the package classified), "
      "quarter-cache refresh on every path, index discipline of every computed subscript of the three timeline arrays "
      "over the finite order-type domain of (index,len), link completeness of the point inserter/deleter in every cell, "
      "registry/back-reference pairing, negative-time guard dominance, query/registry agreement, quarter propagation "
      "slice. Equality of query results with a reference model is not decided.",
      _NOTE, "ast-based ownership scan + CFG must-pass-through + order-type abstract interpretation of index arithmetic",
      "DESIGN.md §3 F2, §4 C01")

claim("C10",
      "Static analysis (level other): decides the structural clauses of the six map properties of Part — library names "
      "resolve, the measure tables are not indexed before the emptiness default, the three previous-value maps back-fill "
      "the first element on every non-default branch, interpolator keyword agreement, map row width vs. every "
      "unpacking/indexing site in the package, clef/mode code tables mutually inverse. Values returned at arbitrary t are "
      "not decided.",
      _NOTE, "ast rules: link-time name resolution against installed numpy, CFG dominators, sibling decision tables, "
             "constant-folded table identities, arity agreement", "DESIGN.md §4 C10")

claim("C05",
      "Static analysis (level other): decides the layout clauses of the note/rest array builders — dtype list vs. row "
      "tuple group by group under identical guards, map row width vs. unpacking sites, stable onset-then-pitch sort in "
      "all four builders, keyword conformance of every call among the builders, completeness of the lcm rescaling over "
      "all division-unit columns, tie-chain row source, optional columns evaluated at the note's onset. Column values "
      "and the array->score->array round trip are not decided.",
      _NOTE, "ast rules: schema/arity agreement, call-signature conformance over resolved callees, sort-idiom "
             "recognition, field-set inclusion", "DESIGN.md §4 C05")

claim("C12",
      "Static analysis (level other): the pitch, key, interval, accidental, duration and clef tables are constant-folded "
      "from their initialisers and checked exhaustively (all 12 pitch classes, 15+15 keys, 39 interval classes, 56+11+35 "
      "duration rows, all code tables) against twelve-tone / circle-of-fifths / dotted-duration identities and "
      "inverse-table laws; the fifths lookup is bounded below before the subscript; library names resolve; the "
      "scalar/array dispatch returns on every branch and rounds before converting. Conversion *formulas* are not decided.",
      _NOTE, "constant folding of module-level tables + exhaustive finite checks; CFG dominator rule for the one-sided bound",
      "DESIGN.md §3 F3, §4 C12")

claim("C06",
      "Static analysis (level other): decides structural clauses of performance MIDI export/import — definite assignment "
      "on every accepted input kind, ordering of the cross-track tempo list before the first-later-entry scan, agreement "
      "of the ppq/mpq used in the tick formula with the header and with what the importer passes on, round-before-int at "
      "all 7 tick conversions, (channel,pitch) note pairing with the zero-velocity rule in both readers, id sort key, "
      "message-kind coverage. Equality of the reloaded performance is not decided.",
      _NOTE, "ast/CFG rules: definite assignment, dominance of a sort over consumers, def-use agreement, guard normal forms",
      "DESIGN.md §4 C06")

claim("C04",
      "Static analysis (level other): decides structural clauses of score MIDI export — parameter-to-sink flow of the "
      "requested velocity, round-before-int at the division->tick conversion, def-use chain of ticks-per-quarter (lcm of "
      "all parts, doubling only, same variable in header and converter, every event time converted), exhaustive 0..5 mode "
      "dispatch on both sides, pickup policies with raising else, tie chains exported as one note. Note multiset equality "
      "after re-import is not decided.",
      _NOTE, "ast rules: taint from parameter to constructor keyword, def-use agreement, dispatch-table lifting",
      "DESIGN.md §4 C04")

claim("C07",
      "Static analysis (level other): decides the schema clauses of the match line classes — output template vs. regular "
      "expression vs. field_names field by field and literal by literal for every foldable class and per-version table, "
      "formatter coverage, groups() arity, body-inferred return type of every class-typed interpreter in the codec tables, "
      "kind preservation and coverage of the pre-1.0 -> 1.0.0 upgrade, parser-list reachability, version gates. "
      "Value-level round trips (rounding, fraction bounding, key spellings) are not decided.",
      _NOTE, "constant folding of class attributes/tables, regex syntax trees (re._parser) vs. str.format skeletons, "
             "body-level return type inference, class-hierarchy-aware dispatch lifting", "DESIGN.md §3 F5b/F4f/F6, §4 C07")

claim("C17",
      "Static analysis (level other): decides order-independence plumbing of pitch spelling (sort / inverse-permutation "
      "pairing on every returned array), id provenance of voice estimation, the importer's use of the three analyses "
      "against their inferred return shapes and key sources, validator-subset-of-dispatcher for key-profile names, the "
      "24-row KEYS table against MAJOR/MINOR_KEYS and chromatic order, and absence of int() on rank-1 arrays. The numeric "
      "algorithms themselves (spelling, voice assignment, key correlation) are not decided.",
      _NOTE, "ast rules: permutation pairing, return-shape inference vs. unpacking, dispatch lifting, constant-folded table "
             "identities, rank domain", "DESIGN.md §4 C17")

claim("C19",
      "Static analysis (level other): decides table agreement between the kern/MEI writers and readers (inverse on the "
      "writers' domain for pitch letters, duration codes, accidentals), the duration-type universe (every type a reader "
      "can produce is a key of LABEL_DURS), conformance of every library call and narrowed attribute read inside the two "
      "exporters, the loader's dispatch by lower-cased extension with a raising else, and the kern dotted-value function folded "
      "at constant arguments in exact rationals (DOTS-fold). What a given MEI/kern document denotes is otherwise not decided.",
      _NOTE, "constant-folded inverse-table checks, call-signature conformance, isinstance-narrowed attribute existence, "
             "dispatch lifting, constant folding of a closed arithmetic function", "DESIGN.md §4 C19, §17")

claim("C13",
      "Static analysis (level other): decides the permutation and plumbing clauses of the piano roll — all four columns "
      "sliced from the input are co-permuted by the onset sort, the per-note index rows are un-permuted, no in-place "
      "arithmetic writes through a view of the input, every option reaches the rasteriser under its own name, the "
      "pitch-class roll forces the full non-binary roll and applies binary after the fold, piano range literals agree "
      "with the inverse. Cell-exact content is not decided.",
      _NOTE, "ast rules: co-permutation of parallel arrays, sort/unsort pairing, view/copy provenance, keyword forwarding",
      "DESIGN.md §3 F9, §4 C13")

claim("C14",
      "Static analysis (level other): decides the recomputation plumbing of performed parts — the threshold setter "
      "must-calls the sounding-end computation with the part's notes/controls/new value on every path with notes, the "
      "constructor installs the threshold through the property after notes and controls, both exits of the computation "
      "write sound_off for every note, the only threshold comparison is `value > threshold`, controller 64, note_array "
      "row/dtype arity and from_note_array's field reads, (part index, track) keys in track renumbering. The pedal model "
      "itself is not decided.",
      _NOTE, "CFG must-call / dominance rules, comparator normal form, schema agreement", "DESIGN.md §4 C14")

claim("C18",
      "Static analysis (level other): decides the naming/arity plumbing of the performance codec — scale/rescale/param_names "
      "agreement for all five tempo normalisations, parameter names written by the encoder vs. read by the decoders, both "
      "tempo-curve methods dispatched and unpacked with their return width, lexsort key order (onset primary) in table "
      "and decoder, scalar-only rows in the matched-note table, no int() of rank-1 arrays. decode(encode(x)) = x is not "
      "decided.",
      _NOTE, "constant-folded function table vs. the functions' bodies, name-set agreement, return-shape vs. unpacking, "
             "rank domain", "DESIGN.md §3 F5c, §4 C18")

claim("C08",
      "Static analysis (level other): decides structural clauses of match export/import — no stale loop variable in the "
      "exporter's signature loops, both importer signature loops pass the computed bar start, timeline positions round "
      "like their siblings, controller 64/67 <-> sustain/soft on both sides, clock units/rate written, read, used for "
      "conversion and handed to the performed part, the four alignment labels agree, the exporter's path is free of "
      "int() on rank-1 arrays. The reconstructed score's values are not decided.",
      _NOTE, "ast rules: loop-variable liveness, sibling-block agreement, def-use agreement of clock variables, dispatch "
             "lifting", "DESIGN.md §4 C08")

claim("C20",
      "Static ownership/effect analysis (level other): for every function of the package a summary of the parameters it "
      "mutates (with the call path to the store) is computed to a fixpoint; each of the ~50 read-only entry points the "
      "property names must not have its argument in that summary. Also decides that Score/Performance hand out a fresh "
      "iterator per iteration with len/getitem/iter reading one list, and that no reachable function writes module-level "
      "state. Known findings (add_segments through get_paths, the number_of_staves cache, the in-place alignment rewrite) "
      "are listed in known_findings.json. Bit-identical repeat results beyond the absence of hidden state are not decided.",
      _NOTE, "interprocedural ownership/effect abstract interpretation over ast + CFG with summaries to a fixpoint; "
             "container-protocol rule; module-state rule", "DESIGN.md §3 F1, §4 C20")

claim("C09",
      "Static analysis (level other): decides that the unfolding entry points do not mutate the original part (F1; the "
      "add_segments finding is known), that the copy loop excludes every repeat/ending/jump class, that copies are "
      "entered in o_map and get replace_refs(o_map), that every reference attribute the property names is registered in "
      "_ref_attrs by the class assigning it, that the new part's points are re-linked pairwise, that update_ids reaches "
      "its single guarded use, and that no int() of a rank-1 array lies on an unfolding path. Path validity/counts are "
      "not decided.",
      _NOTE, "ownership/effect analysis + structural pairing rules on create_variant_part + class-hierarchy scan of "
             "reference attributes", "DESIGN.md §4 C09")

claim("C16",
      "Static analysis (level other): decides copy-then-mutate discipline of transpose (argument not in the mutates "
      "summary; every in-place transposer call receives an object derived from the deep copy; the copy is returned), "
      "coverage (both branches loop over an unfiltered note collection, resolved through the property getter's body), "
      "and agreement of the step/interval tables the arithmetic reads. The step/octave/alteration arithmetic itself is "
      "not decided.",
      _NOTE, "ownership/effect analysis with per-call-site argument provenance; property-body resolution; "
             "constant-folded tables", "DESIGN.md §4 C16")

claim("C03",
      "Static analysis (level other): decides the vocabulary and escape clauses of the MusicXML pair — every tag/attribute "
      "the exporter emits is mentioned by the importer (frozen exceptions), articulation vocabularies equal and "
      "dynamics/pedal vocabularies shared, every score object built by an importer handler escapes to the part, no "
      "no-effect statements, no stale loop variables, exporter read-only, part-group start/stop pairing. Equality of the "
      "round-tripped score and the byte-level fixpoint are not decided.",
      _NOTE, "writer/reader vocabulary agreement over ast string arguments, escape analysis of constructed objects, "
             "loop-variable liveness, ownership/effect analysis, stack push/pop pairing", "DESIGN.md §3 F5a/F7b, §4 C03")

claim("C11",
      "Static analysis (level other): decides table and link clauses of the notation normalisers — numeric vs. symbolic "
      "duration tables row by row (exact rational arithmetic), sortedness for the estimator's search, estimator/inverse "
      "reading those tables, provenance of pitch/voice/staff of every continuation note, tie_next/tie_prev pairing and "
      "restoration of the outgoing tie and slur ends, no store to pitch attributes in any normaliser, duplicate "
      "definitions. Measure tiling and note-array invariance are not decided.",
      _NOTE, "constant folding with exact fractions, argument provenance at constructor sites, block-local pairing, "
             "attribute-restricted mutation scan", "DESIGN.md §4 C11")

claim("C15",
      "Static analysis (level other): decides structural clauses of merge_parts / iter_parts — both ends rescaled by the "
      "same per-part factor, quarter duration installed through the constructor (no private-table writes), voice/staff "
      "offsets that depend on the part index only with staff default 1, discard tuples covering the documented structural "
      "classes, validated = dispatched modes, single part returned before any effect, reachability of every iter_parts "
      "branch. Equality with the score-level note array is not decided.",
      _NOTE, "argument/term provenance, ownership of private state, class-hierarchy-aware branch subsumption, CFG order",
      "DESIGN.md §4 C15")

claim("C02",
      "Static analysis (level other), deliberately thin: decides that each forward/inverse map pair builds the same "
      "interpolator with only `inv` differing and that the inverse swaps the same two arrays; that the integrand has the "
      "documented form beat_factor * divisions / quarter_duration with the beat factor beat_type/4 (x musical_beats/beats); "
      "that the pickup shift and its three unit variants are present; the constructor's read set; single ownership of the "
      "beat-mode state; the clamped previous-value quarter-duration map. Exact values, continuity and monotonicity are "
      "NOT decided (run-time arithmetic).",
      _NOTE, "sibling-call agreement, expression-shape check of the integrand, def-use of the key-point columns, "
             "ownership scan", "DESIGN.md §4 C02")
