"""setup_cmd: verify the interpreter and that the analyser parses /repo. Offline, stdlib only."""
import os, sys
sys.dont_write_bytecode = True
sys.path.insert(0, os.path.dirname(os.path.dirname(os.path.abspath(__file__))))
from sa.core.program import Program
p = Program()
print(f"setup ok: python {sys.version.split()[0]}, {len(p.modules)} modules, {len(p.functions)} functions, {len(p.classes)} classes parsed from {p.repo}")
os.makedirs(os.path.join(os.path.dirname(os.path.dirname(os.path.abspath(__file__))), "evidence"), exist_ok=True)
