#!/venv/bin/python
"""CLI:  check.py Cnn [--tier quick|thorough]   /   check.py --explain <replay.json>

exit 0  decided clauses hold on /repo's working tree (KNOWN-FINDING lines possible)
exit 1  VIOLATION property=<id> replay=<path>
exit 2  ANALYSIS-ERROR (anchor vanished, table unfoldable, instance floor missed,
        self-validation failed, internal error) -- the analyser is broken, not the repo
"""
from __future__ import annotations

import argparse
import importlib
import json
import os
import sys
import time
import traceback

HERE = os.path.dirname(os.path.abspath(__file__))
VERIF = os.path.dirname(HERE)
sys.path.insert(0, VERIF)
sys.dont_write_bytecode = True

from sa.core.program import AnalysisError, Program  # noqa: E402
from sa.core.report import Ctx, load_known, write_evidence  # noqa: E402


def analyse(prop: str, tier: str, prog: Program = None) -> Ctx:
    prog = prog or Program()
    mod = importlib.import_module(f"sa.props.{prop}")
    ctx = Ctx(prop, prog, tier)
    ctx.not_decided = list(getattr(mod, "NOT_DECIDED", []))
    mod.run(ctx)
    from sa.rules.generic import rule_hygiene
    rule_hygiene(ctx)
    return ctx


def main(argv=None):
    ap = argparse.ArgumentParser()
    ap.add_argument("prop", nargs="?")
    ap.add_argument("--tier", default=os.environ.get("VERIF_TIER", "quick"))
    ap.add_argument("--explain")
    ap.add_argument("--no-evidence", action="store_true")
    ap.add_argument("--json", action="store_true", help="print findings as JSON (used by the self-tests)")
    args = ap.parse_args(argv)
    if args.explain:
        with open(args.explain) as fh:
            d = json.load(fh)
        print(json.dumps(d, indent=1))
        return 0
    if not args.prop:
        ap.error("property id required")
    prop = args.prop
    tier = "thorough" if args.tier == "thorough" else "quick"
    try:
        seed = int(os.environ.get("VERIF_SEED", "0"))
    except ValueError:
        seed = 0
    t0 = time.time()
    ctx = None
    try:
        prog = Program()
        mod = importlib.import_module(f"sa.props.{prop}")
        ctx = Ctx(prop, prog, tier)
        ctx.not_decided = list(getattr(mod, "NOT_DECIDED", []))
        mod.run(ctx)
        from sa.rules.generic import rule_hygiene
        rule_hygiene(ctx)
        selftest = None
        if tier == "thorough":
            from sa.selftest.runner import run_battery
            selftest = run_battery(prop, seed)
            if selftest.get("failed"):
                raise AnalysisError("selftest", prop, "self-validation failed: " + "; ".join(selftest["failed"][:5]))
    except AnalysisError as e:
        print(f"ANALYSIS-ERROR property={prop} {e}")
        if ctx is not None and not args.no_evidence:
            try:
                write_evidence(ctx, tier, seed, time.time() - t0, 0, [], getattr(mod, "EXPLANATION", ""), error=str(e))
            except Exception:
                pass
        return 2
    except Exception as e:  # internal error: never masquerade as a violation
        traceback.print_exc()
        print(f"ANALYSIS-ERROR property={prop} rule=internal anchor={type(e).__name__} {e}")
        return 2

    known = load_known()
    known_keys = {k["key"]: k for k in known.get("known", []) if k.get("property") == prop}
    new, hit = [], []
    for f in ctx.findings:
        if f.key in known_keys:
            hit.append(f.key)
            print(f"KNOWN-FINDING: property={prop} {f.text()}")
        else:
            new.append(f)
    if args.json:
        print("JSON:" + json.dumps([f.as_dict() for f in ctx.findings]))
    rc = 0
    if new:
        os.makedirs(os.path.join(VERIF, "out"), exist_ok=True)
        replay = os.path.join(VERIF, "out", f"{prop}-violations.json")
        with open(replay, "w") as fh:
            json.dump({"property": prop, "tier": tier, "violations": [f.as_dict() for f in new]}, fh, indent=1)
        for f in new:
            print(f"  violation: {f.text()}")
        print(f"VIOLATION property={prop} replay={replay}")
        rc = 1
    wall = time.time() - t0
    if not args.no_evidence:
        write_evidence(ctx, tier, seed, wall, len(new), hit, getattr(mod, "EXPLANATION", ""), selftest=selftest)
    ob = len(ctx.obligations)
    print(f"{prop} tier={tier}: {ob} obligations over {len(ctx.functions_analysed)} functions / "
          f"{len(ctx.modules_consulted)} modules, {sum(1 for o in ctx.obligations if o['ok'])} hold, "
          f"{len(hit)} known finding(s), {len(new)} violation(s), {len(ctx.notes)} evidence-tier note(s), {wall:.2f}s")
    return rc


if __name__ == "__main__":
    sys.exit(main())
